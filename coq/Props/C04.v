(* C04 - property theorems only (proofs in Server/StepLemmas.v, Server/Lifecycle.v, Server/LifecycleStep.v) *)
From VT Require Import Server.Lifecycle Server.LifecycleStep.
Open Scope N_scope.

(* ---- the state invariant: holds initially, preserved by every operation of every
        configuration (scripted handler actions included) ---- *)
Theorem C04_invariant_init : Inv srv_init.
Proof. exact Inv_init. Qed.
Print Assumptions C04_invariant_init.

Theorem C04_invariant_step : forall c s o, Inv s -> Inv (fst (step c s o)).
Proof. exact step_Inv. Qed.
Print Assumptions C04_invariant_step.

Theorem C04_invariant_run : forall c ops s, Inv s -> Inv (fst (run c s ops)).
Proof. exact run_Inv. Qed.
Print Assumptions C04_invariant_run.

(* ---- C04_error_args ---- *)
Theorem C04_error_args :
  error_args [] = PDict [(k_message, PStr (s2l "Connection rejected by server"))] /\
  (forall a, error_args [a] = PDict [(k_message, PStr (py_str a))]) /\
  (forall a b, error_args [a; b] = PDict [(k_message, PStr (py_str a)); (k_data, b)]) /\
  (forall a b d rest, error_args (a :: b :: d :: rest) =
                      PDict [(k_message, PStr (py_str a)); (k_data, PTuple (b :: d :: rest))]).
Proof. exact error_args_cases. Qed.
Print Assumptions C04_error_args.

(* ---- C04_connect_cases ---- *)
(* (i) namespace not served: CONNECT_ERROR "Unable to connect", no handler, state unchanged *)
Theorem C04_connect_cases_not_served : forall c eio pn data s,
  served c (ns_or_default pn) = false ->
  handle_connect c eio pn data s =
  (s, sp_effs s eio (frames_of c CONNECT_ERROR unable (ns_or_default pn) None),
      sp_res (frames_of c CONNECT_ERROR unable (ns_or_default pn) None)).
Proof. exact connect_not_served. Qed.
Print Assumptions C04_connect_cases_not_served.

(* (i) transport already connected to the namespace: the same answer; only the id generator moved *)
Theorem C04_connect_cases_duplicate : forall c eio pn data s,
  Inv s -> served c (ns_or_default pn) = true -> sid_from_eio (mg s) eio (ns_or_default pn) <> None ->
  handle_connect c eio pn data s =
  (bump s, sp_effs s eio (unable_frames c (ns_or_default pn)), sp_res (unable_frames c (ns_or_default pn))).
Proof. exact connect_duplicate. Qed.
Print Assumptions C04_connect_cases_duplicate.

(* (ii) otherwise the manager registers sid := sid_name (fresh s) *)
Theorem C04_connect_cases_registered : forall eio pn s,
  Inv s -> sid_from_eio (mg s) eio (ns_or_default pn) = None ->
  let ns := ns_or_default pn in let sid := new_sid s in let s1 := conn_state s eio ns in
  snd (mgr_connect (mg s) eio ns sid) = Some sid /\ MOK (mg s1) /\
  sid_from_eio (mg s1) eio ns = Some sid /\ eio_from_sid (mg s1) sid ns = Some eio /\
  is_connected (mg s1) (Some sid) ns = true /\
  pending (mg s1) = pending (mg s) /\ callbacks (mg s1) = callbacks (mg s) /\
  (forall ns', ns <> ns' -> ns_rooms (mg s1) ns' = ns_rooms (mg s) ns').
Proof. exact conn_state_facts. Qed.
Print Assumptions C04_connect_cases_registered.

(* accepted, nobody to ask: one CONNECT {sid}, no Call *)
Theorem C04_connect_cases_accept_no_handler : forall c eio pn data s env,
  has_actions c = false -> Inv s -> served c (ns_or_default pn) = true ->
  sid_from_eio (mg s) eio (ns_or_default pn) = None -> aget str_eqb (environ s) eio = Some env ->
  hid_for c ev_connect (ns_or_default pn) = None ->
  handle_connect c eio pn data s =
  (conn_state s eio (ns_or_default pn), sp_effs s eio (accept_frames c (ns_or_default pn) (new_sid s)), Ok tt).
Proof. exact connect_accept_no_handler. Qed.
Print Assumptions C04_connect_cases_accept_no_handler.

(* accepted by the handler: exactly one Call with the auth payload, exactly one CONNECT {sid} *)
Theorem C04_connect_cases_accept_handler : forall c eio pn data s env,
  has_actions c = false -> Inv s -> served c (ns_or_default pn) = true ->
  sid_from_eio (mg s) eio (ns_or_default pn) = None -> aget str_eqb (environ s) eio = Some env ->
  forall h pre b,
  responsible c ev_connect (ns_or_default pn) [] = Some (Some h, pre) -> aget N.eqb (behav c) h = Some b ->
  arity_bad b (List.length (connect_args (new_sid s) env data b pre)) = false ->
  forall v, h_outcome b = Returns v -> v <> PBool false ->
  handle_connect c eio pn data s =
  (conn_state s eio (ns_or_default pn),
   if always_connect c
   then sp_effs s eio (accept_frames c (ns_or_default pn) (new_sid s)) ++ [Call h (connect_args (new_sid s) env data b pre)]
   else Call h (connect_args (new_sid s) env data b pre) :: sp_effs s eio (accept_frames c (ns_or_default pn) (new_sid s)),
   Ok tt).
Proof. exact connect_accept_handler. Qed.
Print Assumptions C04_connect_cases_accept_handler.

(* refused (False / ConnectionRefusedError): one Call, then the refusal's error_args *)
Theorem C04_connect_cases_refused : forall c eio pn data s env,
  has_actions c = false -> Inv s -> served c (ns_or_default pn) = true ->
  sid_from_eio (mg s) eio (ns_or_default pn) = None -> aget str_eqb (environ s) eio = Some env ->
  forall h pre b,
  responsible c ev_connect (ns_or_default pn) [] = Some (Some h, pre) -> aget N.eqb (behav c) h = Some b ->
  arity_bad b (List.length (connect_args (new_sid s) env data b pre)) = false ->
  forall why, refusal_of (h_outcome b) = Some why ->
  let ns := ns_or_default pn in let sid := new_sid s in let s1 := conn_state s eio ns in
  let args := connect_args sid env data b pre in
  handle_connect c eio pn data s =
  if always_connect c then
    (upd_mg s1 (mgr_disconnect (fst (pre_disconnect (mg s1) sid ns)) sid ns),
     sp_effs s eio (accept_frames c ns sid) ++ Call h args :: sp_effs s eio (frames_of c DISCONNECT why ns None),
     sp_res (frames_of c DISCONNECT why ns None))
  else
    (upd_mg s1 (mgr_disconnect (mg s1) sid ns),
     Call h args :: sp_effs s eio (frames_of c CONNECT_ERROR why ns None),
     sp_res (frames_of c CONNECT_ERROR why ns None)).
Proof. exact connect_refused. Qed.
Print Assumptions C04_connect_cases_refused.

(* ... and nothing of the refused session stays behind, encodable refusal or not *)
Theorem C04_connect_cases_refused_state : forall c eio pn data s env,
  has_actions c = false -> Inv s -> served c (ns_or_default pn) = true ->
  sid_from_eio (mg s) eio (ns_or_default pn) = None -> aget str_eqb (environ s) eio = Some env ->
  forall h pre b,
  responsible c ev_connect (ns_or_default pn) [] = Some (Some h, pre) -> aget N.eqb (behav c) h = Some b ->
  arity_bad b (List.length (connect_args (new_sid s) env data b pre)) = false ->
  forall why s' effs res, refusal_of (h_outcome b) = Some why ->
  handle_connect c eio pn data s = (s', effs, res) ->
  (forall ns', eio_from_sid (mg s') (new_sid s) ns' = None) /\ is_member (mg s') (new_sid s) = false /\
  MOK (mg s') /\ pending (mg s') = pending (mg s) /\ callbacks (mg s') = callbacks (mg s) /\
  (forall ns', ns_or_default pn <> ns' -> ns_rooms (mg s') ns' = ns_rooms (mg s) ns') /\
  fresh s' = fresh s + 1 /\ environ s' = environ s /\ binpkt s' = binpkt s /\
  sessions s' = sessions s /\ live s' = live s.
Proof. exact connect_refused_state. Qed.
Print Assumptions C04_connect_cases_refused_state.

(* ... and every namespace has exactly the members (sid, transport) it had before the request *)
Theorem C04_connect_cases_refused_members : forall c eio pn data s env,
  has_actions c = false -> Inv s -> served c (ns_or_default pn) = true ->
  sid_from_eio (mg s) eio (ns_or_default pn) = None -> aget str_eqb (environ s) eio = Some env ->
  forall h pre b,
  responsible c ev_connect (ns_or_default pn) [] = Some (Some h, pre) -> aget N.eqb (behav c) h = Some b ->
  arity_bad b (List.length (connect_args (new_sid s) env data b pre)) = false ->
  forall why, refusal_of (h_outcome b) = Some why ->
  forall ns', ns_members (mg (st (handle_connect c eio pn data s))) ns' = ns_members (mg s) ns'.
Proof. exact connect_refused_members. Qed.
Print Assumptions C04_connect_cases_refused_members.

(* ---- C04_fresh_sid ---- *)
Theorem C04_sid_name_injective : forall a b, sid_name a = sid_name b -> a = b.
Proof. exact sid_name_inj. Qed.
Print Assumptions C04_sid_name_injective.

Theorem C04_fresh_monotone : forall c ops s, fresh s <= fresh (fst (run c s ops)).
Proof. exact run_fresh_mono. Qed.
Print Assumptions C04_fresh_monotone.

Theorem C04_connect_consumes_id : forall c eio pn data s,
  served c (ns_or_default pn) = true -> fresh s + 1 <= fresh (st (handle_connect c eio pn data s)).
Proof. exact handle_connect_consumes. Qed.
Print Assumptions C04_connect_consumes_id.

Theorem C04_fresh_sid : forall c ops s,
  (forall sid, In sid (announced c s ops) ->
     exists k, sid = sid_name k /\ fresh s <= k < fresh (fst (run c s ops))) /\
  NoDup (announced c s ops).
Proof. exact announced_fresh. Qed.
Print Assumptions C04_fresh_sid.

(* ---- C04_disconnect_once_seq ---- *)
Theorem C04_disconnect_once_seq_packet : forall c s sid pn,
  has_actions c = false -> is_connected (mg s) (Some sid) (ns_or_default pn) = true ->
  forall h pre b v,
  responsible c ev_disconnect (ns_or_default pn) [] = Some (Some h, pre) ->
  aget N.eqb (behav c) h = Some b -> h_outcome b = Returns v ->
  forall eio reason,
  sid_from_eio (mg s) eio (ns_or_default pn) = Some sid ->
  arity_bad b (List.length (disc_args sid (reason_or_client reason) b pre)) = false ->
  handle_disconnect c eio pn reason s =
  (disc_state s sid (ns_or_default pn), [Call h (disc_args sid (reason_or_client reason) b pre)], Ok tt).
Proof. exact disconnect_packet_once. Qed.
Print Assumptions C04_disconnect_once_seq_packet.

Theorem C04_disconnect_once_seq_api : forall c s sid pn,
  has_actions c = false -> is_connected (mg s) (Some sid) (ns_or_default pn) = true ->
  forall h pre b v,
  responsible c ev_disconnect (ns_or_default pn) [] = Some (Some h, pre) ->
  aget N.eqb (behav c) h = Some b -> h_outcome b = Returns v ->
  arity_bad b (List.length (disc_args sid r_server_disconnect b pre)) = false ->
  api_disconnect c sid pn s =
  (disc_state s sid (ns_or_default pn),
   match eio_from_sid (mg s) sid (ns_or_default pn) with
   | Some e => sp_effs s e (frames_of c DISCONNECT PNone (ns_or_default pn) None)
   | None => [] end ++ [Call h (disc_args sid r_server_disconnect b pre)], Ok tt).
Proof. exact disconnect_api_once. Qed.
Print Assumptions C04_disconnect_once_seq_api.

(* transport loss: one chunk of effects per namespace of the manager, in order *)
Theorem C04_disconnect_once_seq_transport : forall c eio reason s,
  has_actions c = false -> Inv s ->
  let r := handle_eio_disconnect c eio reason s in
  snd (fst r) = flat_map (disc_chunk c s eio reason) (get_namespaces (mg s)) /\
  MOK (mg (st r)) /\
  (forall n sid, sid_from_eio (mg s) eio n = Some sid -> is_connected (mg s) (Some sid) n = true ->
                 eio_from_sid (mg (st r)) sid n = None /\ is_connected (mg (st r)) (Some sid) n = false) /\
  fresh (st r) = fresh s /\ live (st r) = live s.
Proof. exact eio_disconnect_effects. Qed.
Print Assumptions C04_disconnect_once_seq_transport.

Theorem C04_disconnect_transport_chunk : forall c s eio reason ns sid h pre b v,
  sid_from_eio (mg s) eio ns = Some sid -> is_connected (mg s) (Some sid) ns = true ->
  responsible c ev_disconnect ns [] = Some (Some h, pre) -> aget N.eqb (behav c) h = Some b ->
  h_outcome b = Returns v ->
  arity_bad b (List.length (disc_args sid (reason_or_client reason) b pre)) = false ->
  disc_chunk c s eio reason ns = [Call h (disc_args sid (reason_or_client reason) b pre)].
Proof. exact disc_chunk_returns. Qed.
Print Assumptions C04_disconnect_transport_chunk.

(* afterwards: not connected, in no room list of the namespace, other namespaces untouched *)
Theorem C04_disconnect_post : forall s sid ns,
  MOK (mg s) ->
  let s' := disc_state s sid ns in
  MOK (mg s') /\
  is_connected (mg s') (Some sid) ns = false /\ eio_from_sid (mg s') sid ns = None /\
  (forall e, ~ In (ns, sid, e) (all_sids (mg s'))) /\
  (forall ns', ns <> ns' -> ns_rooms (mg s') ns' = ns_rooms (mg s) ns') /\
  (forall ns' e, ns <> ns' -> sid_from_eio (mg s') e ns' = sid_from_eio (mg s) e ns') /\
  fresh s' = fresh s /\ environ s' = environ s /\ binpkt s' = binpkt s /\ sessions s' = sessions s /\ live s' = live s.
Proof. exact disc_state_facts. Qed.
Print Assumptions C04_disconnect_post.

Theorem C04_other_namespaces_unaffected : forall s sid ns ns' e,
  MOK (mg s) -> ns <> ns' ->
  sid_from_eio (mg (disc_state s sid ns)) e ns' = sid_from_eio (mg s) e ns' /\
  ns_rooms (mg (disc_state s sid ns)) ns' = ns_rooms (mg s) ns'.
Proof. exact other_namespaces_unaffected. Qed.
Print Assumptions C04_other_namespaces_unaffected.

Theorem C04_no_second_call : forall c s sid pn,
  is_connected (mg s) (Some sid) (ns_or_default pn) = false ->
  api_disconnect c sid pn s = (s, [], Ok tt) /\
  (forall eio reason,
      sid_from_eio (mg s) eio (ns_or_default pn) = Some sid \/ sid_from_eio (mg s) eio (ns_or_default pn) = None ->
      handle_disconnect c eio pn reason s = (s, [], Ok tt)).
Proof. exact no_second_call. Qed.
Print Assumptions C04_no_second_call.

(* closed form: after one terminating operation on (eio, ns, sid), a second one of any kind
   (DISCONNECT packet, server.disconnect(), the namespace's share of a transport loss) does nothing *)
Theorem C04_disconnect_then_noop : forall c s sid eio pn,
  MOK (mg s) -> sid_from_eio (mg s) eio (ns_or_default pn) = Some sid ->
  let s' := disc_state s sid (ns_or_default pn) in
  sid_from_eio (mg s') eio (ns_or_default pn) = None /\
  (forall reason, handle_disconnect c eio pn reason s' = (s', [], Ok tt)) /\
  api_disconnect c sid pn s' = (s', [], Ok tt) /\
  (forall reason, disc_chunk c s' eio reason (ns_or_default pn) = []).
Proof. exact disconnect_then_noop. Qed.
Print Assumptions C04_disconnect_then_noop.

(* ---- executable form: the connect verdict of the checker applied to the implementation
        accepts the model's own behaviour ---- *)
Theorem C04_model_passes_connect_checker : forall c s eio payload tbl pn data env,
  has_actions c = false -> Inv s -> is_live s eio = true ->
  connect_of c s eio payload tbl = Some (pn, data) ->
  aget str_eqb (environ s) eio = Some env ->
  let o := EioMessage eio payload tbl in
  c04_connect c s (fst (step c s o)) eio pn data (snd (step c s o)) = true.
Proof. exact model_passes_c04_connect. Qed.
Print Assumptions C04_model_passes_connect_checker.

(* the complete per-step checker has a domain condition on configurations (distinct handler
   ids for the disconnect event): without it the model itself is flagged *)
Theorem C04_step_checker_shared_handler_refuted :
  exists c s o, Inv s /\ has_actions c = false /\ c04_step c s o (snd (step c s o)) = false.
Proof. exact c04_step_shared_handler_refuted. Qed.
Print Assumptions C04_step_checker_shared_handler_refuted.

(* ---- the complete per-step checker c04_step on the generator's domain ----
   c04_domain c s o :=
     ids_separate c   (a handler id responsible for `disconnect` somewhere is responsible for no other event)
  /\ st_domain s      (live transports have an environ entry; no namespace is called like a session id)
  /\ op_domain c s o  (no leave/close of room None; the engine.io close reason is not a session id;
                       no client EVENT literally named "disconnect")
   Inv1 s := Inv s /\ "a session id belongs to one namespace" - an invariant of every operation. *)
Theorem C04_invariant1_init : Inv1 srv_init.
Proof. exact Inv1_init. Qed.
Print Assumptions C04_invariant1_init.

Theorem C04_invariant1_step : forall c s o, Inv1 s -> Inv1 (fst (step c s o)).
Proof. exact step_Inv1. Qed.
Print Assumptions C04_invariant1_step.

Theorem C04_model_passes_step_checker : forall c s o,
  has_actions c = false -> c04_domain c s o -> Inv1 s -> c04_step c s o (snd (step c s o)) = true.
Proof. exact model_passes_c04_step_inv. Qed.
Print Assumptions C04_model_passes_step_checker.

Theorem C04_model_passes_step_checker_all : forall c,
  has_actions c = false ->
  forall ops s, Inv1 s -> c04_domain_run c s ops -> all_steps (c04_step c) c s ops (snd (run c s ops)) = true.
Proof. exact model_passes_c04_all. Qed.
Print Assumptions C04_model_passes_step_checker_all.

(* the abstract form of the "exactly once" clause: a step that ends the connections T (one per
   namespace) and whose disconnect-handler calls are exactly the dispatches for T passes it *)
Theorem C04_once_clause : forall c s s' obs (T : list (str * str)) (r : pv),
  Inv s -> sid_one_ns (mg s) ->
  disc_calls c obs = flat_map (fun nx => chunk c (fst nx) (snd nx) r) T ->
  (forall n x, In (n, x) T -> is_connected (mg s) (Some x) n = true /\ is_connected (mg s') (Some x) n = false) ->
  (forall n x e, In (n, x, e) (all_sids (mg s)) -> ~ In (n, x) T ->
                 is_connected (mg s') (Some x) n = is_connected (mg s) (Some x) n /\
                 (is_connected (mg s) (Some x) n = true -> is_member (mg s') x = true)) ->
  NoDup (map fst T) ->
  (forall k, r <> PStr (sid_name k)) ->
  (forall n k, In n (get_namespaces (mg s)) -> n <> sid_name k) ->
  c04_once c s s' obs = true.
Proof. exact once_clause. Qed.
Print Assumptions C04_once_clause.
