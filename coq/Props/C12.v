(* C12 - property theorems only.  Inv is the reachable-state invariant (C11_inv); has_actions c
   = false: handlers have no scripted API calls (what a handler legitimately invoked for the
   client does through the API is outside the claim); benign_event_name: the frame does not carry
   an event literally named "disconnect" (C12_reserved_event_refuted shows why). *)
From VT Require Import Server.Isolation Server.Sessions Server.EmitNestedProofs.

Theorem C12_frame_local : forall c s e payload tbl,
  has_actions c = false -> Inv s -> benign_event_name c s e payload (table_loads tbl) ->
  c12_step c s (EioMessage e payload tbl) (snd (step c s (EioMessage e payload tbl))) = true.
Proof. exact C12_frame_local_lemma. Qed.
Print Assumptions C12_frame_local.

Theorem C12_frame_local_view : forall c s e payload tbl,
  has_actions c = false -> Inv s -> benign_event_name c s e payload (table_loads tbl) ->
  osame e s (fst (step c s (EioMessage e payload tbl))) /\
  Forall (Eok s e) (snd (step c s (EioMessage e payload tbl))).
Proof. exact step_message_local. Qed.
Print Assumptions C12_frame_local_view.

(* configurations WITH scripted actions (cfg_ok: no misuse of the room None): the other
   transports' part of the state is untouched all the same - rooms included, a handler's
   enter_room / leave_room act on its own sid -, handlers and callbacks are invoked for this
   transport's sids only; scripted emits (Out) may address anybody (Eok' leaves Out free) *)
Theorem C12_frame_local_actions : forall c s e payload tbl,
  cfg_ok c -> Inv s -> benign_event_name c s e payload (table_loads tbl) ->
  c12_step c s (EioMessage e payload tbl) (snd (step c s (EioMessage e payload tbl))) = true /\
  others_unchanged e s (fst (step c s (EioMessage e payload tbl))) = true.
Proof. exact C12_frame_local_actions_lemma. Qed.
Print Assumptions C12_frame_local_actions.

Theorem C12_frame_local_actions_view : forall c s e payload tbl,
  cfg_ok c -> Inv s -> benign_event_name c s e payload (table_loads tbl) ->
  osame e s (fst (step c s (EioMessage e payload tbl))) /\
  Forall (Eok' s e) (snd (step c s (EioMessage e payload tbl))).
Proof. exact Sessions.C12_frame_local_actions_view. Qed.
Print Assumptions C12_frame_local_actions_view.

Theorem C12_others_unchanged : forall e s s', osame e s s' -> others_unchanged e s s' = true.
Proof. exact osame_others_unchanged. Qed.
Print Assumptions C12_others_unchanged.

Theorem C12_run : forall c ops,
  has_actions c = false -> Forall op_ok ops -> benign_ops c srv_init ops ->
  all_steps (c12_step c) c srv_init ops (snd (run c srv_init ops)) = true.
Proof. exact C12_run_lemma. Qed.
Print Assumptions C12_run.

Theorem C12_undecodable : forall c s e payload tbl x,
  aget str_eqb (binpkt s) e = None -> decode_any c (table_loads tbl) payload = Err x ->
  step c s (EioMessage e payload tbl) = (s, []).
Proof. exact C12_undecodable_lemma. Qed.
Print Assumptions C12_undecodable.

(* msgpack serializer: a value that is not a dict, or a dict without 'type' or without 'nsp',
   or bytes the msgpack library rejects, never reaches a handler *)
Theorem C12_msgpack_mistyped_rejected : forall c s e payload tbl,
  uses_binary c = false -> aget str_eqb (binpkt s) e = None -> truthy payload = true ->
  (match table_loads tbl (match payload return str with PBytes b | PStr b => b | _ => [] end) with
   | Err _ => True
   | Ok (PDict kv) => dict_get kv (PStr (s2l "type")) = None \/ dict_get kv (PStr (s2l "nsp")) = None
   | Ok _ => True
   end) ->
  step c s (EioMessage e payload tbl) = (s, []).
Proof. exact C12_msgpack_mistyped_rejected_lemma. Qed.
Print Assumptions C12_msgpack_mistyped_rejected.

Theorem C12_guard_count : forall loads c0 ds rest,
  forallb is_digit ds = true -> (10 < List.length ds)%nat ->
  decode_str loads (c0 :: ds ++ 45 :: rest) = Err ValueError.
Proof. exact C12_guard_count_lemma. Qed.
Print Assumptions C12_guard_count.

Theorem C12_guard_id : forall loads c0 ds rest,
  forallb is_digit ds = true -> (100 < List.length ds)%nat ->
  decode_str loads (c0 :: ds ++ rest) = Err ValueError.
Proof. exact C12_guard_id_lemma. Qed.
Print Assumptions C12_guard_id.

Theorem C12_guard_id_ns : forall loads c0 nsr ds rest,
  existsb (N.eqb 44) nsr = false -> forallb is_digit ds = true -> (100 < List.length ds)%nat ->
  decode_str loads (c0 :: (47 :: nsr) ++ 44 :: ds ++ rest) = Err ValueError.
Proof. exact C12_guard_id_ns_lemma. Qed.
Print Assumptions C12_guard_id_ns.

Theorem C12_bounded_state : forall c s e payload tbl,
  Inv s -> binpkt_bounded e (binpkt s) (binpkt (fst (step c s (EioMessage e payload tbl)))).
Proof. exact C12_bounded_state_lemma. Qed.
Print Assumptions C12_bounded_state.

Theorem C12_attachment_grows : forall r a r' fin,
  add_attachment r a = Ok (r', fin) -> List.length (ratts r') = S (List.length (ratts r)).
Proof. exact add_attachment_grows. Qed.
Print Assumptions C12_attachment_grows.

Theorem C12_reserved_event_refuted :
  exists c s o, has_actions c = false /\ Inv s /\
                calls_of (snd (step c s o)) = [(2%N, [])] /\ c12_step c s o (snd (step c s o)) = false.
Proof. exact Isolation.C12_reserved_event_refuted. Qed.
Print Assumptions C12_reserved_event_refuted.

Theorem C12_example :
  Inv x_state /\
  c12_step x_cfg x_state x_frame_event (snd (step x_cfg x_state x_frame_event)) = true /\
  c12_step x_cfg x_state x_frame_disc (snd (step x_cfg x_state x_frame_disc)) = true.
Proof. exact (conj x_state_Inv (conj (proj2 x_frame_event_local) (proj2 (proj2 x_frame_disc_local)))). Qed.
Print Assumptions C12_example.

(* ---- re-entrancy at the send (Server/EmitNested.v): a broadcast without callback during which a
   packet of the offender, or the loss of its transport, is processed from inside a send ---- *)

(* the plain ApiEmit step of Server.v writes nothing and is exactly "the sends decided before the
   first one, to the transports alive" *)
Theorem C12_emit_plain : forall c s ev data to room skip ns,
  step c s (ApiEmit ev data to room skip ns None) =
  (s, match emit_sends c s ev data (ns_or_default ns) (first_truthy to room) skip with
      | Ok l => sends_live (live s) l
      | Err x => [Raised x]
      end).
Proof. exact emit_plain. Qed.
Print Assumptions C12_emit_plain.

(* the new operation with the nested operation disarmed is the old one *)
Theorem C12_nested_never : forall c s ev data to room skip ns inner,
  nstep c s (NEmit ev data to room skip ns 0 inner) = step c s (ApiEmit ev data to room skip ns None).
Proof. exact nested_never. Qed.
Print Assumptions C12_nested_never.

(* on histories of plain operations the evaluator used by the harness is the old one *)
Theorem C12_plain_eval : forall c ops obs fin,
  c12x_eval (mkN c (map NPlain ops) (plain_obs obs) fin) = c12_eval (mkH c ops obs fin).
Proof. exact plain_eval. Qed.
Print Assumptions C12_plain_eval.

(* no packet of any client changes which transports are alive *)
Theorem C12_message_live : forall c s e payload tbl, live (fst (step c s (EioMessage e payload tbl))) = live s.
Proof. exact step_message_live. Qed.
Print Assumptions C12_message_live.

(* the model's re-entrant broadcast passes the checker applied to the implementation: whatever
   packet of the offender (or the loss of its transport) is processed after the k-th send, every
   other addressed member is served exactly once, nobody else receives anything, the offender at
   most once, nothing is raised, and the nested packet obeys c12_step *)
Theorem C12_nested_broadcast : forall c s ev data to room skip ns k e inner,
  has_actions c = false -> Inv s -> offender_op c s e inner ->
  c12_nested_step c s ev data to room skip ns inner
                  (snd (nstep3 c s (NEmit ev data to room skip ns k inner))) = true.
Proof. exact nested_broadcast_ok. Qed.
Print Assumptions C12_nested_broadcast.

(* whole histories: plain operations as in C12_run, re-entrant broadcasts whose nested operation
   is a benign packet of some transport or the loss of that transport *)
Theorem C12_nested_run : forall c ops,
  has_actions c = false -> nbenign_ops c srv_init ops ->
  nall_steps c srv_init ops (nobs c srv_init ops) = true.
Proof. exact nested_run_ok. Qed.
Print Assumptions C12_nested_run.

Theorem C12_nested_example :
  snd (nstep3 x_cfg x_state x_nested) =
    ([Out x_e1 x_news], [Call 3 [PStr (sid_name 0); PStr (s2l "client disconnect")]], [Out x_e2 x_news]) /\
  c12_nested_step x_cfg x_state (PStr (s2l "news")) (PInt 1) PNone PNone PNone None x_frame_disc
                  (snd (nstep3 x_cfg x_state x_nested)) = true /\
  c12_nested_step x_cfg x_state (PStr (s2l "news")) (PInt 1) PNone PNone PNone None x_frame_disc
                  ([Out x_e1 x_news], [Call 3 [PStr (sid_name 0); PStr (s2l "client disconnect")]], [Raised RuntimeError]) = false.
Proof. exact (conj (proj1 x_nested_segments) (conj x_nested_ok (proj1 x_nested_rejected))). Qed.
Print Assumptions C12_nested_example.
