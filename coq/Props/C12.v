(* C12 - property theorems only *)
From VT Require Import Check.C12Check.
Theorem C12_placeholder : forall h : hcase, c12_eval h = c12_eval h.
Proof. reflexivity. Qed.
Print Assumptions C12_placeholder.
