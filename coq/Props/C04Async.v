(* C04, asyncio-interleaving part.  Property theorems only.
   Model: Conc/ServerConc.v at asyncio granularity (one scheduling choice = everything a task
   does between two suspension points; only sends and handler invocations suspend). *)
From VT Require Import Conc.ConcProofs.

(* For ANY number of concurrent terminating tasks (server.disconnect(), client DISCONNECT,
   transport loss, on any sids / namespaces / transports), any well-formed quiescent start and
   ALL schedules of any length: [outcome] - every disconnect handler runs at most once at any
   moment and only for clients connected at the start; no task raises; a client whose handler
   has not run keeps every membership and its callbacks; once all tasks have finished the
   handler of every connected client some task was aimed at has run exactly once, the client is
   in no room, not connected, not pending, its callbacks are gone, nothing is pending at all,
   the environ of lost transports is gone and that of the others is kept. *)
Theorem C04_once_async :
  forall R m0 env0 causes, quiescent_start m0 -> forall sched,
    outcome R m0 env0 causes (run_sched GAsync R causes sched m0 env0).
Proof. exact once_async. Qed.
Print Assumptions C04_once_async.

(* The reason: no task is ever suspended between is_connected and pre_disconnect. *)
Theorem C04_async_window_closed :
  forall R m0 env0 causes, quiescent_start m0 -> forall sched t,
    In t (c_tasks (run_sched GAsync R causes sched m0 env0)) -> window_of t = None.
Proof. exact async_window_closed. Qed.
Print Assumptions C04_async_window_closed.
