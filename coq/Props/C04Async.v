(* C04 (asyncio interleavings) - property theorems only (placeholder while the proofs are being written) *)
From VT Require Import Check.C20Check.
Theorem C04Async_placeholder : forall k : ccase, c20_eval k = c20_eval k.
Proof. reflexivity. Qed.
Print Assumptions C04Async_placeholder.
