(* C04, asyncio-interleaving part.  Property theorems only.
   Model: Conc/ServerConc.v at asyncio granularity (one scheduling choice = everything a task
   does between two suspension points; only sends and handler invocations suspend). *)
From VT Require Import Conc.ConcProofs Conc.ConnConc Conc.ConnProofs.

(* For ANY number of concurrent terminating tasks (server.disconnect(), client DISCONNECT,
   transport loss, on any sids / namespaces / transports), any well-formed quiescent start and
   ALL schedules of any length: [outcome] - every disconnect handler runs at most once at any
   moment and only for clients connected at the start; no task raises; a client whose handler
   has not run keeps every membership and its callbacks; once all tasks have finished the
   handler of every connected client some task was aimed at has run exactly once, the client is
   in no room, not connected, not pending, its callbacks are gone, nothing is pending at all,
   the environ of lost transports is gone and that of the others is kept. *)
Theorem C04_once_async :
  forall R m0 env0 causes, quiescent_start m0 -> forall sched,
    outcome R m0 env0 causes (run_sched GAsync R causes sched m0 env0).
Proof. exact once_async. Qed.
Print Assumptions C04_once_async.

(* The reason: no task is ever suspended between is_connected and pre_disconnect. *)
Theorem C04_async_window_closed :
  forall R m0 env0 causes, quiescent_start m0 -> forall sched t,
    In t (c_tasks (run_sched GAsync R causes sched m0 env0)) -> window_of t = None.
Proof. exact async_window_closed. Qed.
Print Assumptions C04_async_window_closed.

(* ---- a CONNECT in progress beside the terminating causes (model Conc/ConnConc.v) ---- *)

(* A CONNECT for namespace [k_ns k] arrives on a live transport and is registered (manager.connect,
   fresh session id [k_sid k]; m1 is the manager after that); its coroutine connect handler is
   SUSPENDED and will accept.  ANY number of terminating tasks (server.disconnect(), client
   DISCONNECT, transport loss - of this transport's established sessions, of the new session, of
   anybody) are then interleaved with the rest of the connect in ANY order: the manager, the
   environ, the terminating tasks and their log are exactly those of the terminating tasks run
   alone from m1 (the connect's remaining blocks do not touch the shared state), hence the whole
   [outcome] of C04_once_async holds, judged from m1: every established session and the new one
   get their disconnect handler exactly once if a cause is aimed at them and are untouched
   otherwise, nothing is left behind, no task raises.  [ac] = always_connect. *)
Theorem C04_connect_in_progress_accept :
  forall ac R m0 env0 causes k,
    quiescent_start m0 -> fresh_sid m0 (k_sid k) -> memb (k_eio k) env0 = true -> k_accept k = true ->
    forall sched,
      let m1 := fst (mgr_connect m0 (k_eio k) (k_ns k) (k_sid k)) in
      let x := xrun ac R (xinit m0 env0 causes [k]) (to_handler ac (List.length causes) ++ sched) in
      x_cfg x = run_sched GAsync R causes sched m1 env0 /\
      outcome R m1 env0 causes (x_cfg x).
Proof. exact connect_in_progress_accept. Qed.
Print Assumptions C04_connect_in_progress_accept.

(* Whatever the handler answers and whatever runs beside it (no hypothesis on the start, any
   schedule, connect not necessarily in progress first): the connect handler of one request
   runs at most once. *)
Theorem C04_connect_handler_at_most_once :
  forall ac R m env causes k sched,
    (chcount (k_sid k) (k_ns k) (x_log (xrun ac R (xinit m env causes [k]) sched)) <= 1)%nat.
Proof. exact connect_handler_at_most_once. Qed.
Print Assumptions C04_connect_handler_at_most_once.
