(* C04, asyncio-interleaving part.  Property theorems only.
   Model: Conc/ServerConc.v at asyncio granularity (one scheduling choice = everything a task
   does between two suspension points; only sends and handler invocations suspend). *)
From VT Require Import Conc.ConcProofs Conc.ConnConc Conc.ConnProofs.

(* For ANY number of concurrent terminating tasks (server.disconnect(), client DISCONNECT,
   transport loss, on any sids / namespaces / transports), any well-formed quiescent start and
   ALL schedules of any length: [outcome] - every disconnect handler runs at most once at any
   moment and only for clients connected at the start; no task raises; a client whose handler
   has not run keeps every membership and its callbacks; once all tasks have finished the
   handler of every connected client some task was aimed at has run exactly once, the client is
   in no room, not connected, not pending, its callbacks are gone, nothing is pending at all,
   the environ of lost transports is gone and that of the others is kept. *)
Theorem C04_once_async :
  forall R m0 env0 causes, quiescent_start m0 -> forall sched,
    outcome R m0 env0 causes (run_sched GAsync R causes sched m0 env0).
Proof. exact once_async. Qed.
Print Assumptions C04_once_async.

(* The reason: no task is ever suspended between is_connected and pre_disconnect. *)
Theorem C04_async_window_closed :
  forall R m0 env0 causes, quiescent_start m0 -> forall sched t,
    In t (c_tasks (run_sched GAsync R causes sched m0 env0)) -> window_of t = None.
Proof. exact async_window_closed. Qed.
Print Assumptions C04_async_window_closed.

(* ---- a CONNECT in progress beside the terminating causes (model Conc/ConnConc.v) ---- *)

(* A CONNECT for namespace [k_ns k] arrives on a live transport and is registered (manager.connect,
   fresh session id [k_sid k]; m1 is the manager after that); its coroutine connect handler is
   SUSPENDED and will accept.  ANY number of terminating tasks (server.disconnect(), client
   DISCONNECT, transport loss - of this transport's established sessions, of the new session, of
   anybody) are then interleaved with the rest of the connect in ANY order: the manager, the
   environ, the terminating tasks and their log are exactly those of the terminating tasks run
   alone from m1 (the connect's remaining blocks do not touch the shared state), hence the whole
   [outcome] of C04_once_async holds, judged from m1: every established session and the new one
   get their disconnect handler exactly once if a cause is aimed at them and are untouched
   otherwise, nothing is left behind, no task raises.  [ac] = always_connect. *)
Theorem C04_connect_in_progress_accept :
  forall ac R m0 env0 causes k,
    quiescent_start m0 -> fresh_sid m0 (k_sid k) -> memb (k_eio k) env0 = true -> k_accept k = true ->
    forall sched,
      let m1 := fst (mgr_connect m0 (k_eio k) (k_ns k) (k_sid k)) in
      let x := xrun ac R (xinit m0 env0 causes [k]) (to_handler ac (List.length causes) ++ sched) in
      x_cfg x = run_sched GAsync R causes sched m1 env0 /\
      outcome R m1 env0 causes (x_cfg x).
Proof. exact connect_in_progress_accept. Qed.
Print Assumptions C04_connect_in_progress_accept.

(* Whatever the handler answers and whatever runs beside it (no hypothesis on the start, any
   schedule, connect not necessarily in progress first): the connect handler of one request
   runs at most once. *)
Theorem C04_connect_handler_at_most_once :
  forall ac R m env causes k sched,
    (chcount (k_sid k) (k_ns k) (x_log (xrun ac R (xinit m env causes [k]) sched)) <= 1)%nat.
Proof. exact connect_handler_at_most_once. Qed.
Print Assumptions C04_connect_handler_at_most_once.

(* The connect handler REFUSES (returns False / raises ConnectionRefusedError), always_connect off
   or on.  Same setting as C04_connect_in_progress_accept: the request is admitted (manager.connect
   answers the fresh id [k_sid k], i.e. it is no duplicate), its handler is suspended, then ANY
   number of terminating tasks - aimed at the established sessions, at the new session, at the
   transport itself - are interleaved in ANY order with the rest of the connect (handler, with
   always_connect pre_disconnect and its KeyError path, the send, finally manager.disconnect).
   The refusal does touch the manager, so the state is NOT that of the run without the connect;
   what is proved, at any moment of any schedule ([c] = manager / environ / terminating tasks
   and their log):
   (b) for every session id OTHER than the refused one (fresh, hence every established id), as in
       C04_once_async judged from m0, the state BEFORE the request: the disconnect handler ran at
       most once and only for a client connected at the start; a client whose handler has not
       run keeps every membership, an id none of whose handlers has run keeps its callbacks; once
       the terminating tasks are done a client whose handler has run is in no room, not
       connected and its callbacks are gone;
   (c) once the connect task is done its handler has run exactly once, and
   (a) the refused session is in no room of any namespace, not connected and has no callbacks,
       whatever the other tasks did to it in between;
   and when everything is done nothing at all is pending.
   PARTIAL - missing relative to [outcome]: (i) o_final's "exactly once for every client some
   cause was aimed at" is only proved as "at most once, and if it ran nothing is left" (the
   progress invariant Ahead of ConcProofs.v has not been redone beside the refusal);
   (ii) o_no_raise for the terminating tasks (invariant Calm; the always_connect refusal itself
   can raise KeyError, see notes/C04.md); (iii) the two environ clauses.  The invariant
   proved (SafeA in Conc/ConnProofs.v) contains what (i) and (ii) need from the manager: an
   open check-then-mark window is about a connected client, and pending_disconnect holds
   exactly the marks of the tasks that own them. *)
Theorem C04_connect_in_progress_refuse_partial :
  forall ac R m0 env0 causes k,
    quiescent_start m0 -> fresh_sid m0 (k_sid k) -> memb (k_eio k) env0 = true -> k_accept k = false ->
    snd (mgr_connect m0 (k_eio k) (k_ns k) (k_sid k)) <> None ->
    forall sched,
      let x := xrun ac R (xinit m0 env0 causes [k]) (to_handler ac (List.length causes) ++ sched) in
      let c := x_cfg x in
      (forall s ns, s <> k_sid k -> (hcount s ns (c_log c) <= 1)%nat) /\
      (forall s ns, s <> k_sid k -> (1 <= hcount s ns (c_log c))%nat -> in_room m0 ns PNone s = true) /\
      (forall s ns r, s <> k_sid k -> hcount s ns (c_log c) = 0%nat -> room_ok r ->
         in_room (c_mgr c) ns r s = in_room m0 ns r s) /\
      (forall s, s <> k_sid k -> (forall ns, hcount s ns (c_log c) = 0%nat) ->
         aget str_eqb (callbacks (c_mgr c)) s = aget str_eqb (callbacks m0) s) /\
      (all_done c = true -> forall s ns, s <> k_sid k -> hcount s ns (c_log c) = 1%nat ->
         (forall r, room_ok r -> in_room (c_mgr c) ns r s = false) /\
         is_connected (c_mgr c) (Some s) ns = false /\
         aget str_eqb (callbacks (c_mgr c)) s = None) /\
      (forallb cdone (x_conns x) = true ->
         chcount (k_sid k) (k_ns k) (x_log x) = 1%nat /\
         (forall ns r, room_ok r -> in_room (c_mgr c) ns r (k_sid k) = false) /\
         (forall ns, is_connected (c_mgr c) (Some (k_sid k)) ns = false) /\
         aget str_eqb (callbacks (c_mgr c)) (k_sid k) = None) /\
      (xall_done x = true -> forall s ns, is_pending (c_mgr c) s ns = false).
Proof. exact connect_in_progress_refuse_partial. Qed.
Print Assumptions C04_connect_in_progress_refuse_partial.

(* Manager level, for ANY well-formed manager (no freshness, no quiescence): manager.disconnect
   of one session id - the finally of the refusal - is invisible to every other id: rooms of
   every namespace, is_connected, pending_disconnect marks and callbacks are unchanged. *)
Theorem C04_refusal_invisible_to_other_sids :
  forall m sid ns, WF m ->
    let m' := mgr_disconnect m sid ns in
    WF m' /\
    forall s', s' <> sid ->
      (forall ns' r, room_ok r -> mem m' ns' r s' = mem m ns' r s') /\
      (forall ns', mb m' ns' s' = mb m ns' s') /\
      (forall ns', MgrFacts.pcount m' ns' s' = MgrFacts.pcount m ns' s') /\
      (forall ns', is_connected m' (Some s') ns' = is_connected m (Some s') ns') /\
      aget str_eqb (callbacks m') s' = aget str_eqb (callbacks m) s'.
Proof. exact refusal_frame_mgr. Qed.
Print Assumptions C04_refusal_invisible_to_other_sids.

(* the hypotheses of the refusing case are satisfiable (always_connect, transport lost while the
   handler is suspended, KeyError path of the refusal) *)
Example C04_refuse_hypotheses_satisfiable := x_refuse_start.
