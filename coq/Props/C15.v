(* C15 - the pub/sub listener survives anything that arrives on the channel.
   Property theorems only; proofs live in Listener/ListenerProofs.v and Check/C15CheckProofs.v *)
From VT Require Import Listener.Listener Listener.RedisRetry Listener.ListenerProofs
  Check.C15Check Check.C15CheckProofs.

(* ---- never stops ---- *)
(* the transcription of _thread (for loop inside while True, two except levels) over ANY channel
   contents and ANY fault scripts that raise Exception subclasses (at any operation, callback, send,
   publish or in the iterator) ends only when the channel is exhausted, lets no exception out,
   and equals the fold of [step] over every item.  (Until the model knew CancelledError this premise was
   implicit: every exception name was an Exception subclass.) *)
Theorem C15_total : forall own async s its,
  forallb ordinary_item its = true ->
  thread own async s its =
  (fst (run own async s its), EListen :: List.concat (snd (run own async s its)) ++ [ELogErr], Exited).
Proof. exact thread_total_ordinary. Qed.
Print Assumptions C15_total.

(* the same under the weakest premise: no item ends in a CancelledError that nothing absorbed
   (CancelledError raised where the code absorbs it - coroutine callbacks, _return_callback, send tasks
   under asyncio - is allowed) *)
Theorem C15_total_except : forall own async s its,
  no_cancel own async s its = true ->
  thread own async s its =
  (fst (run own async s its), EListen :: List.concat (snd (run own async s its)) ++ [ELogErr], Exited).
Proof. exact thread_total. Qed.
Print Assumptions C15_total_except.

(* ... and without it the statement is false: a PLAIN-function callback that raises CancelledError under
   asyncio (or any BaseException under the threaded manager) stops the listener; the next message, which
   has an observable effect when handled, is never handled *)
Theorem C15_total_refuted : 
  exists own s it sent e,
    ordinary_item sent = true /\
    In e (snd (step own true (fst (step own true s it)) sent)) /\ observable e = true /\
    snd (thread own true s [it; sent]) = Stopped /\
    ~ In e (snd (fst (thread own true s [it; sent]))).
Proof. exact total_refuted_by_cancelled_plain_callback. Qed.
Print Assumptions C15_total_refuted.

(* ---- application callbacks run by the listener ---- *)
(* asyncio: a `callback` message for this host that reaches a COROUTINE application callback (registered with
   emit(..., callback=)): whatever the callback does - return, raise any exception, raise CancelledError because
   it awaits a task the application cancelled - the handling of the message ends normally (Ok: the for loop
   takes the next message), the callback entry is consumed, an ordinary exception is logged *)
Theorem C15_coroutine_callback_contained : forall own s m pk js kv sid id args l d n f2 r,
  decode m pk js = PDict kv -> callback_message own kv sid id args ->
  hashable sid = true -> hashable id = true ->
  aget sid (cbs s) = Some d -> aget id d = Some (CbApp n) -> N.odd n = true ->
  py_star args = Ok l ->
  run_item own true s (IMsg m pk js (None :: f2 :: r)) =
  (after_callback s sid id d,
   EOp OTrigger [sid; id; args] :: ECallback n l :: cb_outcome_log f2, Ok tt).
Proof. exact coroutine_callback_contained. Qed.
Print Assumptions C15_coroutine_callback_contained.

(* ... and the loop continues: the whole listener run is that segment followed by the run over the rest of
   the channel from the state the callback left, to the end of the channel *)
Theorem C15_listener_continues_after_coroutine_callback : forall own s m pk js kv sid id args l d n f2 r rest,
  decode m pk js = PDict kv -> callback_message own kv sid id args ->
  hashable sid = true -> hashable id = true ->
  aget sid (cbs s) = Some d -> aget id d = Some (CbApp n) -> N.odd n = true ->
  py_star args = Ok l ->
  let s' := after_callback s sid id d in
  no_cancel own true s' rest = true ->
  thread own true s (IMsg m pk js (None :: f2 :: r) :: rest) =
  (fst (run own true s' rest),
   EListen :: (EOp OTrigger [sid; id; args] :: ECallback n l :: cb_outcome_log f2)
           ++ List.concat (snd (run own true s' rest)) ++ [ELogErr], Exited).
Proof. exact listener_continues_after_coroutine_callback. Qed.
Print Assumptions C15_listener_continues_after_coroutine_callback.

(* the k-th item is handled in the state left by the first k-1, whatever their outcome;
   exactly one segment of effects per item *)
Theorem C15_total_compositional : forall own async s pre post,
  run own async s (pre ++ post) =
  (fst (run own async (fst (run own async s pre)) post),
   snd (run own async s pre) ++ snd (run own async (fst (run own async s pre)) post)) /\
  List.length (snd (run own async s (pre ++ post))) = (List.length pre + List.length post)%nat.
Proof. exact run_compositional. Qed.
Print Assumptions C15_total_compositional.

(* a well-formed emit from another host (no callback, no fault) is delivered in ANY state *)
Theorem C15_sentinel_delivered : forall own async s m pk js kv meth ev da ns room nr parts,
  decode m pk js = PDict kv ->
  aget (PStr k_method) kv = Some meth -> py_eq meth (PStr k_callback) = false ->
  py_eq meth (PStr m_emit) = true ->
  py_eq (dget k_host_id kv) own = false ->
  dget k_callback kv = PNone -> dreq k_event kv = Ok ev -> dreq k_data kv = Ok da ->
  dget k_namespace kv = ns -> dget k_room kv = room ->
  hashable ns = true -> aget ns (rooms s) = Some nr ->
  get_participants s ns room = Ok parts ->
  let datal := match da with PTuple l => l | PNone => [] | d => [d] end in
  let skipl := match dget k_skip_sid kv with PList l => l | _ => [dget k_skip_sid kv] end in
  step own async s (IMsg m pk js []) =
  (s, EOp OEmit [ev; da; ns; room; dget k_skip_sid kv; PNone] ::
      sends_of ns (ev :: datal) (recipients skipl parts)).
Proof. exact sentinel_delivered. Qed.
Print Assumptions C15_sentinel_delivered.

(* ---- ineffective messages ---- *)
(* one message of any of the twelve ineffective classes: state unchanged, nothing observable *)
Theorem C15_inert_step : forall own async s it c,
  classify own s it = Some c ->
  fst (step own async s it) = s /\ filter observable (snd (step own async s it)) = [].
Proof. exact inert_step. Qed.
Print Assumptions C15_inert_step.

(* process (pre ++ bad :: post) = process (pre ++ post) on manager state and observable effects *)
Theorem C15_inert : forall own async s pre bad post c,
  classify own (fst (run own async s pre)) bad = Some c ->
  visible own async s (pre ++ bad :: post) = visible own async s (pre ++ post).
Proof. exact inert_anywhere. Qed.
Print Assumptions C15_inert.

(* ---- a server never re-applies what it published itself ---- *)
(* the five API messages carry host_id = own and are dropped by the echo filter (emit, disconnect and
   close_room were already applied locally by the API method; enter_room / leave_room are only
   published when the client is not local) *)
Theorem C15_no_self_apply : forall o async s m pk js fs msg,
  published_by_api o msg -> decode m pk js = msg ->
  step (PStr o) async s (IMsg m pk js fs) = (s, []).
Proof. exact api_message_not_reapplied. Qed.
Print Assumptions C15_no_self_apply.

(* the only thing the listener itself publishes is a callback message addressed to another host;
   it is ignored if it ever comes back *)
Theorem C15_no_self_apply_published : forall o async s its m,
  In (EPublish m) (List.concat (snd (run (PStr o) async s its))) ->
  forall async' s' raw pk js fs, decode raw pk js = m ->
  step (PStr o) async' s' (IMsg raw pk js fs) = (s', []).
Proof. exact published_not_reapplied. Qed.
Print Assumptions C15_no_self_apply_published.

(* ---- acknowledgements for other hosts ---- *)
Theorem C15_foreign_callback_ignored : forall own async s m pk js fs kv meth,
  decode m pk js = PDict kv -> aget (PStr k_method) kv = Some meth ->
  py_eq meth (PStr k_callback) = true -> py_eq own (dget k_host_id kv) = false ->
  step own async s (IMsg m pk js fs) = (s, []).
Proof. exact foreign_callback_ignored. Qed.
Print Assumptions C15_foreign_callback_ignored.

(* no message other than a callback message addressed to this host invokes an application callback
   or publishes a callback return *)
Theorem C15_only_own_callback_messages_complete_callbacks : forall own async s m pk js fs,
  (forall kv meth, decode m pk js = PDict kv -> aget (PStr k_method) kv = Some meth ->
                   py_eq meth (PStr k_callback) = false \/ py_eq own (dget k_host_id kv) = false) ->
  Forall no_cb_pub (snd (step own async s (IMsg m pk js fs))).
Proof. exact only_callback_messages_complete_callbacks. Qed.
Print Assumptions C15_only_own_callback_messages_complete_callbacks.

(* ---- Redis ---- *)
Theorem C15_redis_backoff : forall ch script,
  redis_only ch script = true ->
  match script with
  | LRedisError :: _ => listen_run ch script = [RRaised OtherError]
  | _ => backoff_ok 1%Z (listen_run ch script) = true /\ ends_with_end (listen_run ch script) = true
  end.
Proof. exact redis_listen_backoff. Qed.
Print Assumptions C15_redis_backoff.

Theorem C15_redis_retry_loop_never_exits : forall script ph r,
  (1 <= r <= 60)%Z -> no_other script = true ->
  ends_with_end (rl_run script ph r) = true /\ backoff_ok r (rl_run script ph r) = true.
Proof. exact redis_retry_loop_never_exits. Qed.
Print Assumptions C15_redis_retry_loop_never_exits.

Theorem C15_redis_publish_retry : forall script,
  no_other script = true ->
  pub_no_raise (pub_run script) = true /\ (count_publish (pub_run script) <= 1)%nat /\
  (List.length (pub_run script) <= 2)%nat.
Proof. exact redis_publish_retry. Qed.
Print Assumptions C15_redis_publish_retry.

(* ---- the checkers applied to the implementation's traces accept every model run ---- *)
Theorem C15_chk_ignored_model : forall own async items s,
  chk_ignored own items (snd (run own async s (map snd items))) = true.
Proof. exact chk_ignored_model. Qed.
Print Assumptions C15_chk_ignored_model.

Theorem C15_chk_inert_model : forall own async s items,
  tags_justified own async s items = true ->
  let A := run own async s (map snd items) in
  let B := run own async s (map snd (filter (fun p => negb (is_bad (fst p))) items)) in
  chk_inert items (snd A) (snd B) (fst A) (fst B) = true.
Proof. exact chk_inert_model. Qed.
Print Assumptions C15_chk_inert_model.

Theorem C15_chk_redis_model : forall ch script,
  redis_only ch script = true ->
  match script with
  | LRedisError :: _ => true
  | _ => backoff_ok 1%Z (listen_run ch script) && ends_with_end (listen_run ch script)
  end = true.
Proof. exact redis_listen_checker_model. Qed.
Print Assumptions C15_chk_redis_model.

(* the Redis listener stays subscribed across restarts of _listen() and reconnections *)
Theorem C15_redis_stays_subscribed : forall own async items,
  deliveries_ok false (rt_model own async items) = true.
Proof. exact redis_stays_subscribed. Qed.
Print Assumptions C15_redis_stays_subscribed.
