(* Small-step interleaving model of src/socketio/simple_client.py (threads) and
   src/socketio/async_simple_client.py (asyncio).  Definitions only; proofs are in
   SimpleProofs.v, the property statements in Props/C19.v.

   Shared state = exactly what the two classes mutate: input_buffer, input_event,
   connected_event, connected; plus `nsup` (the wrapped Client's "namespace in
   self.namespaces", which decides whether Client.emit raises BadNamespaceError) and ghost
   history (events appended, outcomes of the application's calls, "a final disconnect has
   been processed").

   Tasks: ONE consumer (the application thread/task calling receive()/emit()/call()) and any
   number of producers (threads/tasks on which the Client invokes the four handlers that
   SimpleClient.connect() registers).  Every access to the shared state is its own step with
   an explicit program counter (thread granularity); the asyncio granularity merges the
   steps between two real suspension points (`atomic = true`).

   Event objects follow threading.Event / asyncio.Event: wait() tests the flag and otherwise
   registers the caller as a waiter (one atomic step, both implementations hold the lock /
   do not suspend in between); set() marks every registered waiter as notified, and a
   notified waiter returns True even if the flag is cleared again before it runs; a timeout
   is a separate nondeterministic step ("timer"), enabled only while the waiter is
   registered and not notified. *)
From VT Require Import Base.PyVal.
Local Open Scope nat_scope.

Inductive evt := CE | IE.          (* connected_event, input_event *)

(* which source text is modelled.  The source as it stands is `repaired_all`; `pinned` is the
   source before the two fix commits and is kept only to document what they repaired.
   final_wakes_input    : __disconnect_final also does input_event.set()     (commit 748d97f)
   recheck_before_raise : receive() re-tests input_buffer (`if self.input_buffer: break`)
                          before it raises TimeoutError out of the connected wait and before it
                          raises DisconnectedError                            (commit fee3be8) *)
Record variant := mkVariant { final_wakes_input : bool; recheck_before_raise : bool }.
Definition pinned := mkVariant false false.
Definition repaired := mkVariant true false.
Definition repaired_all := mkVariant true true.

(* one invocation made by the wrapped Client on the producer side *)
Inductive hop :=
| HEvent (e : pv) (args : list pv)   (* on_event(event, *args): append [event, *args]; input_event.set() *)
| HConnect                           (* connect(): connected = True; connected_event.set() *)
| HDisconnect                        (* disconnect(): connected_event.clear() *)
| HFinal                             (* __disconnect_final(): connected = False; connected_event.set() *)
| NsSet (b : bool).                  (* Client bookkeeping: namespace enters / leaves client.namespaces *)

(* one call made by the application *)
Inductive cop := Recv (timeout : bool) | Emit.   (* call() has the same loop as emit() *)

Inductive wphase := WEnter | WBlocked | WNotified.
Inductive cpc :=
| RTest                 (* while not self.input_buffer *)
| RCW (ph : wphase)     (* self.connected_event.wait(timeout) *)
| RCRead                (* if not self.connected: raise DisconnectedError *)
| RIW (ph : wphase)     (* self.input_event.wait(timeout) *)
| RClear                (* self.input_event.clear() *)
| RPop                  (* return self.input_buffer.pop(0) *)
| RCkT                  (* (recheck variant) connected wait timed out: if self.input_buffer: break *)
| RCkD                  (* (recheck variant) connected is False:       if self.input_buffer: break *)
| EW (ph : wphase)      (* emit: self.connected_event.wait() *)
| ERead                 (* emit: if not self.connected: raise DisconnectedError *)
| ESend                 (* emit: self.client.emit(...) / except SocketIOError: pass *)
| CDone.

Inductive out := Returned (v : pv) | Raised (e : exn) | Sent.

Inductive lbl :=
| LBufTest (nonempty : bool) | LWaitEnter (e : evt) (passed : bool) | LWake (e : evt)
| LTimeout (e : evt) | LConnRead (b : bool) | LClear (e : evt) | LPop | LAppend (item : pv)
| LSet (e : evt) | LConnWrite (b : bool) | LNs (b : bool) | LSend (ok : bool)
| LRet (v : pv) | LRaise (e : exn) | LSent
| LDone               (* the handler invocation / Client step of a producer has returned *)
| LOther (n : nat).   (* an access the model does not know; never produced by the model *)

Record st := mkSt {
  buf : list pv; iev : bool; cev : bool; conn : bool; nsup : bool;
  arrived : list pv;      (* ghost: items appended, in append order *)
  outs : list out;        (* ghost: outcomes of the application's calls, in order *)
  ended : bool }.         (* ghost: some __disconnect_final has started (connected = False written) *)

Record ptask := mkP { ppc : nat; pscript : list hop }.
Record cfg := mkCfg { sh : st; pc : cpc; cscript : list cop; prods : list ptask }.

Definition start_pc (scr : list cop) : cpc :=
  match scr with [] => CDone | Recv _ :: _ => RTest | Emit :: _ => EW WEnter end.
Definition cur_timeout (c : cfg) : bool :=
  match cscript c with Recv t :: _ => t | _ => false end.

Definition set_buf (s : st) b := mkSt b (iev s) (cev s) (conn s) (nsup s) (arrived s) (outs s) (ended s).
Definition set_iev (s : st) b := mkSt (buf s) b (cev s) (conn s) (nsup s) (arrived s) (outs s) (ended s).
Definition set_cev (s : st) b := mkSt (buf s) (iev s) b (conn s) (nsup s) (arrived s) (outs s) (ended s).
Definition set_conn (s : st) b := mkSt (buf s) (iev s) (cev s) b (nsup s) (arrived s) (outs s) (ended s).
Definition set_nsup (s : st) b := mkSt (buf s) (iev s) (cev s) (conn s) b (arrived s) (outs s) (ended s).
Definition set_ended (s : st) := mkSt (buf s) (iev s) (cev s) (conn s) (nsup s) (arrived s) (outs s) true.
Definition add_out (s : st) o := mkSt (buf s) (iev s) (cev s) (conn s) (nsup s) (arrived s) (outs s ++ [o]) (ended s).
Definition append_item (s : st) it :=
  mkSt (buf s ++ [it]) (iev s) (cev s) (conn s) (nsup s) (arrived s ++ [it]) (outs s) (ended s).

(* Event.set(): flag := True and every registered waiter becomes notified *)
Definition notify (e : evt) (p : cpc) : cpc :=
  match e, p with
  | CE, RCW WBlocked => RCW WNotified
  | CE, EW WBlocked => EW WNotified
  | IE, RIW WBlocked => RIW WNotified
  | _, _ => p
  end.
Definition set_flag (e : evt) (s : st) : st :=
  match e with CE => set_cev s true | IE => set_iev s true end.

Definition goto (c : cfg) (p : cpc) : cfg := mkCfg (sh c) p (cscript c) (prods c).
(* the current call is over with outcome o; the application issues its next call *)
Definition finish (c : cfg) (s : st) (o : out) : cfg :=
  mkCfg (add_out s o) (start_pc (tl (cscript c))) (tl (cscript c)) (prods c).

(* ---- the consumer: one step per access, as in receive() / emit() ---- *)
Definition cstep (v : variant) (c : cfg) : option (cfg * list lbl) :=
  let s := sh c in
  match pc c with
  | RTest => match buf s with
             | [] => Some (goto c (RCW WEnter), [LBufTest false])
             | _ :: _ => Some (goto c RPop, [LBufTest true])
             end
  | RCW WEnter => if cev s then Some (goto c RCRead, [LWaitEnter CE true])
                  else Some (goto c (RCW WBlocked), [LWaitEnter CE false])
  | RCW WBlocked => None
  | RCW WNotified => Some (goto c RCRead, [LWake CE])
  | RCRead => if conn s then Some (goto c (RIW WEnter), [LConnRead true])
              else if recheck_before_raise v then Some (goto c RCkD, [LConnRead false])
              else Some (finish c s (Raised DisconnectedError), [LConnRead false; LRaise DisconnectedError])
  | RCkT => match buf s with
            | [] => Some (finish c s (Raised TimeoutError), [LBufTest false; LRaise TimeoutError])
            | _ :: _ => Some (goto c RPop, [LBufTest true])
            end
  | RCkD => match buf s with
            | [] => Some (finish c s (Raised DisconnectedError), [LBufTest false; LRaise DisconnectedError])
            | _ :: _ => Some (goto c RPop, [LBufTest true])
            end
  | RIW WEnter => if iev s then Some (goto c RClear, [LWaitEnter IE true])
                  else Some (goto c (RIW WBlocked), [LWaitEnter IE false])
  | RIW WBlocked => None
  | RIW WNotified => Some (goto c RClear, [LWake IE])
  | RClear => Some (mkCfg (set_iev s false) RTest (cscript c) (prods c), [LClear IE])
  | RPop => match buf s with
            | x :: r => Some (finish c (set_buf s r) (Returned x), [LPop; LRet x])
            | [] => Some (finish c s (Raised IndexError), [LPop; LRaise IndexError])
            end
  | EW WEnter => if cev s then Some (goto c ERead, [LWaitEnter CE true])
                 else Some (goto c (EW WBlocked), [LWaitEnter CE false])
  | EW WBlocked => None
  | EW WNotified => Some (goto c ERead, [LWake CE])
  | ERead => if conn s then Some (goto c ESend, [LConnRead true])
             else Some (finish c s (Raised DisconnectedError), [LConnRead false; LRaise DisconnectedError])
  | ESend => if nsup s then Some (finish c s Sent, [LSend true; LSent])
             else Some (goto c (EW WEnter), [LSend false])      (* BadNamespaceError swallowed, retry *)
  | CDone => None
  end.

(* ---- the timer: fires the timeout of the wait the consumer is registered in ---- *)
Definition tstep (v : variant) (c : cfg) : option (cfg * list lbl) :=
  if cur_timeout c then
    match pc c with
    | RCW WBlocked => if recheck_before_raise v then Some (goto c RCkT, [LTimeout CE])
                      else Some (finish c (sh c) (Raised TimeoutError), [LTimeout CE; LRaise TimeoutError])
    | RIW WBlocked => Some (finish c (sh c) (Raised TimeoutError), [LTimeout IE; LRaise TimeoutError])
    | _ => None
    end
  else None.

(* ---- a producer: one step per access inside the handler being run ---- *)
Definition phop (v : variant) (s : st) (cp : cpc) (p : ptask) : option (st * cpc * ptask * list lbl) :=
  match pscript p with
  | [] => None
  | h :: rest =>
    let next := mkP (S (ppc p)) (pscript p) in
    let done := mkP 0 rest in
    match h, ppc p with
    | HEvent e args, 0 => let it := PList (e :: args) in Some (append_item s it, cp, next, [LAppend it])
    | HEvent _ _, _ => Some (set_flag IE s, notify IE cp, done, [LSet IE; LDone])
    | HConnect, 0 => Some (set_conn s true, cp, next, [LConnWrite true])
    | HConnect, _ => Some (set_flag CE s, notify CE cp, done, [LSet CE; LDone])
    | HDisconnect, _ => Some (set_cev s false, cp, done, [LClear CE; LDone])
    | HFinal, 0 => Some (set_ended (set_conn s false), cp, next, [LConnWrite false])
    | HFinal, 1 => Some (set_flag CE s, notify CE cp, if final_wakes_input v then next else done,
                         if final_wakes_input v then [LSet CE] else [LSet CE; LDone])
    | HFinal, _ => Some (set_flag IE s, notify IE cp, done, [LSet IE; LDone])
    | NsSet b, _ => Some (set_nsup s b, cp, done, [LNs b; LDone])
    end
  end.

Fixpoint upd (l : list ptask) (i : nat) (p : ptask) : list ptask :=
  match l, i with
  | [], _ => []
  | _ :: r, 0 => p :: r
  | x :: r, S j => x :: upd r j p
  end.

Definition pstep (v : variant) (c : cfg) (i : nat) : option (cfg * list lbl) :=
  match nth_error (prods c) i with
  | None => None
  | Some p => match phop v (sh c) (pc c) p with
              | None => None
              | Some (s', cp', p', l) => Some (mkCfg s' cp' (cscript c) (upd (prods c) i p'), l)
              end
  end.

(* ---- schedules: 0 = consumer, 1 = timer, 2+i = producer i; a disabled choice is a no-op ---- *)
Definition micro (v : variant) (c : cfg) (ch : nat) : option (cfg * list lbl) :=
  match ch with 0 => cstep v c | 1 => tstep v c | S (S i) => pstep v c i end.

(* asyncio granularity: the consumer runs until it suspends (registered in a wait) or its call
   is over; a handler invocation is not interrupted *)
Fixpoint citer (v : variant) (fuel : nat) (c : cfg) (acc : list lbl) : cfg * list lbl :=
  match fuel with
  | 0 => (c, acc)
  | S f => match cstep v c with
           | None => (c, acc)
           | Some (c', l) => if List.length (cscript c') <? List.length (cscript c) then (c', acc ++ l)
                             else citer v f c' (acc ++ l)
           end
  end.
Fixpoint piter (v : variant) (fuel : nat) (c : cfg) (i : nat) (acc : list lbl) : cfg * list lbl :=
  match fuel with
  | 0 => (c, acc)
  | S f => match pstep v c i with
           | None => (c, acc)
           | Some (c', l) => match nth_error (prods c') i with
                             | Some p => if ppc p =? 0 then (c', acc ++ l) else piter v f c' i (acc ++ l)
                             | None => (c', acc ++ l)
                             end
           end
  end.
Definition cfuel := 24.

Definition step (v : variant) (atomic : bool) (c : cfg) (ch : nat) : cfg * list lbl :=
  if atomic then
    match ch with
    | 0 => citer v cfuel c []
    | 1 => match tstep v c with      (* the woken task runs on until it suspends or its call is over *)
           | Some (c', l) => if List.length (cscript c') <? List.length (cscript c) then (c', l)
                             else citer v cfuel c' l
           | None => (c, [])
           end
    | S (S i) => piter v 4 c i []
    end
  else match micro v c ch with Some r => r | None => (c, []) end.

Fixpoint run (v : variant) (atomic : bool) (c : cfg) (sched : list nat) : cfg :=
  match sched with [] => c | ch :: r => run v atomic (fst (step v atomic c ch)) r end.
Fixpoint trace (v : variant) (atomic : bool) (c : cfg) (sched : list nat) : list (list lbl) :=
  match sched with
  | [] => []
  | ch :: r => let '(c', l) := step v atomic c ch in l :: trace v atomic c' r
  end.

(* state after SimpleClient.connect() has returned: the connect handler has run *)
Definition st0 := mkSt [] false true true true [] [] false.
Definition init (P : list (list hop)) (C : list cop) : cfg :=
  mkCfg st0 (start_pc C) C (map (mkP 0) P).

(* ---- observers used by the theorems and by the checker ---- *)
Fixpoint returned (o : list out) : list pv :=
  match o with [] => [] | Returned v :: r => v :: returned r | _ :: r => returned r end.
Definition prod_done (p : ptask) : bool := match pscript p with [] => true | _ => false end.
Definition prods_done (c : cfg) : bool := forallb prod_done (prods c).
(* a producer that has appended but not yet signalled *)
Definition mid_handoff (p : ptask) : bool :=
  match pscript p with HEvent _ _ :: _ => negb (ppc p =? 0) | _ => false end.
(* a producer inside __disconnect_final, after `connected = False` *)
Definition mid_final (p : ptask) : bool :=
  match pscript p with HFinal :: _ => negb (ppc p =? 0) | _ => false end.
Definition enabled (v : variant) (c : cfg) (ch : nat) : bool :=
  match micro v c ch with Some _ => true | None => false end.
(* nothing can move any more: neither the consumer, nor the timer, nor any producer *)
Definition quiescent (v : variant) (c : cfg) : bool :=
  negb (enabled v c 0) && negb (enabled v c 1) && forallb prod_done (prods c).

(* the Client's own discipline on one namespace (client.py: _handle_connect, _handle_event,
   _handle_disconnect, _handle_eio_disconnect, _handle_reconnect): events only while up,
   loss = disconnect handler then namespaces cleared, reconnection = namespace added then
   connect handler, a final end = [disconnect;] __disconnect_final *)
Inductive phase := Up | Down | Over.
Fixpoint lifecycle_from (ph : phase) (fuel : nat) (scr : list hop) : bool :=
  match fuel with
  | 0 => false
  | S f =>
    match ph, scr with
    | _, [] => true
    | Up, HEvent _ _ :: r => lifecycle_from Up f r
    | Up, HDisconnect :: NsSet false :: r => lifecycle_from Down f r
    | Up, HDisconnect :: HFinal :: NsSet false :: r => lifecycle_from Over f r
    | Down, NsSet true :: HConnect :: r => lifecycle_from Up f r
    | Down, HFinal :: r => lifecycle_from Over f r
    | _, _ => false
    end
  end.
Definition lifecycle (scr : list hop) : bool := lifecycle_from Up (S (List.length scr)) scr.
