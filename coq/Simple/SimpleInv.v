(* Invariants of the SimpleClient model (property C19); the theorems are in SimpleProofs.v.  Every theorem quantifies over ALL
   schedules (lists of choices of any length), any number of producers with arbitrary
   scripts, any consumer script, both granularities, unless it says otherwise. *)
From Coq Require Import Lia ZifyBool.
From VT Require Import Base.PyVal Simple.SimpleClient.
Local Open Scope nat_scope.

(* ------------------------------------------------------------------------------------ *)
(* reachability at the granularity of single accesses; the asyncio runs are a subset     *)
(* ------------------------------------------------------------------------------------ *)
Inductive mreach (v : variant) (c0 : cfg) : cfg -> Prop :=
| mr_init : mreach v c0 c0
| mr_step c ch c' l : mreach v c0 c -> micro v c ch = Some (c', l) -> mreach v c0 c'.

Lemma citer_reach v c0 fuel : forall c acc, mreach v c0 c -> mreach v c0 (fst (citer v fuel c acc)).
Proof.
  induction fuel as [|f IH]; intros c acc Hr; simpl; [exact Hr|].
  destruct (cstep v c) as [[c' l]|] eqn:E; [|exact Hr].
  assert (Hr' : mreach v c0 c') by (apply (mr_step v c0 c 0 c' l); assumption).
  destruct (List.length (cscript c') <? List.length (cscript c)); [exact Hr'|apply IH; exact Hr'].
Qed.

Lemma piter_reach v c0 fuel i : forall c acc, mreach v c0 c -> mreach v c0 (fst (piter v fuel c i acc)).
Proof.
  induction fuel as [|f IH]; intros c acc Hr; simpl; [exact Hr|].
  destruct (pstep v c i) as [[c' l]|] eqn:E; [|exact Hr].
  assert (Hr' : mreach v c0 c') by (apply (mr_step v c0 c (S (S i)) c' l); assumption).
  destruct (nth_error (prods c') i) as [p|]; [|exact Hr'].
  destruct (ppc p =? 0); [exact Hr'|apply IH; exact Hr'].
Qed.

Lemma step_reach v atomic c0 c ch : mreach v c0 c -> mreach v c0 (fst (step v atomic c ch)).
Proof.
  intro Hr. unfold step. destruct atomic.
  - destruct ch as [|[|i]].
    + apply citer_reach; exact Hr.
    + destruct (tstep v c) as [[c' l]|] eqn:E; [|exact Hr].
      assert (Hr' : mreach v c0 c') by (apply (mr_step v c0 c 1 c' l); assumption).
      destruct (List.length (cscript c') <? List.length (cscript c)); [exact Hr'|].
      apply citer_reach; exact Hr'.
    + apply piter_reach; exact Hr.
  - destruct (micro v c ch) as [[c' l]|] eqn:E; [|exact Hr].
    apply (mr_step v c0 c ch c' l); assumption.
Qed.

Lemma run_reach v atomic c0 sched : forall c, mreach v c0 c -> mreach v c0 (run v atomic c sched).
Proof.
  induction sched as [|ch r IH]; intros c Hr; simpl; [exact Hr|].
  apply IH. apply step_reach. exact Hr.
Qed.

Lemma reach_run v atomic c0 sched : mreach v c0 (run v atomic c0 sched).
Proof. apply run_reach. constructor. Qed.

(* an invariant of the single-access system holds after every run of either granularity *)
Lemma invariant_run (I : cfg -> Prop) v c0 :
  I c0 -> (forall c ch c' l, I c -> micro v c ch = Some (c', l) -> I c') ->
  forall c, mreach v c0 c -> I c.
Proof. intros H0 Hs c Hr. induction Hr as [|c ch c' l Hr IH E]; [exact H0|eapply Hs; eauto]. Qed.

(* ------------------------------------------------------------------------------------ *)
(* list helpers                                                                          *)
(* ------------------------------------------------------------------------------------ *)
Lemma returned_app a b : returned (a ++ b) = returned a ++ returned b.
Proof. induction a as [|[x|e|] a IH]; simpl; rewrite ?IH; reflexivity. Qed.

Fixpoint count (f : ptask -> bool) (l : list ptask) : nat :=
  match l with [] => 0 | x :: r => (if f x then 1 else 0) + count f r end.

Lemma count_upd f : forall l i p p', nth_error l i = Some p ->
  count f (upd l i p') + (if f p then 1 else 0) = count f l + (if f p' then 1 else 0).
Proof.
  induction l as [|x l IH]; intros [|i] p p' H; simpl in *; try discriminate.
  - inversion H; subst. lia.
  - specialize (IH i p p' H). lia.
Qed.

Lemma existsb_count f l : existsb f l = true <-> count f l > 0.
Proof.
  induction l as [|x l IH]; simpl; [split; [discriminate|lia]|].
  destruct (f x); simpl; [split; [lia|reflexivity]|]. rewrite IH. lia.
Qed.

Lemma forallb_nth f (l : list ptask) i p : forallb f l = true -> nth_error l i = Some p -> f p = true.
Proof. intros H E. rewrite forallb_forall in H. apply H. eapply nth_error_In; eauto. Qed.

Lemma forallb_count f l : forallb f l = true -> count (fun p => negb (f p)) l = 0.
Proof.
  induction l as [|x l IH]; simpl; [reflexivity|]. intro H. apply andb_true_iff in H as [H1 H2].
  rewrite H1. simpl. auto.
Qed.

(* the shape of one step *)
Ltac inv_some := match goal with H : Some _ = Some _ |- _ => inversion H; subst; clear H end.

Lemma pstep_inv v c i c' l : pstep v c i = Some (c', l) ->
  exists p s' cp' p', nth_error (prods c) i = Some p /\ phop v (sh c) (pc c) p = Some (s', cp', p', l) /\
                      c' = mkCfg s' cp' (cscript c) (upd (prods c) i p').
Proof.
  unfold pstep. destruct (nth_error (prods c) i) as [p|] eqn:E; [|discriminate].
  destruct (phop v (sh c) (pc c) p) as [[[[s' cp'] p'] l']|] eqn:E2; [|discriminate].
  intro H; inversion H; subst. exists p, s', cp', p'. auto.
Qed.

(* ------------------------------------------------------------------------------------ *)
(* I1: no loss, no duplication, no reordering                                            *)
(* ------------------------------------------------------------------------------------ *)
Definition fifo (c : cfg) : Prop := returned (outs (sh c)) ++ buf (sh c) = arrived (sh c).

Lemma fifo_step v c ch c' l : fifo c -> micro v c ch = Some (c', l) -> fifo c'.
Proof.
  unfold fifo. intros H E. destruct ch as [|[|i]]; simpl in E.
  - destruct c as [s p scr pr]. destruct s as [b ie ce cn ns ar ou en]. unfold cstep in E. simpl in *.
    destruct p as [|[]| |[]| | | | |[]| | |]; simpl in E;
      repeat match type of E with
             | context [match ?x with _ => _ end] => destruct x eqn:?; simpl in E
             end; try discriminate; inv_some; simpl in *; rewrite ?returned_app; simpl;
      rewrite ?app_nil_r; try reflexivity; try assumption;
      try (subst; rewrite <- app_assoc; simpl; try reflexivity; assumption).
  - destruct c as [s p scr pr]. destruct s as [b ie ce cn ns ar ou en]. unfold tstep in E. simpl in *.
    destruct (cur_timeout _); [|discriminate].
    destruct p as [|[]| |[]| | | | |[]| | |]; try discriminate; try (destruct (recheck_before_raise v)); inv_some; simpl;
      rewrite ?returned_app; simpl; rewrite ?app_nil_r; first [reflexivity|assumption].
  - apply pstep_inv in E as (p & s' & cp' & p' & En & Eh & ->). simpl.
    destruct c as [s cp scr pr]. destruct s as [b ie ce cn ns ar ou en]. simpl in *.
    unfold phop in Eh. destruct (pscript p) as [|h rest]; [discriminate|].
    destruct h; destruct (ppc p) as [|[|n]]; simpl in Eh; inv_some; simpl; try reflexivity; try assumption;
      try (rewrite app_assoc; try rewrite H; reflexivity).
Qed.

Theorem fifo_all_schedules v atomic P C sched :
  let c := run v atomic (init P C) sched in
  returned (outs (sh c)) ++ buf (sh c) = arrived (sh c).
Proof.
  apply (invariant_run fifo v (init P C)); [reflexivity| |apply reach_run].
  intros; eapply fifo_step; eauto.
Qed.

(* ------------------------------------------------------------------------------------ *)
(* I2: control invariant - a registered waiter sees a clear flag, a notified input waiter *)
(*     a set flag, pop(0) never meets an empty buffer, no IndexError is ever raised       *)
(* ------------------------------------------------------------------------------------ *)
Definition pc_ok (p : cpc) (scr : list cop) : Prop :=
  match p, scr with
  | CDone, [] => True
  | (RTest | RCW _ | RCRead | RIW _ | RClear | RPop | RCkT | RCkD), Recv _ :: _ => True
  | (EW _ | ERead | ESend), Emit :: _ => True
  | _, _ => False
  end.
Definition blk_ok (c : cfg) : Prop :=
  match pc c with
  | RCW WBlocked | EW WBlocked => cev (sh c) = false
  | RIW WBlocked => iev (sh c) = false
  | RIW WNotified => iev (sh c) = true
  | RPop => buf (sh c) <> []
  | _ => True
  end.
Definition outs_ok (c : cfg) : Prop := ~ In (Raised IndexError) (outs (sh c)).
Definition ctl_inv (c : cfg) : Prop := pc_ok (pc c) (cscript c) /\ blk_ok c /\ outs_ok c.

Lemma not_in_snoc (x y : out) l : ~ In x l -> x <> y -> ~ In x (l ++ [y]).
Proof. intros H1 H2 H. apply in_app_or in H as [H|[H|[]]]; [auto|congruence]. Qed.

Lemma snoc_not_nil {A} (l : list A) x : l ++ [x] <> [].
Proof. destruct l; discriminate. Qed.

Lemma ctl_init P C : ctl_inv (init P C).
Proof.
  unfold ctl_inv, blk_ok, outs_ok, init; simpl. destruct C as [|[t|] r]; simpl; auto.
Qed.

Lemma ctl_step v c ch c' l : ctl_inv c -> micro v c ch = Some (c', l) -> ctl_inv c'.
Proof.
  unfold ctl_inv, blk_ok, outs_ok. intros (Hp & Hb & Ho) E. destruct ch as [|[|i]]; simpl in E.
  - destruct c as [s p scr pr]. destruct s as [b ie ce cn ns ar ou en]. unfold cstep in E. simpl in *.
    destruct p as [|[]| |[]| | | | |[]| | |]; simpl in E;
      destruct scr as [|[t|] [|[t'|] scr']]; simpl in Hp; try contradiction;
      repeat match type of E with
             | context [match ?x with _ => _ end] => destruct x eqn:?; simpl in E
             end; try discriminate; inv_some; simpl in *;
      repeat split; auto; try discriminate; try congruence;
      try (apply not_in_snoc; [assumption|discriminate]).
  - destruct c as [s p scr pr]. destruct s as [b ie ce cn ns ar ou en]. unfold tstep, cur_timeout in E. simpl in *.
    destruct scr as [|[[|]|] [|[t'|] scr']]; try discriminate;
      destruct p as [|[]| |[]| | | | |[]| | |]; try discriminate; try (destruct (recheck_before_raise v)); inv_some; simpl in *;
      repeat split; auto; try (apply not_in_snoc; [assumption|discriminate]).
  - apply pstep_inv in E as (p & s' & cp' & p' & En & Eh & ->).
    destruct c as [s cp scr pr]. destruct s as [b ie ce cn ns ar ou en]. simpl in *.
    unfold phop in Eh. destruct (pscript p) as [|h rest]; [discriminate|].
    destruct cp as [|[]| |[]| | | | |[]| | |];
      destruct h; destruct (ppc p) as [|[|n]]; simpl in Eh; inv_some; simpl in *; repeat split; auto;
      try apply snoc_not_nil; try congruence.
Qed.

Lemma ctl_reach v P C c : mreach v (init P C) c -> ctl_inv c.
Proof.
  apply (invariant_run ctl_inv v (init P C)); [apply ctl_init|].
  intros; eapply ctl_step; eauto.
Qed.

(* ------------------------------------------------------------------------------------ *)
(* I3: the hand-off window.  Between receive()'s emptiness test and its clear(), either   *)
(*     the input flag is set or every buffered item belongs to a producer that has        *)
(*     appended and not yet signalled.                                                    *)
(* ------------------------------------------------------------------------------------ *)
Definition in_window (p : cpc) : bool :=
  match p with RCW _ | RCRead | RIW _ | RCkT | RCkD => true | _ => false end.
Definition win_inv (c : cfg) : Prop :=
  in_window (pc c) = true ->
  iev (sh c) = true \/ List.length (buf (sh c)) <= count mid_handoff (prods c).

Lemma mid_handoff_eq p :
  mid_handoff p = match pscript p with HEvent _ _ :: _ => negb (ppc p =? 0) | _ => false end.
Proof. reflexivity. Qed.
Lemma mid_final_eq p :
  mid_final p = match pscript p with HFinal :: _ => negb (ppc p =? 0) | _ => false end.
Proof. reflexivity. Qed.

Lemma notify_window e p : in_window (notify e p) = in_window p.
Proof. destruct e, p as [|[]| |[]| | | | |[]| | |]; reflexivity. Qed.

Arguments notify : simpl never.

Lemma win_step v c ch c' l : win_inv c -> micro v c ch = Some (c', l) -> win_inv c'.
Proof.
  unfold win_inv. intros H E. destruct ch as [|[|i]]; simpl in E.
  - destruct c as [s p scr pr]. destruct s as [b ie ce cn ns ar ou en]. unfold cstep in E. simpl in *.
    destruct p as [|[]| |[]| | | | |[]| | |]; simpl in E;
      repeat match type of E with
             | context [match ?x with _ => _ end] => destruct x eqn:?; simpl in E
             end; try discriminate; inv_some; simpl in *; auto; try (right; lia);
      try (destruct scr as [|[t|] [|[t'|] scr']]; simpl; intros; discriminate).
  - destruct c as [s p scr pr]. destruct s as [b ie ce cn ns ar ou en]. unfold tstep in E. simpl in *.
    destruct (cur_timeout _); [|discriminate].
    destruct p as [|[]| |[]| | | | |[]| | |]; try discriminate; try (destruct (recheck_before_raise v)); inv_some; simpl in *;
      auto; destruct scr as [|[t|] [|[t'|] scr']]; simpl; intros; discriminate.
  - apply pstep_inv in E as (p & s' & cp' & p' & En & Eh & ->).
    destruct c as [s cp scr pr]. destruct s as [b ie ce cn ns ar ou en]. simpl in *.
    unfold phop in Eh. destruct (pscript p) as [|h rest] eqn:Ep; [discriminate|].
    destruct h; destruct (ppc p) as [|[|n]] eqn:Epc; simpl in Eh; inv_some; simpl;
      rewrite ?notify_window; intro Hw; auto;
      match goal with |- context [upd pr i ?q] => pose proof (count_upd mid_handoff pr i p q En) as Hc end;
      rewrite !mid_handoff_eq in Hc; simpl in Hc; rewrite ?Ep, ?Epc in Hc; simpl in Hc;
      try (destruct rest as [|[] rest']; simpl in Hc);
      destruct (H Hw) as [Hi|Hl]; auto; right; rewrite ?app_length; simpl; lia.
Qed.

Lemma win_reach v P C c : mreach v (init P C) c -> win_inv c.
Proof.
  apply (invariant_run win_inv v (init P C)).
  - unfold win_inv, init; simpl. destruct C as [|[t|] r]; simpl; intros; discriminate.
  - intros; eapply win_step; eauto.
Qed.

(* ------------------------------------------------------------------------------------ *)
(* I4: `connected` is False only after a __disconnect_final has started                  *)
(* ------------------------------------------------------------------------------------ *)
Definition end_inv (c : cfg) : Prop :=
  (conn (sh c) = false -> ended (sh c) = true) /\ (pc c = RCkD -> ended (sh c) = true).

Lemma end_step v c ch c' l : end_inv c -> micro v c ch = Some (c', l) -> end_inv c'.
Proof.
  unfold end_inv. intros [H H'] E. destruct ch as [|[|i]]; simpl in E.
  - destruct c as [s p scr pr]. destruct s as [b ie ce cn ns ar ou en]. unfold cstep in E. simpl in *.
    destruct p as [|[]| |[]| | | | |[]| | |]; simpl in E;
      repeat match type of E with
             | context [match ?x with _ => _ end] => destruct x eqn:?; simpl in E
             end; try discriminate; inv_some; simpl in *; split; auto; try discriminate;
      try (destruct scr as [|[t|] [|[t'|] scr']]; simpl; intros; discriminate).
  - destruct c as [s p scr pr]. destruct s as [b ie ce cn ns ar ou en]. unfold tstep in E. simpl in *.
    destruct (cur_timeout _); [|discriminate].
    destruct p as [|[]| |[]| | | | |[]| | |]; try discriminate; try (destruct (recheck_before_raise v));
      inv_some; simpl in *; split; auto; try discriminate;
      try (destruct scr as [|[t|] [|[t'|] scr']]; simpl; intros; discriminate).
  - apply pstep_inv in E as (p & s' & cp' & p' & En & Eh & ->).
    destruct c as [s cp scr pr]. destruct s as [b ie ce cn ns ar ou en]. simpl in *.
    unfold phop in Eh. destruct (pscript p) as [|h rest]; [discriminate|].
    destruct cp as [|[]| |[]| | | | |[]| | |];
      destruct h; destruct (ppc p) as [|[|n]]; simpl in Eh; inv_some; simpl in *; split; auto; discriminate.
Qed.

Lemma end_reach v P C c : mreach v (init P C) c -> end_inv c.
Proof.
  apply (invariant_run end_inv v (init P C)).
  - unfold end_inv, init; simpl. split; [discriminate|]. destruct C as [|[t|] r]; simpl; discriminate.
  - intros; eapply end_step; eauto.
Qed.

(* the re-test program counters are only entered by a source that has the re-test *)
Definition rck_inv (v : variant) (c : cfg) : Prop :=
  match pc c with RCkT | RCkD => recheck_before_raise v = true | _ => True end.

Lemma rck_step v c ch c' l : rck_inv v c -> micro v c ch = Some (c', l) -> rck_inv v c'.
Proof.
  unfold rck_inv. intros H E. destruct ch as [|[|i]]; simpl in E.
  - destruct c as [s p scr pr]. destruct s as [b ie ce cn ns ar ou en]. unfold cstep in E. simpl in *.
    destruct p as [|[]| |[]| | | | |[]| | |]; simpl in E;
      repeat match type of E with
             | context [match ?x with _ => _ end] => destruct x eqn:?; simpl in E
             end; try discriminate; inv_some; simpl in *; auto;
      try (destruct scr as [|[t|] [|[t'|] scr']]; simpl; exact I).
  - destruct c as [s p scr pr]. destruct s as [b ie ce cn ns ar ou en]. unfold tstep in E. simpl in *.
    destruct (cur_timeout _); [|discriminate].
    destruct p as [|[]| |[]| | | | |[]| | |]; try discriminate;
      try (destruct (recheck_before_raise v) eqn:?); inv_some; simpl in *; auto;
      try (destruct scr as [|[t|] [|[t'|] scr']]; simpl; exact I).
  - apply pstep_inv in E as (p & s' & cp' & p' & En & Eh & ->).
    destruct c as [s cp scr pr]. destruct s as [b ie ce cn ns ar ou en]. simpl in *.
    unfold phop in Eh. destruct (pscript p) as [|h rest]; [discriminate|].
    destruct cp as [|[]| |[]| | | | |[]| | |];
      destruct h; destruct (ppc p) as [|[|n]]; simpl in Eh; inv_some; simpl in *; auto.
Qed.

Lemma rck_reach v P C c : mreach v (init P C) c -> rck_inv v c.
Proof.
  apply (invariant_run (rck_inv v) v (init P C)).
  - unfold rck_inv, init; simpl. destruct C as [|[t|] r]; simpl; exact I.
  - intros; eapply rck_step; eauto.
Qed.

(* ------------------------------------------------------------------------------------ *)
(* I5 (repaired variant only): a consumer entering or registered in the input wait while  *)
(*     `connected` is False sees the input flag set, or some __disconnect_final is still  *)
(*     on its way to set it                                                               *)
(* ------------------------------------------------------------------------------------ *)
Definition fin_inv (c : cfg) : Prop :=
  match pc c with
  | RIW WEnter | RIW WBlocked =>
      conn (sh c) = false -> iev (sh c) = true \/ count mid_final (prods c) > 0
  | _ => True
  end.

Lemma fin_step v c ch c' l : final_wakes_input v = true -> fin_inv c -> micro v c ch = Some (c', l) -> fin_inv c'.
Proof.
  unfold fin_inv. intros Hv H E. destruct ch as [|[|i]]; simpl in E.
  - destruct c as [s p scr pr]. destruct s as [b ie ce cn ns ar ou en]. unfold cstep in E. simpl in *.
    destruct p as [|[]| |[]| | | | |[]| | |]; simpl in E;
      repeat match type of E with
             | context [match ?x with _ => _ end] => destruct x eqn:?; simpl in E
             end; try discriminate; inv_some; simpl in *; auto; try discriminate;
      try (destruct scr as [|[t|] [|[t'|] scr']]; simpl; exact I).
  - destruct c as [s p scr pr]. destruct s as [b ie ce cn ns ar ou en]. unfold tstep in E. simpl in *.
    destruct (cur_timeout _); [|discriminate].
    destruct p as [|[]| |[]| | | | |[]| | |]; try discriminate; try (destruct (recheck_before_raise v)); inv_some; simpl in *;
      try exact I; destruct scr as [|[t|] [|[t'|] scr']]; simpl; exact I.
  - apply pstep_inv in E as (p & s' & cp' & p' & En & Eh & ->).
    destruct c as [s cp scr pr]. destruct s as [b ie ce cn ns ar ou en]. simpl in *.
    unfold phop in Eh. destruct (pscript p) as [|h rest] eqn:Ep; [discriminate|].
    destruct cp as [|[]| |[]| | | | |[]| | |];
      destruct h; destruct (ppc p) as [|[|n]] eqn:Epc; simpl in Eh; rewrite ?Hv in Eh; inv_some; simpl in *; auto;
      try discriminate;
      match goal with |- context [upd pr i ?q] => pose proof (count_upd mid_final pr i p q En) as Hc end;
      rewrite !mid_final_eq in Hc; simpl in Hc; rewrite ?Ep, ?Epc in Hc; simpl in Hc;
      try (destruct rest as [|[] rest']; simpl in Hc);
      intro Hcn; try discriminate; try (right; lia);
      destruct (H Hcn) as [Hi|Hl]; auto; right; lia.
Qed.

Lemma fin_reach v P C c : final_wakes_input v = true -> mreach v (init P C) c -> fin_inv c.
Proof.
  intro Hv. apply (invariant_run fin_inv v (init P C)).
  - unfold fin_inv, init; simpl. destruct C as [|[t|] r]; simpl; exact I.
  - intros; eapply fin_step; eauto.
Qed.

