(* SimpleClient over the REAL Client: transport-level histories (property C19).

   The model of SimpleClient.v takes, on the producer side, the handler invocations the wrapped
   Client makes (`hop`).  Here the producer side is what the SERVER / TRANSPORT does (`top`), and
   `dispatch` is the Client's own translation of it into handler invocations on the namespace the
   simple client uses (client.py / async_client.py: _handle_eio_message -> _handle_event /
   _handle_connect / _handle_disconnect / _handle_error, _handle_eio_disconnect,
   _handle_reconnect -> connect, _trigger_event -> base_client.py _get_event_handler):

   * an event of the server goes to the catch-all handler (HEvent) - only while the transport is up;
   * a transport failure with reconnection enabled: `disconnect` handler, namespaces cleared, the
     reconnect task starts; without reconnection (and for a CLOSE / a DISCONNECT packet of the
     server): `disconnect`, `__disconnect_final`, namespace removed;
   * a FAILED reconnection attempt (engine.io cannot connect, or the server refuses the namespace)
     triggers `connect_error`.  `connect_error` is one of `BaseClient.reserved_events`, the simple
     client registers no handler for it, and reserved events are never routed to a catch-all
     handler: NO handler invocation ([]).  When the attempt reaches `reconnection_attempts` the
     Client gives up: `__disconnect_final`;
   * a successful attempt: namespace added, `connect` handler.

   The harness (drivers/sched_simple_eio.py) runs the real SimpleClient / AsyncSimpleClient over the
   real Client / AsyncClient over a fake engine.io transport on the same history; the label trace
   must be the one of the model run on `dispatch history` (correspondence), and what receive()
   returned must be what the server sent (`server_sent`), see Check/C19Check.v.

   Theorems (all histories, all schedules, both granularities):
   dispatch_lifecycle   every dispatched script satisfies `lifecycle` (so the theorems stated for
                        `lifecycle` scripts apply to every transport history);
   dispatch_items       the items appended by the dispatched script are exactly the events the
                        server sent while the transport was up, in order;
   transport_fifo       returned events ++ buffer ++ (events not yet handed over) = server_sent:
                        receive() returns exactly the events the server sent, each once, in order,
                        and nothing else - no lifecycle notification is ever received. *)
From Coq Require Import Lia ZifyBool.
From VT Require Import Base.PyVal Simple.SimpleClient Simple.SimpleInv Simple.SimpleProofs.
Local Open Scope nat_scope.

Inductive outcome := AFail | ARefused | AOk.

Inductive top :=
| TEvent (e : pv) (args : list pv)   (* the server emits an event on the namespace (one text frame) *)
| TBinHead (e : pv) (args : list pv) (* header frame of an event with `bytes` arguments: one attachment frame
                                        per top-level bytes argument has to follow (none: a plain event) *)
| TBinAtt                            (* the next attachment frame of the event whose header has arrived *)
| TLose                              (* the transport fails (read loop error) *)
| TAttempt (o : outcome)             (* the back-off wait elapses: one reconnection attempt *)
| TClose                             (* the server closes the engine.io connection *)
| TDisc.                             (* the server disconnects the namespace (DISCONNECT packet) *)

(* Client(reconnection=..., reconnection_attempts=...); 0 attempts = no limit *)
Record tparams := mkTP { reconnection : bool; attempts : nat }.

(* transport up / down with the number of failed attempts of the running reconnect task / over *)
Inductive tphase := TUp | TDown (failed : nat) | TOver.

Definition tnext (tp : tparams) (ph : tphase) (o : top) : tphase * list hop :=
  match ph, o with
  | TUp, TEvent e a => (TUp, [HEvent e a])
  | TUp, TLose => if reconnection tp then (TDown 0, [HDisconnect; NsSet false])
                  else (TOver, [HDisconnect; HFinal; NsSet false])
  | TUp, TClose | TUp, TDisc => (TOver, [HDisconnect; HFinal; NsSet false])
  | TDown _, TAttempt AOk => (TUp, [NsSet true; HConnect])
  | TDown k, TAttempt _ =>
      if (negb (attempts tp =? 0)) && (attempts tp <=? S k) then (TOver, [HFinal]) else (TDown (S k), [])
  | _, _ => (ph, [])
  end.

(* Binary events (packet.py: BINARY_EVENT header + attachments; client.py `_binary_packet`): the header
   frame only parks the packet, the handler runs when the LAST attachment has arrived.  `pending` =
   the event whose header has arrived on the current connection: name, arguments, attachments still
   missing minus one.  The half-received packet belongs to the connection: a loss / CLOSE discards it
   (`_handle_eio_disconnect`: `self._binary_packet = None`), so an incomplete binary event produces NO
   handler invocation and leaves NO state across a reconnection.  The server sends the frames of one
   event back to back: another packet of the server cannot come between them (no-op here and in the
   driver); the transport, however, can fail between any two frames. *)
Definition pending := option (pv * list pv * nat).
Definition tstate := (tphase * pending)%type.
Definition tstart : tstate := (TUp, None).
Definition is_bytes (v : pv) : bool := match v with PBytes _ => true | _ => false end.
Definition natt (a : list pv) : nat := List.length (filter is_bytes a).

Definition tnextb (tp : tparams) (s : tstate) (o : top) : tstate * list hop :=
  match s, o with
  | (TUp, None), TBinHead e a =>
      match natt a with 0 => (s, [HEvent e a]) | S k => ((TUp, Some (e, a, k)), []) end
  | (TUp, Some (e, a, k)), TBinAtt =>
      match k with 0 => ((TUp, None), [HEvent e a]) | S k' => ((TUp, Some (e, a, k')), []) end
  | (TUp, Some _), TEvent _ _ | (TUp, Some _), TBinHead _ _ | (TUp, Some _), TDisc
  | (TUp, Some _), TAttempt _ => (s, [])
  | (_, _), TBinHead _ _ | (_, _), TBinAtt => (s, [])
  | (ph, _), _ => let '(ph', hs) := tnext tp ph o in ((ph', None), hs)
  end.

(* the handler invocations of every transport event, one list per event *)
Fixpoint dispatch_from (tp : tparams) (s : tstate) (l : list top) : list (list hop) :=
  match l with
  | [] => []
  | o :: r => let '(s', hs) := tnextb tp s o in hs :: dispatch_from tp s' r
  end.
Definition dispatch (tp : tparams) (l : list top) : list hop := List.concat (dispatch_from tp tstart l).

(* specification side: the events the server sent, as receive() has to return them.  The server can
   only send while the transport is up, and an event counts as sent when ALL its frames were
   delivered on one connection (a binary event whose connection is lost between its frames was not
   sent). *)
Definition tstate_next (tp : tparams) (s : tstate) (o : top) : tstate := fst (tnextb tp s o).
Definition completes (s : tstate) (o : top) : option pv :=
  match s, o with
  | (TUp, None), TEvent e a => Some (PList (e :: a))
  | (TUp, None), TBinHead e a => if natt a =? 0 then Some (PList (e :: a)) else None
  | (TUp, Some (e, a, 0)), TBinAtt => Some (PList (e :: a))
  | _, _ => None
  end.
Fixpoint sent_from (tp : tparams) (s : tstate) (l : list top) : list pv :=
  match l with
  | [] => []
  | o :: r =>
      match completes s o with
      | Some x => x :: sent_from tp (tstate_next tp s o) r
      | None => sent_from tp (tstate_next tp s o) r
      end
  end.
Definition server_sent (tp : tparams) (l : list top) : list pv := sent_from tp tstart l.

(* the items a handler script appends *)
Fixpoint items (scr : list hop) : list pv :=
  match scr with
  | [] => []
  | HEvent e a :: r => PList (e :: a) :: items r
  | _ :: r => items r
  end.

Lemma items_app a b : items (a ++ b) = items a ++ items b.
Proof. induction a as [|[] a IH]; simpl; rewrite ?IH; reflexivity. Qed.

(* ---- schedules of the asyncio tie: a producer choice runs one whole transport event, i.e. as
   many handler invocations as `dispatch_from` gives for it; every other choice is itself ---- *)
Fixpoint groups (ns : list nat) (sched : list nat) : list (list nat) :=
  match sched with
  | [] => []
  | 2 :: r => match ns with
              | [] => [] :: groups [] r
              | n :: ns' => repeat 2 n :: groups ns' r
              end
  | ch :: r => [ch] :: groups ns r
  end.
Fixpoint gstep (v : variant) (atomic : bool) (c : cfg) (g : list nat) : cfg * list lbl :=
  match g with
  | [] => (c, [])
  | ch :: r => let '(c', l) := step v atomic c ch in
               let '(c'', l') := gstep v atomic c' r in (c'', l ++ l')
  end.
Fixpoint grun (v : variant) (atomic : bool) (c : cfg) (gs : list (list nat)) : cfg :=
  match gs with [] => c | g :: r => grun v atomic (fst (gstep v atomic c g)) r end.
Fixpoint gtrace (v : variant) (atomic : bool) (c : cfg) (gs : list (list nat)) : list (list lbl) :=
  match gs with
  | [] => []
  | g :: r => let '(c', l) := gstep v atomic c g in l :: gtrace v atomic c' r
  end.

(* the schedule of the model that corresponds to an observed schedule of the tie *)
Definition tgroups (atomic : bool) (tp : tparams) (T : list top) (sched : list nat) : list (list nat) :=
  if atomic then groups (map (@List.length hop) (dispatch_from tp tstart T)) sched
  else map (fun ch => [ch]) sched.
Definition tinit (tp : tparams) (T : list top) (C : list cop) : cfg := init [dispatch tp T] C.

Lemma gstep_run v atomic g : forall c, fst (gstep v atomic c g) = run v atomic c g.
Proof.
  induction g as [|ch r IH]; intro c; simpl; [reflexivity|].
  destruct (step v atomic c ch) as [c' l] eqn:E. specialize (IH c').
  destruct (gstep v atomic c' r) as [c'' l']. simpl in *. exact IH.
Qed.

Lemma run_app v atomic a : forall c b, run v atomic c (a ++ b) = run v atomic (run v atomic c a) b.
Proof. induction a as [|ch r IH]; intros c b; simpl; [reflexivity|apply IH]. Qed.

(* a grouped run is a run: everything proved for `run` holds for the tie's schedules *)
Lemma grun_run v atomic gs : forall c, grun v atomic c gs = run v atomic c (List.concat gs).
Proof.
  induction gs as [|g r IH]; intro c; simpl; [reflexivity|].
  rewrite run_app, IH, gstep_run. reflexivity.
Qed.

(* ------------------------------------------------------------------------------------ *)
(* dispatch stays inside `lifecycle`                                                     *)
(* ------------------------------------------------------------------------------------ *)
Definition phase_of (ph : tphase) : phase :=
  match ph with TUp => Up | TDown _ => Down | TOver => Over end.

Lemma lifecycle_from_mono ph : forall fuel scr, lifecycle_from ph fuel scr = true ->
  forall fuel', fuel <= fuel' -> lifecycle_from ph fuel' scr = true.
Proof.
  intros fuel. revert ph. induction fuel as [|f IH]; intros ph scr H fuel' Hle; [discriminate|].
  destruct fuel' as [|f']; [lia|]. assert (Hf : f <= f') by lia.
  simpl in *.
  destruct ph; destruct scr as [|[] [|[] [|[] r]]]; try exact H; try discriminate;
    try (destruct b; try discriminate); try (eapply IH; eauto); try exact H.
Qed.

Lemma lf_event f e a r : lifecycle_from Up f r = true -> lifecycle_from Up (S f) (HEvent e a :: r) = true.
Proof. intro H; exact H. Qed.
Lemma lf_lose f r : lifecycle_from Down f r = true -> lifecycle_from Up (S f) (HDisconnect :: NsSet false :: r) = true.
Proof. intro H; exact H. Qed.
Lemma lf_end f r : lifecycle_from Over f r = true ->
  lifecycle_from Up (S f) (HDisconnect :: HFinal :: NsSet false :: r) = true.
Proof. intro H; exact H. Qed.
Lemma lf_ok f r : lifecycle_from Up f r = true -> lifecycle_from Down (S f) (NsSet true :: HConnect :: r) = true.
Proof. intro H; exact H. Qed.
Lemma lf_giveup f r : lifecycle_from Over f r = true -> lifecycle_from Down (S f) (HFinal :: r) = true.
Proof. intro H; exact H. Qed.

(* what one transport event is dispatched to, by phase: the shapes `lifecycle` accepts *)
Inductive chunk_ok : phase -> list hop -> phase -> Prop :=
| ck_none ph : chunk_ok ph [] ph
| ck_event e a : chunk_ok Up [HEvent e a] Up
| ck_lose : chunk_ok Up [HDisconnect; NsSet false] Down
| ck_end : chunk_ok Up [HDisconnect; HFinal; NsSet false] Over
| ck_ok : chunk_ok Down [NsSet true; HConnect] Up
| ck_giveup : chunk_ok Down [HFinal] Over.

Lemma tnext_chunk tp ph o : chunk_ok (phase_of ph) (snd (tnext tp ph o)) (phase_of (fst (tnext tp ph o))).
Proof.
  unfold tnext. destruct ph as [|k|]; destruct o as [e a|e a| | |[]| |]; simpl;
    try (destruct (reconnection tp)); try (destruct (negb (attempts tp =? 0) && (attempts tp <=? S k)));
    simpl; constructor.
Qed.

Lemma tnextb_chunk tp s o :
  chunk_ok (phase_of (fst s)) (snd (tnextb tp s o)) (phase_of (fst (fst (tnextb tp s o)))).
Proof.
  destruct s as [ph pd]. unfold tnextb.
  destruct ph as [|k|]; destruct pd as [[[e0 a0] [|k0]]|]; destruct o as [e a|e a| | |oc| |];
    try (destruct (natt a)); cbn -[tnext]; try constructor;
    match goal with
    | |- context [tnext ?tp ?ph ?o] =>
        pose proof (tnext_chunk tp ph o) as H; destruct (tnext tp ph o) as [ph' hs]; simpl in *; exact H
    end.
Qed.

Lemma chunk_lifecycle p hs p' : chunk_ok p hs p' -> forall f r,
  lifecycle_from p' f r = true -> lifecycle_from p (List.length hs + f) (hs ++ r) = true.
Proof.
  intros H f r Hr.
  assert (Hr1 : lifecycle_from p' (S f) r = true) by (eapply lifecycle_from_mono; [exact Hr|lia]).
  assert (Hr2 : lifecycle_from p' (S (S f)) r = true) by (eapply lifecycle_from_mono; [exact Hr|lia]).
  destruct H; cbn [List.length app Nat.add].
  - exact Hr.
  - apply lf_event; exact Hr.
  - apply lf_lose; exact Hr1.
  - apply lf_end; exact Hr2.
  - apply lf_ok; exact Hr1.
  - apply lf_giveup; exact Hr.
Qed.

Lemma dispatch_lifecycle_from tp : forall l s,
  lifecycle_from (phase_of (fst s)) (S (List.length (List.concat (dispatch_from tp s l))))
                 (List.concat (dispatch_from tp s l)) = true.
Proof.
  induction l as [|o r IH]; intro s; [destruct s as [[] ?]; reflexivity|].
  cbn [dispatch_from]. pose proof (tnextb_chunk tp s o) as Hc.
  destruct (tnextb tp s o) as [s' hs]. cbn [List.concat fst snd] in *.
  eapply lifecycle_from_mono.
  - apply (chunk_lifecycle _ _ _ Hc (S (List.length (List.concat (dispatch_from tp s' r))))). apply IH.
  - rewrite app_length. lia.
Qed.

Theorem dispatch_lifecycle tp l : lifecycle (dispatch tp l) = true.
Proof. unfold lifecycle, dispatch. apply (dispatch_lifecycle_from tp l tstart). Qed.

(* ------------------------------------------------------------------------------------ *)
(* what the dispatched script appends is what the server sent                            *)
(* ------------------------------------------------------------------------------------ *)
Lemma tnext_items tp ph o :
  items (snd (tnext tp ph o)) = match ph, o with TUp, TEvent e a => [PList (e :: a)] | _, _ => [] end.
Proof.
  unfold tnext. destruct ph as [|k|]; destruct o as [e a|e a| | |[]| |]; simpl;
    try (destruct (reconnection tp)); try (destruct (negb (attempts tp =? 0) && (attempts tp <=? S k)));
    reflexivity.
Qed.

Lemma tnextb_items tp s o :
  items (snd (tnextb tp s o)) = match completes s o with Some x => [x] | None => [] end.
Proof.
  destruct s as [ph pd]. unfold tnextb, completes.
  destruct ph as [|k|]; destruct pd as [[[e0 a0] [|k0]]|]; destruct o as [e a|e a| | |oc| |];
    try (destruct (natt a)); cbn -[tnext]; try reflexivity;
    match goal with
    | |- context [tnext ?tp ?ph ?o] =>
        pose proof (tnext_items tp ph o) as H; destruct (tnext tp ph o) as [ph' hs]; simpl in *; exact H
    end.
Qed.

Lemma dispatch_items_from tp : forall l s,
  items (List.concat (dispatch_from tp s l)) = sent_from tp s l.
Proof.
  induction l as [|o r IH]; intro s; [reflexivity|].
  cbn [dispatch_from sent_from]. unfold tstate_next. pose proof (tnextb_items tp s o) as Hi.
  destruct (tnextb tp s o) as [s' hs]. cbn [List.concat fst snd] in *. rewrite items_app, IH, Hi.
  destruct (completes s o); reflexivity.
Qed.

Theorem dispatch_items tp l : items (dispatch tp l) = server_sent tp l.
Proof. apply dispatch_items_from. Qed.

(* ------------------------------------------------------------------------------------ *)
(* an incomplete binary event: no handler invocation, no state across a reconnection     *)
(* ------------------------------------------------------------------------------------ *)
(* a half-received packet exists only while the transport is up *)
Definition pend_ok (s : tstate) : Prop := fst s <> TUp -> snd s = None.
Lemma tnextb_pend_ok tp s o : pend_ok s -> pend_ok (fst (tnextb tp s o)).
Proof.
  destruct s as [ph pd]. unfold pend_ok, tnextb. simpl. intro H.
  destruct ph as [|k|]; destruct pd as [[[e0 a0] [|k0]]|]; destruct o as [e a|e a| | |oc| |];
    try (destruct (natt a)); cbn -[tnext]; auto; try (intro H'; congruence);
    try (specialize (H ltac:(discriminate)); discriminate);
    match goal with
    | |- context [tnext ?tp ?ph ?o] => destruct (tnext tp ph o) as [ph' hs]; simpl; reflexivity
    end.
Qed.
(* whenever the transport leaves the `up` phase (loss, CLOSE, DISCONNECT, ...) the half-received packet
   is gone, and until it is complete it has produced no handler invocation *)
Lemma tnextb_leaves_up_clears tp pd o :
  fst (fst (tnextb tp (TUp, pd) o)) <> TUp -> snd (fst (tnextb tp (TUp, pd) o)) = None.
Proof. intro H. apply (tnextb_pend_ok tp (TUp, pd) o); [intro H'; contradiction|exact H]. Qed.
Lemma tnextb_incomplete_silent tp e a k o : o <> TBinAtt ->
  snd (tnextb tp (TUp, Some (e, a, k)) o) = [] \/ snd (fst (tnextb tp (TUp, Some (e, a, k)) o)) = None.
Proof.
  intro Hne. unfold tnextb. destruct o as [e' a'|e' a'| | |oc| |]; try congruence; cbn -[tnext]; auto;
    match goal with
    | |- context [tnext ?tp ?ph ?o] => destruct (tnext tp ph o) as [ph' hs]; simpl; auto
    end.
Qed.
(* a header, the loss of the connection, a reconnection, another event: only the other event arrives *)
Example incomplete_binary_nontrivial :
  let tp := mkTP true 0 in
  let T := [TBinHead (PStr (s2l "b")) [PBytes [1%N; 2%N]; PInt 7%Z]; TLose; TAttempt AOk; TBinAtt;
            TEvent (PStr (s2l "c")) []; TBinHead (PStr (s2l "d")) [PBytes [3%N]]; TBinAtt] in
  dispatch tp T = [HDisconnect; NsSet false; NsSet true; HConnect; HEvent (PStr (s2l "c")) [];
                   HEvent (PStr (s2l "d")) [PBytes [3%N]]] /\
  server_sent tp T = [PList [PStr (s2l "c")]; PList [PStr (s2l "d"); PBytes [3%N]]].
Proof. vm_compute. split; reflexivity. Qed.

(* ------------------------------------------------------------------------------------ *)
(* one producer: arrived ++ (items it has still to append) = items of its script         *)
(* ------------------------------------------------------------------------------------ *)
Definition todo (p : ptask) : list pv :=
  match pscript p with
  | HEvent e a :: r => if ppc p =? 0 then PList (e :: a) :: items r else items r
  | s => items s
  end.
Definition feed_inv (all : list pv) (c : cfg) : Prop :=
  exists p, prods c = [p] /\ arrived (sh c) ++ todo p = all.

Lemma cstep_keeps v c c' l : cstep v c = Some (c', l) -> prods c' = prods c /\ arrived (sh c') = arrived (sh c).
Proof.
  intro E. destruct c as [s p scr pr]. destruct s as [b ie ce cn ns ar ou en]. unfold cstep in E. simpl in *.
  destruct p as [|[]| |[]| | | | |[]| | |]; simpl in E;
    repeat match type of E with
           | context [match ?x with _ => _ end] => destruct x eqn:?; simpl in E
           end; try discriminate; inv_some; simpl; split; reflexivity.
Qed.

Lemma tstep_keeps v c c' l : tstep v c = Some (c', l) -> prods c' = prods c /\ arrived (sh c') = arrived (sh c).
Proof.
  intro E. destruct c as [s p scr pr]. destruct s as [b ie ce cn ns ar ou en]. unfold tstep in E. simpl in *.
  destruct (cur_timeout _); [|discriminate].
  destruct p as [|[]| |[]| | | | |[]| | |]; try discriminate; try (destruct (recheck_before_raise v));
    inv_some; simpl; split; reflexivity.
Qed.

Lemma feed_step all v c ch c' l : feed_inv all c -> micro v c ch = Some (c', l) -> feed_inv all c'.
Proof.
  intros (p & Hp & H) E. destruct ch as [|[|i]]; simpl in E.
  - apply cstep_keeps in E as [E1 E2]. exists p. rewrite E1, E2. auto.
  - apply tstep_keeps in E as [E1 E2]. exists p. rewrite E1, E2. auto.
  - apply pstep_inv in E as (q & s' & cp' & p' & En & Eh & ->). rewrite Hp in En.
    destruct i as [|i]; [|destruct i; discriminate]. simpl in En. inversion En; subst q; clear En.
    exists p'. simpl. rewrite Hp. split; [reflexivity|].
    destruct c as [s cp scr pr]. destruct s as [b ie ce cn ns ar ou en]. simpl in *.
    unfold todo in *. unfold phop in Eh. destruct (pscript p) as [|h rest] eqn:Ep; [discriminate|].
    destruct h; destruct (ppc p) as [|[|n]] eqn:Epc; simpl in Eh; try (destruct (final_wakes_input v));
      inv_some; simpl; rewrite <- ?app_assoc; simpl; try reflexivity;
      destruct rest as [|[] rest']; simpl; reflexivity.
Qed.

Lemma feed_reach v scr C c : mreach v (init [scr] C) c -> feed_inv (items scr) c.
Proof.
  apply (invariant_run (feed_inv (items scr)) v (init [scr] C)).
  - exists (mkP 0 scr). split; [reflexivity|]. unfold todo; simpl. destruct scr as [|[] r]; reflexivity.
  - intros; eapply feed_step; eauto.
Qed.

(* receive() returns exactly what the server sent: at every moment of every run (thread or asyncio
   granularity, any calls of the application, any transport history with any number of failed and
   successful reconnection attempts) the events returned so far, followed by the buffered ones,
   followed by those the Client has not handed over yet, are the events the server sent - each
   once, in order, nothing else; once the Client has processed the whole history nothing is left
   to hand over. *)
Theorem transport_fifo v atomic tp T C sched :
  let c := run v atomic (tinit tp T C) sched in
  exists rest, returned (outs (sh c)) ++ buf (sh c) ++ rest = server_sent tp T /\
               (prods_done c = true -> rest = []).
Proof.
  intro c. assert (Hr : mreach v (tinit tp T C) c) by apply reach_run.
  pose proof (fifo_all_schedules v atomic [dispatch tp T] C sched) as Hf. fold (tinit tp T C) in Hf. fold c in Hf.
  apply feed_reach in Hr as (p & Hp & H). exists (todo p). split.
  - rewrite app_assoc, Hf, H. apply dispatch_items.
  - unfold prods_done. rewrite Hp. simpl. rewrite andb_true_r. unfold prod_done, todo.
    destruct (pscript p); [reflexivity|discriminate].
Qed.

(* nothing else is ever received: whatever receive() returned (or is buffered) is an event the server
   sent - in particular never a `connect` / `connect_error` / `disconnect` / `__disconnect_final`
   notification of the underlying Client *)
Corollary transport_received_were_sent v atomic tp T C sched x :
  let c := run v atomic (tinit tp T C) sched in
  In x (returned (outs (sh c)) ++ buf (sh c)) -> In x (server_sent tp T).
Proof.
  intros c Hin. destruct (transport_fifo v atomic tp T C sched) as (rest & H & _). fold c in H.
  rewrite <- H, app_assoc. apply in_or_app. left. exact Hin.
Qed.

(* ... and the same for the schedules of the tie (a producer choice = one transport event) *)
Corollary transport_fifo_grouped v atomic tp T C gs :
  let c := grun v atomic (tinit tp T C) gs in
  exists rest, returned (outs (sh c)) ++ buf (sh c) ++ rest = server_sent tp T /\
               (prods_done c = true -> rest = []).
Proof. intro c. unfold c. rewrite grun_run. apply transport_fifo. Qed.

(* non-trivial instance: an event, a loss, a failed attempt (transport), a failed attempt (namespace
   refused), a successful one, another event, the server closes *)
Definition ex_T : list top :=
  [TEvent (PStr (s2l "a")) [PInt 1%Z]; TLose; TAttempt AFail; TAttempt ARefused; TAttempt AOk;
   TEvent (PStr (s2l "b")) [PInt 2%Z]; TClose].
Example transport_fifo_nontrivial :
  let tp := mkTP true 0 in
  dispatch tp ex_T = [HEvent (PStr (s2l "a")) [PInt 1%Z]; HDisconnect; NsSet false; NsSet true; HConnect;
                      HEvent (PStr (s2l "b")) [PInt 2%Z]; HDisconnect; HFinal; NsSet false] /\
  server_sent tp ex_T = [PList [PStr (s2l "a"); PInt 1%Z]; PList [PStr (s2l "b"); PInt 2%Z]] /\
  let c := grun repaired_all true (tinit tp ex_T [Recv true; Recv true; Recv true])
                (tgroups true tp ex_T [2; 0; 2; 2; 0; 2; 2; 2; 0; 2; 0]) in
  outs (sh c) = [Returned (PList [PStr (s2l "a"); PInt 1%Z]); Returned (PList [PStr (s2l "b"); PInt 2%Z]);
                 Raised DisconnectedError].
Proof. vm_compute. repeat split; reflexivity. Qed.
Example dispatch_giveup_nontrivial :
  dispatch (mkTP true 2) [TLose; TAttempt AFail; TAttempt ARefused; TAttempt AOk] = [HDisconnect; NsSet false; HFinal].
Proof. reflexivity. Qed.

(* Residual of fix fee3be8 (thread granularity only; notes/C19.md section 9): the source re-tests the
   buffer when connected_event.wait() TIMES OUT, but an untimed receive() that found the buffer empty
   and then enters the connected wait after an event has been delivered and the transport has dropped
   stays blocked, with the event buffered, for as long as the outage lasts.  The real SimpleClient
   does the same on this schedule (harness scenario `t event then outage`). *)
Theorem held_back_during_outage_refuted :
  exists tp T C sched,
    let c := run repaired_all false (tinit tp T C) sched in
    pc c = RCW WBlocked /\ cur_timeout c = false /\ buf (sh c) <> [] /\ prods_done c = true /\
    count mid_handoff (prods c) = 0 /\ ended (sh c) = false /\ quiescent repaired_all c = true.
Proof.
  exists (mkTP true 0), [TEvent (PStr (s2l "a")) [PInt 1%Z]; TLose], [Recv false], [0; 2; 2; 2; 0; 2].
  vm_compute. repeat split; discriminate.
Qed.

(* ... and that is the ONLY place where an event can be held back (every variant, any producers, any
   schedule, both granularities): if the application task cannot move inside a receive() while a
   completely handed-off event is buffered (no producer is between its append and its signal), then it
   is registered in the CONNECTED wait with the connected flag clear - never in the input wait. *)
Theorem held_back_except v P C c : mreach v (init P C) c ->
  recv_pc (pc c) = true -> cstep v c = None ->
  buf (sh c) <> [] -> count mid_handoff (prods c) = 0 ->
  pc c = RCW WBlocked /\ cev (sh c) = false.
Proof.
  intros Hr Hp Hc Hb Hm. destruct (ctl_reach v P C c Hr) as (_ & Hblk & _).
  pose proof (win_reach v P C c Hr) as Hw. unfold blk_ok in Hblk. unfold win_inv in Hw.
  unfold cstep in Hc.
  destruct (pc c) as [|[]| |[]| | | | |[]| | |] eqn:Epc; simpl in Hp; try discriminate;
    repeat match type of Hc with
           | context [match ?x with _ => _ end] => destruct x eqn:?
           end; try discriminate.
  - split; [reflexivity|exact Hblk].
  - exfalso. destruct (Hw eq_refl) as [Hi|Hl]; [congruence|].
    rewrite Hm in Hl. destruct (buf (sh c)); [congruence|simpl in Hl; lia].
Qed.
Example held_back_except_nontrivial :
  let c := run repaired_all false (init [[HEvent (PStr (s2l "a")) [PInt 1%Z]; HDisconnect; NsSet false]] [Recv false])
               [0; 2; 2; 2; 0; 2] in
  recv_pc (pc c) = true /\ cstep repaired_all c = None /\ buf (sh c) <> [] /\ count mid_handoff (prods c) = 0.
Proof. vm_compute. repeat split; discriminate. Qed.
