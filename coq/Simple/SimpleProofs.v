(* Theorems about the SimpleClient model (property C19), built on the invariants of
   SimpleInv.v.  `mreach v (init P C) c` says that c is reachable from the state after
   connect() by some schedule at the granularity of single accesses; every run of either
   granularity ends in such a state (reach_run). *)
From Coq Require Import Lia ZifyBool.
From VT Require Import Base.PyVal Simple.SimpleClient.
From VT Require Export Simple.SimpleInv.
Local Open Scope nat_scope.

(* ------------------------------------------------------------------------------------ *)
(* Theorems on reachable states                                                          *)
(* ------------------------------------------------------------------------------------ *)
Definition e_a : hop := HEvent (PStr (s2l "a")) [PInt 1%Z].
Definition e_b : hop := HEvent (PStr (s2l "b")) [].
Definition item_a : pv := PList [PStr (s2l "a"); PInt 1%Z].

(* pop(0) never meets an empty buffer and no call ever ends in IndexError *)
Theorem pop_never_empty v P C c : mreach v (init P C) c ->
  (pc c = RPop -> buf (sh c) <> []) /\ ~ In (Raised IndexError) (outs (sh c)).
Proof.
  intro Hr. destruct (ctl_reach v P C c Hr) as (_ & Hb & Ho). split; [|exact Ho].
  unfold blk_ok in Hb. intro E. rewrite E in Hb. exact Hb.
Qed.
Example pop_never_empty_nontrivial :
  let c := run pinned false (init [[e_a]] [Recv false]) [2; 2; 0] in pc c = RPop /\ buf (sh c) = [item_a].
Proof. vm_compute. split; reflexivity. Qed.

(* The timeout of a wait can fire only while the awaited flag is clear; for the wait on the
   input flag, moreover, only while every buffered item is still being handed off (its
   producer has appended and not yet signalled): no completed hand-off is unconsumed. *)
Theorem timeout_only_if_empty v P C c c' l : mreach v (init P C) c -> tstep v c = Some (c', l) ->
  (pc c = RCW WBlocked /\ cev (sh c) = false) \/
  (pc c = RIW WBlocked /\ iev (sh c) = false /\
   List.length (buf (sh c)) <= count mid_handoff (prods c)).
Proof.
  intros Hr E. destruct (ctl_reach v P C c Hr) as (_ & Hb & _). pose proof (win_reach v P C c Hr) as Hw.
  unfold tstep in E. destruct (cur_timeout c); [|discriminate]. unfold blk_ok in Hb. unfold win_inv in Hw.
  destruct (pc c) as [|[]| |[]| | | | |[]| | |]; try discriminate.
  - left; auto.
  - right. split; [reflexivity|]. split; [exact Hb|].
    destruct (Hw eq_refl) as [Hi|Hl]; [congruence|exact Hl].
Qed.
Corollary timeout_input_wait_buffer_empty v P C c c' l : mreach v (init P C) c -> tstep v c = Some (c', l) ->
  pc c = RIW WBlocked -> existsb mid_handoff (prods c) = false -> buf (sh c) = [].
Proof.
  intros Hr E Hp Hm. destruct (timeout_only_if_empty v P C c c' l Hr E) as [[H _]|(_ & _ & H)]; [congruence|].
  assert (Hc : ~ count mid_handoff (prods c) > 0) by (rewrite <- existsb_count; congruence).
  destruct (buf (sh c)); [reflexivity|simpl in H; lia].
Qed.
Example timeout_only_if_empty_nontrivial :
  let c := run pinned false (init [[e_a]] [Recv true]) [0; 0; 0; 0; 2] in
  pc c = RIW WBlocked /\ tstep pinned c <> None /\ buf (sh c) = [item_a] /\ count mid_handoff (prods c) = 1.
Proof. vm_compute. repeat split; discriminate. Qed.

(* DisconnectedError is raised only after a __disconnect_final has started, and (unless the
   source re-tests the buffer in between) at a step that reads `connected` as False *)
Theorem disconnected_only_after_final v P C c c' l : mreach v (init P C) c ->
  cstep v c = Some (c', l) -> In (LRaise DisconnectedError) l ->
  ended (sh c) = true /\ (recheck_before_raise v = false -> conn (sh c) = false).
Proof.
  intros Hr E Hin. destruct (end_reach v P C c Hr) as [He He']. pose proof (rck_reach v P C c Hr) as Hk.
  unfold rck_inv in Hk. unfold cstep in E. destruct (pc c) as [|[]| |[]| | | | |[]| | |] eqn:Ep; simpl in E;
    repeat match type of E with
           | context [match ?x with _ => _ end] => destruct x eqn:?; simpl in E
           end; try discriminate; inv_some; simpl in Hin;
    repeat (destruct Hin as [Hin|Hin]; try discriminate); try contradiction;
    split; auto; intros; try discriminate; try congruence; auto.
Qed.
Example disconnected_only_after_final_nontrivial :
  let c := run pinned false (init [[HDisconnect; HFinal; NsSet false]] [Recv false]) [2; 2; 2; 0; 0] in
  exists c', cstep pinned c = Some (c', [LConnRead false; LRaise DisconnectedError]).
Proof. vm_compute. eexists. reflexivity. Qed.

(* ------------------------------------------------------------------------------------ *)
(* What is FALSE of the faithful (pinned) model: witnesses, all under the Client's own     *)
(* discipline (`lifecycle`), replayed on the real classes by harness/props/c19.py          *)
(* ------------------------------------------------------------------------------------ *)

(* (7.1-j) thread granularity: the event arrives and the transport drops between receive()'s
   emptiness test and its wait on connected_event; the timeout of THAT wait fires while a
   completely handed-off event sits in the buffer *)
Definition P_j : list (list hop) := [[e_a; HDisconnect; NsSet false]].
Definition sched_j : list nat := [0; 2; 2; 2; 0].
Theorem timeout_connected_wait_refuted :
  exists P C sched, forallb lifecycle P = true /\
    let c := run pinned false (init P C) sched in
    pc c = RCW WBlocked /\ buf (sh c) = [item_a] /\ existsb mid_handoff (prods c) = false /\
    exists c', tstep pinned c = Some (c', [LTimeout CE; LRaise TimeoutError]) /\
               outs (sh c') = [Raised TimeoutError] /\ buf (sh c') = [item_a].
Proof.
  exists P_j, [Recv true], sched_j. vm_compute. repeat split. eexists. repeat split.
Qed.

(* thread granularity: DisconnectedError is raised while an event that arrived before the
   connection ended is still in the buffer (the next receive() returns it) *)
Definition P_d : list (list hop) := [[e_a; HDisconnect; HFinal; NsSet false]].
Definition sched_d : list nat := [0; 2; 2; 2; 2; 2; 0].
Theorem disconnected_while_buffered_refuted :
  exists P C sched, forallb lifecycle P = true /\
    let c := run pinned false (init P C) sched in
    buf (sh c) = [item_a] /\ existsb mid_handoff (prods c) = false /\
    exists c', cstep pinned c = Some (c', [LConnRead false; LRaise DisconnectedError]) /\
               outs (sh c') = [Raised DisconnectedError] /\ buf (sh c') = [item_a].
Proof.
  exists P_d, [Recv false], sched_d. vm_compute. repeat split. eexists. repeat split.
Qed.

(* asyncio granularity: the same, when the application task has been woken by a successful
   reconnection but has not run yet while an event, the loss and the final disconnect are
   processed back to back *)
Definition P_da : list (list hop) :=
  [[HDisconnect; NsSet false; NsSet true; HConnect; e_a; HDisconnect; HFinal; NsSet false]].
Definition sched_da : list nat := [2; 2; 0; 2; 2; 2; 2; 2; 0].
Theorem disconnected_while_buffered_async_refuted :
  exists P C sched, forallb lifecycle P = true /\
    let c := run pinned true (init P C) sched in
    outs (sh c) = [Raised DisconnectedError] /\ buf (sh c) = [item_a] /\
    last (trace pinned true (init P C) sched) [] = [LWake CE; LConnRead false; LRaise DisconnectedError].
Proof.
  exists P_da, [Recv false], sched_da. vm_compute. repeat split.
Qed.

(* (7.1-g) both granularities: a receive() without timeout that is registered in the input
   wait when the connection ends for good stays there: the final disconnect has been fully
   processed, every producer is finished and no step of any task is enabled *)
Definition P_g : list (list hop) := [[HDisconnect; HFinal; NsSet false]].
Definition sched_g_thread : list nat := [0; 0; 0; 0; 2; 2; 2; 2].
Definition sched_g_async : list nat := [0; 2; 2; 2].
Definition hung (c : cfg) : Prop :=
  pc c = RIW WBlocked /\ cur_timeout c = false /\ ended (sh c) = true /\ conn (sh c) = false /\
  cev (sh c) = true /\ prods_done c = true /\ quiescent pinned c = true.
Theorem no_hang_refuted :
  exists P C, forallb lifecycle P = true /\
    (exists sched, hung (run pinned false (init P C) sched)) /\
    (exists sched, hung (run pinned true (init P C) sched)).
Proof.
  exists P_g, [Recv false]. split; [vm_compute; reflexivity|]. split.
  - exists sched_g_thread. vm_compute. repeat split.
  - exists sched_g_async. vm_compute. repeat split.
Qed.

(* a quiescent configuration never moves again, whatever the schedule *)
Lemma prods_done_pstep v c i : prods_done c = true -> pstep v c i = None.
Proof.
  unfold prods_done, pstep. intro H. destruct (nth_error (prods c) i) as [p|] eqn:E; [|reflexivity].
  pose proof (forallb_nth _ _ _ _ H E) as Hp. unfold prod_done in Hp. unfold phop.
  destruct (pscript p); [reflexivity|discriminate].
Qed.

Lemma quiescent_micro v c ch : quiescent v c = true -> micro v c ch = None.
Proof.
  unfold quiescent, enabled. intro H. apply andb_true_iff in H as [H Hp]. apply andb_true_iff in H as [Hc Ht].
  destruct ch as [|[|i]]; simpl in *.
  - destruct (cstep v c); [discriminate|reflexivity].
  - destruct (tstep v c); [discriminate|reflexivity].
  - apply prods_done_pstep. exact Hp.
Qed.

Lemma citer_none v f c acc : cstep v c = None -> citer v (S f) c acc = (c, acc).
Proof. intro E. cbn [citer]. rewrite E. reflexivity. Qed.
Lemma piter_none v f c i acc : pstep v c i = None -> piter v (S f) c i acc = (c, acc).
Proof. intro E. cbn [piter]. rewrite E. reflexivity. Qed.

Theorem quiescent_stuck v atomic c sched : quiescent v c = true -> run v atomic c sched = c.
Proof.
  intro H. induction sched as [|ch r IH]; [reflexivity|]. simpl.
  assert (E : step v atomic c ch = (c, [])).
  { unfold step. destruct atomic.
    - destruct ch as [|[|i]].
      + pose proof (quiescent_micro v c 0 H) as E. cbn [micro] in E. unfold cfuel. apply citer_none. exact E.
      + pose proof (quiescent_micro v c 1 H) as E. cbn [micro] in E. rewrite E. reflexivity.
      + pose proof (quiescent_micro v c (S (S i)) H) as E. cbn [micro] in E. apply piter_none. exact E.
    - rewrite (quiescent_micro v c ch H). reflexivity. }
  rewrite E. simpl. exact IH.
Qed.

(* ------------------------------------------------------------------------------------ *)
(* After the final disconnect                                                            *)
(* ------------------------------------------------------------------------------------ *)
(* the connection has ended for good and the Client has nothing more to deliver *)
Definition after_final (c : cfg) : Prop :=
  prods_done c = true /\ conn (sh c) = false /\ cev (sh c) = true.
(* the call in progress has produced its outcome *)
Definition call_over (c c' : cfg) : Prop :=
  List.length (cscript c') < List.length (cscript c) /\
  List.length (outs (sh c')) = S (List.length (outs (sh c))).

Lemma run_app v atomic c s1 s2 : run v atomic c (s1 ++ s2) = run v atomic (run v atomic c s1) s2.
Proof. revert c; induction s1 as [|x s1 IH]; intro c; simpl; [reflexivity|apply IH]. Qed.

Lemma consumer_progress v c : ctl_inv c -> after_final c -> pc c <> CDone ->
  exists n, n <= 7 /\ let c' := run v false c (repeat 0 n) in
    after_final c' /\ (pc c' = RIW WBlocked \/ call_over c c').
Proof.
  intros (Hp & Hb & _) (Hd & Hcn & Hce) Hpc.
  destruct c as [s p scr pr]. destruct s as [b ie ce cn ns ar ou en].
  unfold blk_ok, after_final, call_over, prods_done in *. simpl in *. subst cn ce.
  destruct v as [fw rc].
  destruct p as [|[]| |[]| | | | |[]| | |]; try congruence;
    destruct scr as [|[t|] scr']; simpl in Hp; try contradiction;
    destruct b as [|x b]; destruct ie; destruct ns; destruct rc; try congruence;
    first [ exists 0; split; [lia|]; cbn; rewrite ?app_length; cbn; repeat split; auto; (left; reflexivity) || (right; split; lia)
          | exists 1; split; [lia|]; cbn; rewrite ?app_length; cbn; repeat split; auto; (left; reflexivity) || (right; split; lia)
          | exists 2; split; [lia|]; cbn; rewrite ?app_length; cbn; repeat split; auto; (left; reflexivity) || (right; split; lia)
          | exists 3; split; [lia|]; cbn; rewrite ?app_length; cbn; repeat split; auto; (left; reflexivity) || (right; split; lia)
          | exists 4; split; [lia|]; cbn; rewrite ?app_length; cbn; repeat split; auto; (left; reflexivity) || (right; split; lia)
          | exists 5; split; [lia|]; cbn; rewrite ?app_length; cbn; repeat split; auto; (left; reflexivity) || (right; split; lia)
          | exists 6; split; [lia|]; cbn; rewrite ?app_length; cbn; repeat split; auto; (left; reflexivity) || (right; split; lia)
          | exists 7; split; [lia|]; cbn; rewrite ?app_length; cbn; repeat split; auto; (left; reflexivity) || (right; split; lia) ].
Qed.

Lemma reach_trans v c0 c sched : mreach v c0 c -> mreach v c0 (run v false c sched).
Proof. apply run_reach. Qed.

(* On the pinned tree: after the final disconnect every pending call either produces its
   outcome within seven steps of the application task, or ends up registered in the wait on
   the input flag - the ONLY place where it can get stuck. *)
Theorem no_hang_except v P C c : mreach v (init P C) c -> after_final c ->
  pc c = CDone \/
  exists n, n <= 7 /\ let c' := run v false c (repeat 0 n) in
    after_final c' /\ (pc c' = RIW WBlocked \/ call_over c c').
Proof.
  intros Hr Ha. destruct (pc c) eqn:E; try (left; reflexivity); right;
    apply consumer_progress; auto; try (eapply ctl_reach; eauto); congruence.
Qed.

(* ... and what happens there: with a timeout the timer ends the call with TimeoutError,
   without one nothing is enabled any more (quiescent_stuck: for ever) *)
Theorem input_wait_after_final v c : after_final c -> pc c = RIW WBlocked ->
  if cur_timeout c
  then exists c', tstep v c = Some (c', [LTimeout IE; LRaise TimeoutError]) /\
                  outs (sh c') = outs (sh c) ++ [Raised TimeoutError]
  else quiescent v c = true.
Proof.
  intros (Hd & _ & _) Hp. unfold tstep, quiescent, enabled. destruct (cur_timeout c) eqn:Et.
  - rewrite Hp. eexists. split; reflexivity.
  - cbn [micro]. unfold tstep, cstep. rewrite Et, Hp. exact Hd.
Qed.
Example no_hang_except_nontrivial :
  let c := run pinned false (init P_g [Recv true; Recv false]) sched_g_thread in
  after_final c /\ pc c = RIW WBlocked /\ cur_timeout c = true.
Proof. vm_compute. repeat split. Qed.

(* With the repair (__disconnect_final also sets the input flag) the full statement holds:
   after the final disconnect the application task, given enough steps, completes every
   pending and every later call. *)
Lemma mid_final_done l : forallb prod_done l = true -> count mid_final l = 0.
Proof.
  induction l as [|p l IH]; simpl; [reflexivity|]. intro H. apply andb_true_iff in H as [H1 H2].
  rewrite (IH H2). unfold prod_done in H1. rewrite mid_final_eq. destruct (pscript p); [reflexivity|discriminate].
Qed.

Lemma repaired_never_stuck v P C c : final_wakes_input v = true ->
  mreach v (init P C) c -> after_final c -> pc c <> RIW WBlocked.
Proof.
  intros Hv Hr (Hd & Hcn & _) Hp. pose proof (fin_reach v P C c Hv Hr) as Hf.
  destruct (ctl_reach v P C c Hr) as (_ & Hb & _). unfold fin_inv in Hf. unfold blk_ok in Hb.
  rewrite Hp in Hf, Hb. destruct (Hf Hcn) as [Hi|Hm]; [congruence|].
  unfold prods_done in Hd. rewrite (mid_final_done _ Hd) in Hm. lia.
Qed.

Lemma repeat_add {A} (x : A) n m : repeat x (n + m) = repeat x n ++ repeat x m.
Proof. induction n; simpl; [reflexivity|rewrite IHn; reflexivity]. Qed.

Lemma done_stays v c n : pc c = CDone -> pc (run v false c (repeat 0 n)) = CDone.
Proof.
  intro H. induction n as [|n IH]; [exact H|]. simpl. unfold step. cbn [micro]. unfold cstep at 1. rewrite H.
  simpl. exact IH.
Qed.

Theorem no_hang_repaired v P C : final_wakes_input v = true ->
  forall k c, mreach v (init P C) c -> after_final c ->
  List.length (cscript c) <= k ->
  pc (run v false c (repeat 0 (7 * k))) = CDone.
Proof.
  intro Hv. induction k as [|k IH]; intros c Hr Ha Hk.
  - destruct (ctl_reach v P C c Hr) as (Hp & _ & _).
    destruct (cscript c); [|simpl in Hk; lia]. simpl. destruct (pc c); simpl in Hp; try contradiction. reflexivity.
  - destruct (no_hang_except v P C c Hr Ha) as [Hd|(n & Hn & H)].
    + apply done_stays. exact Hd.
    + cbv zeta in H. destruct H as (Ha' & [Hb|(Hl & _)]).
      * exfalso. eapply (repaired_never_stuck v); [exact Hv| |exact Ha'|exact Hb]. apply reach_trans. exact Hr.
      * replace (7 * S k) with (n + (7 * k + (7 - n))) by lia.
        rewrite repeat_add, run_app.
        set (c' := run v false c (repeat 0 n)) in *.
        assert (Hr' : mreach v (init P C) c') by (apply reach_trans; exact Hr).
        rewrite repeat_add, run_app. apply done_stays. apply IH; auto. lia.
Qed.
Example no_hang_repaired_nontrivial :
  let c := run repaired false (init P_g [Recv false; Recv true]) [0; 0; 0; 0; 2; 2; 2; 2; 2] in
  after_final c /\ pc c = RIW WNotified /\
  outs (sh (run repaired false c (repeat 0 12))) = [Raised DisconnectedError; Raised DisconnectedError].
Proof. vm_compute. repeat split. Qed.


(* ---- fair schedules: after the final disconnect only the application task can move ---- *)
Lemma cstep_frame v c c' l : cstep v c = Some (c', l) ->
  prods c' = prods c /\ conn (sh c') = conn (sh c) /\ cev (sh c') = cev (sh c).
Proof.
  intro E. unfold cstep in E. destruct c as [s p scr pr]. destruct s as [b ie ce cn ns ar ou en]. simpl in *.
  destruct p as [|[]| |[]| | | | |[]| | |]; simpl in E;
    repeat match type of E with
           | context [match ?x with _ => _ end] => destruct x eqn:?; simpl in E
           end; try discriminate; inv_some; simpl; auto.
Qed.

Lemma after_final_cstep v c c' l : after_final c -> cstep v c = Some (c', l) -> after_final c'.
Proof.
  intros (Hd & Hcn & Hce) E. destruct (cstep_frame v c c' l E) as (Hp & H1 & H2).
  unfold after_final, prods_done in *. rewrite Hp, H1, H2. auto.
Qed.

Lemma repaired_others_idle v P C c ch : final_wakes_input v = true ->
  mreach v (init P C) c -> after_final c -> ch <> 0 -> micro v c ch = None.
Proof.
  intros Hv Hr Ha Hch. destruct ch as [|[|i]]; [congruence| |].
  - cbn [micro]. pose proof (repaired_never_stuck v P C c Hv Hr Ha) as Hn.
    destruct (ctl_reach v P C c Hr) as (_ & Hb & _). destruct Ha as (_ & _ & Hce).
    unfold tstep. destruct (cur_timeout c); [|reflexivity]. unfold blk_ok in Hb.
    destruct (pc c) as [|[]| |[]| | | | |[]| | |]; try reflexivity; congruence.
  - cbn [micro]. apply prods_done_pstep. apply Ha.
Qed.

Fixpoint turns (sched : list nat) : nat :=
  match sched with [] => 0 | 0 :: r => S (turns r) | _ :: r => turns r end.

Lemma fair_collapse v P C sched : final_wakes_input v = true ->
  forall c, mreach v (init P C) c -> after_final c ->
  run v false c sched = run v false c (repeat 0 (turns sched)).
Proof.
  intro Hv. induction sched as [|ch r IH]; intros c Hr Ha; [reflexivity|].
  destruct ch as [|ch'].
  - cbn [turns repeat run]. apply IH.
    + apply step_reach. exact Hr.
    + unfold step. cbn [micro]. destruct (cstep v c) as [[c' l]|] eqn:E; [|exact Ha].
      simpl. eapply after_final_cstep; eauto.
  - cbn [turns run]. unfold step. rewrite (repaired_others_idle v P C c (S ch') Hv Hr Ha); [|discriminate].
    simpl. apply IH; assumption.
Qed.

(* full strength, repaired source: under ANY schedule that gives the application task enough
   turns (in particular every fair one) all pending and later calls complete *)
Theorem no_hang_repaired_fair v P C c sched : final_wakes_input v = true ->
  mreach v (init P C) c -> after_final c ->
  7 * List.length (cscript c) <= turns sched ->
  pc (run v false c sched) = CDone.
Proof.
  intros Hv Hr Ha Hn. rewrite (fair_collapse v P C sched Hv c Hr Ha).
  replace (turns sched) with (7 * List.length (cscript c) + (turns sched - 7 * List.length (cscript c))) by lia.
  rewrite repeat_add, run_app. apply done_stays. apply (no_hang_repaired v P C); auto.
Qed.

Lemma runs_are_reachable v atomic P C sched : mreach v (init P C) (run v atomic (init P C) sched).
Proof. apply reach_run. Qed.

(* ------------------------------------------------------------------------------------ *)
(* The source with the re-test (`if self.input_buffer: break` before raising)             *)
(* ------------------------------------------------------------------------------------ *)
Definition recv_pc (p : cpc) : bool :=
  match p with EW _ | ERead | ESend | CDone => false | _ => true end.

(* receive() raises DisconnectedError, and TimeoutError out of the connected wait, only at a
   step that has just found the buffer empty: for every configuration, hence every schedule
   of either granularity *)
Theorem recheck_raises_only_if_empty v c c' l : recheck_before_raise v = true ->
  cstep v c = Some (c', l) -> recv_pc (pc c) = true ->
  In (LRaise DisconnectedError) l \/ In (LRaise TimeoutError) l ->
  buf (sh c) = [] /\ hd LDone l = LBufTest false.
Proof.
  intros Hv E Hp Hin. unfold cstep in E. rewrite Hv in E.
  destruct (pc c) as [|[]| |[]| | | | |[]| | |]; simpl in E, Hp; try discriminate;
    repeat match type of E with
           | context [match ?x with _ => _ end] => destruct x eqn:?; simpl in E
           end; try discriminate; inv_some; simpl in Hin; destruct Hin as [Hin|Hin];
    repeat (destruct Hin as [Hin|Hin]; try discriminate); try contradiction; auto.
Qed.

(* ... and the timer raises only out of the wait on the input flag, for which
   timeout_only_if_empty says that no completed hand-off is unconsumed *)
Theorem recheck_timer_raises_only_in_input_wait v c c' l : recheck_before_raise v = true ->
  tstep v c = Some (c', l) -> In (LRaise TimeoutError) l -> pc c = RIW WBlocked.
Proof.
  intros Hv E Hin. unfold tstep in E. rewrite Hv in E. destruct (cur_timeout c); [|discriminate].
  destruct (pc c) as [|[]| |[]| | | | |[]| | |]; try discriminate; inv_some; simpl in Hin;
    repeat (destruct Hin as [Hin|Hin]; try discriminate); try contradiction; reflexivity.
Qed.

(* the three refutation witnesses no longer violate anything on the fully repaired model *)
Example recheck_nontrivial :
  outs (sh (run repaired_all false (init P_j [Recv true]) (sched_j ++ [1; 0; 0]))) = [Returned item_a] /\
  outs (sh (run repaired_all false (init P_d [Recv false]) (sched_d ++ [0; 0; 0]))) = [Returned item_a] /\
  outs (sh (run repaired_all true (init P_da [Recv false]) sched_da)) = [Returned item_a] /\
  outs (sh (run repaired_all false (init P_g [Recv false]) (sched_g_thread ++ [2; 0; 0; 0; 0; 0; 0]))) =
    [Raised DisconnectedError].
Proof. vm_compute. repeat split. Qed.

(* ------------------------------------------------------------------------------------ *)
(* Headline theorems for the source as it stands after fix commits 748d97f and fee3be8    *)
(* (`repaired_all`: __disconnect_final also sets input_event; receive() re-tests the      *)
(* buffer before raising out of the connected wait / because `connected` is False)        *)
(* ------------------------------------------------------------------------------------ *)

(* TimeoutError is raised only while no event is available: the timer raises only out of the
   wait on the input flag, with that flag clear and every buffered item still being handed
   off; the application task itself raises TimeoutError only right after finding the buffer
   empty *)
Theorem timeout_only_if_empty_repaired P C c c' l : mreach repaired_all (init P C) c ->
  (tstep repaired_all c = Some (c', l) -> In (LRaise TimeoutError) l ->
     pc c = RIW WBlocked /\ iev (sh c) = false /\
     List.length (buf (sh c)) <= count mid_handoff (prods c)) /\
  (cstep repaired_all c = Some (c', l) -> In (LRaise TimeoutError) l ->
     buf (sh c) = [] /\ hd LDone l = LBufTest false).
Proof.
  intro Hr. split.
  - intros E Hin.
    pose proof (recheck_timer_raises_only_in_input_wait repaired_all c c' l eq_refl E Hin) as Hp.
    destruct (timeout_only_if_empty repaired_all P C c c' l Hr E) as [[H _]|H]; [congruence|exact H].
  - intros E Hin. unfold cstep in E. simpl in E.
    destruct (pc c) as [|[]| |[]| | | | |[]| | |]; simpl in E;
      repeat match type of E with
             | context [match ?x with _ => _ end] => destruct x eqn:?; simpl in E
             end; try discriminate; inv_some; simpl in Hin;
      repeat (destruct Hin as [Hin|Hin]; try discriminate); try contradiction; auto.
Qed.
Example timeout_only_if_empty_repaired_nontrivial :
  let c := run repaired_all false (init P_j [Recv true]) (sched_j ++ [1]) in
  pc c = RCkT /\ buf (sh c) = [item_a] /\
  outs (sh (run repaired_all false c [0; 0])) = [Returned item_a].
Proof. vm_compute. repeat split. Qed.

(* DisconnectedError is raised only once the connection has ended for good; receive() raises
   it only right after finding the buffer empty (the events received before have been
   returned); emit()/call() only at a step that reads `connected` as False *)
Theorem disconnected_after_drain_repaired P C c c' l : mreach repaired_all (init P C) c ->
  cstep repaired_all c = Some (c', l) -> In (LRaise DisconnectedError) l ->
  ended (sh c) = true /\
  (recv_pc (pc c) = true -> buf (sh c) = [] /\ hd LDone l = LBufTest false) /\
  (recv_pc (pc c) = false -> conn (sh c) = false).
Proof.
  intros Hr E Hin. split; [exact (proj1 (disconnected_only_after_final repaired_all P C c c' l Hr E Hin))|].
  split.
  - intro Hp. apply (recheck_raises_only_if_empty repaired_all c c' l eq_refl E Hp). left. exact Hin.
  - intro Hp. unfold cstep in E. simpl in E.
    destruct (pc c) as [|[]| |[]| | | | |[]| | |]; simpl in E, Hp; try discriminate;
      repeat match type of E with
             | context [match ?x with _ => _ end] => destruct x eqn:?; simpl in E
             end; try discriminate; inv_some; simpl in Hin;
      repeat (destruct Hin as [Hin|Hin]; try discriminate); try contradiction; auto.
Qed.
Example disconnected_after_drain_repaired_nontrivial :
  let c := run repaired_all false (init P_d [Recv false; Recv false]) (sched_d ++ [0]) in
  pc c = RCkD /\ buf (sh c) = [item_a] /\
  outs (sh (run repaired_all false c [0; 0; 2; 0; 0; 0; 0])) = [Returned item_a; Raised DisconnectedError].
Proof. vm_compute. repeat split. Qed.

(* once the connection has ended for good every pending and every later call terminates,
   under any schedule that gives the application task enough turns (every fair one) *)
Theorem no_hang P C c sched : mreach repaired_all (init P C) c -> after_final c ->
  7 * List.length (cscript c) <= turns sched ->
  pc (run repaired_all false c sched) = CDone.
Proof. intros. apply (no_hang_repaired_fair repaired_all P C); auto. Qed.
Example no_hang_nontrivial :
  let c := run repaired_all false (init P_g [Recv false; Recv true]) (sched_g_thread ++ [2]) in
  after_final c /\ pc c = RIW WNotified /\
  outs (sh (run repaired_all false c [1; 0; 2; 0; 0; 1; 0; 0; 0; 0; 3; 0; 0; 0; 0; 0; 0])) =
    [Raised DisconnectedError; Raised DisconnectedError].
Proof. vm_compute. repeat split. Qed.
