(* C18_transparent: the development-mode wrappers of Admin/Wrappers.v are invisible to the
   application: same state, same result, same effects after projecting away the packets queued
   for admin transports - provided the members of the admin namespace are admin clients and the
   report at hand can be encoded. *)
From VT Require Import Server.StepLemmas Admin.Wrappers.
Open Scope N_scope.

(* ------------------------------------------------------------------ *)
(* small facts                                                         *)
(* ------------------------------------------------------------------ *)
Lemma aget_aset_other_str {V} (l : list (str * V)) k k' v :
  k <> k' -> aget str_eqb (aset str_eqb l k v) k' = aget str_eqb l k'.
Proof.
  intro Hne. induction l as [|[x y] l IH]; cbn [aset aget].
  - destruct (str_eqb k k') eqn:E; [apply str_eqb_eq in E; contradiction|reflexivity].
  - destruct (str_eqb x k) eqn:E1; cbn [aget].
    + apply str_eqb_eq in E1. subst x.
      destruct (str_eqb k k') eqn:E2; [apply str_eqb_eq in E2; contradiction|reflexivity].
    + destruct (str_eqb x k'); [reflexivity|exact IH].
Qed.

Lemma skipped_none sid : skipped (skip_list PNone) sid = false.
Proof. reflexivity. Qed.

(* [keeps_rooms m]: m never changes manager.rooms *)
Definition keeps_rooms {T} (m : SM T) : Prop :=
  forall s, rooms (mg (fst (fst (m s)))) = rooms (mg s).

Lemma kr_ret {T} (a : T) : keeps_rooms (ret a). Proof. intro s; reflexivity. Qed.
Lemma kr_lift {T} (r : Res T) : keeps_rooms (lift r). Proof. intro s; reflexivity. Qed.
Lemma kr_tell e : keeps_rooms (tell e : SM unit). Proof. intro s; reflexivity. Qed.
Lemma kr_getS : keeps_rooms (getS : SM srv). Proof. intro s; reflexivity. Qed.
Lemma kr_bind {T U} (m : SM T) (k : T -> SM U) :
  keeps_rooms m -> (forall a, keeps_rooms (k a)) -> keeps_rooms (bindM m k).
Proof.
  intros Hm Hk s. unfold bindM. specialize (Hm s).
  destruct (m s) as [[s1 e1] [a|x]]; cbn [fst snd] in *; [|exact Hm].
  specialize (Hk a s1). destruct (k a s1) as [[s2 e2] r]. cbn [fst snd] in *. congruence.
Qed.
Lemma kr_forM {T} (l : list T) (f : T -> SM unit) :
  (forall x, keeps_rooms (f x)) -> keeps_rooms (forM l f).
Proof.
  intro Hf. induction l as [|x l IH]; cbn [forM]; [apply kr_ret|].
  apply kr_bind; [apply Hf|intros _; exact IH].
Qed.
Lemma kr_send_pieces eio pieces : keeps_rooms (send_pieces eio pieces).
Proof. intro s. rewrite send_pieces_eq. reflexivity. Qed.
Lemma kr_send_packet c eio t data ns id : keeps_rooms (send_packet c eio t data ns id).
Proof.
  intro s. destruct eio as [e|]; [rewrite send_packet_spec|rewrite send_packet_none]; reflexivity.
Qed.
Lemma kr_ack_id sid cb : keeps_rooms (with_mg (fun m => generate_ack_id m sid cb)).
Proof.
  intro s. rewrite with_mg_eq. cbn [fst snd upd_mg mg]. unfold generate_ack_id.
  destruct (cb_counter _); reflexivity.
Qed.

Lemma kr_mgr_emit c ev data ns room skip cb : keeps_rooms (mgr_emit c ev data ns room skip cb).
Proof.
  unfold mgr_emit. apply kr_bind; [apply kr_getS|]. intro s0.
  destruct (ns_rooms (mg s0) ns); [|apply kr_ret].
  destruct cb as [cbref|].
  - apply kr_bind; [apply kr_lift|]. intro parts. apply kr_forM. intro se.
    destruct (skipped _ _); [apply kr_ret|].
    apply kr_bind; [apply kr_ack_id|]. intro rr.
    apply kr_bind; [apply kr_lift|]. intro id. apply kr_send_packet.
  - apply kr_bind; [apply kr_lift|]. intro p.
    apply kr_bind; [apply kr_lift|]. intro enc.
    apply kr_bind; [apply kr_lift|]. intro parts. apply kr_forM. intro se.
    destruct (skipped _ _); [apply kr_ret|apply kr_send_pieces].
Qed.

Section Proofs.
  Variable c : cfg.
  Variable adm : str.
  Variable stamp : pv.
  Variable serialize : str -> str -> pv.
  Variable A : list str.

  Notation admin_emit := (admin_emit c adm).
  Notation proj := (proj A).
  Notation adm_isolated := (adm_isolated adm A).
  Notation noise := (noise A).
  Notation transparent := (transparent A).
  Notation encodable := (encodable c adm).

  Lemma proj_app a b : proj (a ++ b) = proj a ++ proj b.
  Proof. unfold Wrappers.proj. apply filter_app. Qed.

  Lemma isolated_rooms s s' : rooms (mg s') = rooms (mg s) -> adm_isolated s -> adm_isolated s'.
  Proof.
    intros E H b sid eio Hb Hin. apply (H b sid eio); [|exact Hin].
    unfold room_of, ns_rooms in *. rewrite <- E. exact Hb.
  Qed.

  Lemma proj_outs_admin eio pieces :
    existsb (str_eqb eio) A = true -> proj (map (Out eio) pieces) = [].
  Proof.
    intro Ha. induction pieces as [|p ps IHp]; [reflexivity|].
    cbn [map Wrappers.proj filter to_admin]. rewrite Ha. cbn [negb]. exact IHp.
  Qed.

  (* ---- the admin broadcast is noise ---- *)
  Lemma send_to_admins pieces (parts : bidict) s :
    (forall sid eio, In (sid, eio) parts -> existsb (str_eqb eio) A = true) ->
    exists effs,
      forM parts (fun se => if skipped (skip_list PNone) (fst se) then ret tt
                            else send_pieces (snd se) pieces) s = (s, effs, Ok tt)
      /\ proj effs = [].
  Proof.
    induction parts as [|[sid eio] parts IH]; intro HA.
    - exists []. split; reflexivity.
    - destruct IH as [effs [E P]]; [intros; apply (HA sid0 eio0); right; assumption|].
      cbn [forM fst snd]. rewrite skipped_none.
      exists ((if is_live s eio then map (Out eio) pieces else []) ++ effs). split.
      + erewrite bindM_ok by apply send_pieces_eq. rewrite E. reflexivity.
      + rewrite proj_app, P, app_nil_r.
        destruct (is_live s eio); [|reflexivity].
        apply proj_outs_admin. apply (HA sid eio). left. reflexivity.
  Qed.

  Lemma admin_emit_noise ev data : encodable ev data -> noise adm_isolated (admin_emit ev data).
  Proof.
    intros (p & pieces & Hp & He) s HJ. unfold Wrappers.admin_emit, mgr_emit.
    rewrite bindM_getS.
    destruct (ns_rooms (mg s) adm) as [rm|] eqn:Ens.
    - rewrite Hp, bindM_lift_ok, He, bindM_lift_ok. cbn [participants]. rewrite bindM_lift_ok.
      apply send_to_admins. intros sid eio Hin.
      destruct (room_of (mg s) adm PNone) as [b|] eqn:Eb; [|destruct Hin].
      apply (HJ b sid eio Eb Hin).
    - exists []. split; reflexivity.
  Qed.

  Lemma noise_ret (J : srv -> Prop) : noise J (ret tt).
  Proof. intros s _. exists []. split; reflexivity. Qed.

  Lemma noise_forM {T} (J : srv -> Prop) (l : list T) (f : T -> SM unit) :
    (forall x, noise J (f x)) -> noise J (forM l f).
  Proof.
    intros Hf s HJ. induction l as [|x l IH].
    - exists []. split; reflexivity.
    - destruct (Hf x s HJ) as [e1 [E1 P1]]. destruct IH as [e2 [E2 P2]].
      exists (e1 ++ e2). cbn [forM]. split.
      + erewrite bindM_ok by exact E1. rewrite E2. reflexivity.
      + rewrite proj_app, P1, P2. reflexivity.
  Qed.

  (* ---- composition ---- *)
  Lemma transp_refl {T} (J : srv -> Prop) (m : SM T) : transparent J m m.
  Proof. intros s _. auto. Qed.

  Lemma transp_before {T} (J : srv -> Prop) n (m : SM T) : noise J n -> transparent J m (before n m).
  Proof.
    intros Hn s HJ. destruct (Hn s HJ) as [e [E P]]. unfold before.
    erewrite bindM_ok by exact E. cbn [fst snd]. rewrite proj_app, P. auto.
  Qed.

  Lemma transp_after {T} (J J' : srv -> Prop) n (m : SM T) :
    (forall s, J s -> J' (fst (fst (m s)))) -> noise J' n -> transparent J m (after m n).
  Proof.
    intros Hpres Hn s HJ. unfold after.
    destruct (m s) as [[s1 e1] [a|x]] eqn:Em.
    - specialize (Hpres s HJ). rewrite Em in Hpres. cbn [fst] in Hpres.
      destruct (Hn s1 Hpres) as [e [E P]].
      erewrite bindM_ok by exact Em. erewrite bindM_ok by exact E.
      cbn [fst snd ret]. rewrite !proj_app, P, !app_nil_r. auto.
    - erewrite bindM_err by exact Em. auto.
  Qed.

  Lemma transp_bind {T U} (J : srv -> Prop) (m m' : SM T) (k k' : T -> SM U) :
    transparent J m m' -> (forall s, J s -> J (fst (fst (m s)))) ->
    (forall a, transparent J (k a) (k' a)) ->
    transparent J (bindM m k) (bindM m' k').
  Proof.
    intros Hm Hpres Hk s HJ. destruct (Hm s HJ) as (Es & Er & Ep). specialize (Hpres s HJ).
    unfold bindM.
    destruct (m s) as [[s1 e1] r1]; destruct (m' s) as [[s2 e2] r2]. cbn [fst snd] in *. subst s2 r2.
    destruct r1 as [a|x]; cbn [fst snd]; [|auto].
    destruct (Hk a s1 Hpres) as (Es' & Er' & Ep').
    destruct (k a s1) as [[s3 e3] r3]; destruct (k' a s1) as [[s4 e4] r4]. cbn [fst snd] in *.
    rewrite !proj_app. subst. rewrite Ep, Ep'. auto.
  Qed.

  (* ---- the four wrappers ---- *)
  Notation w_trigger_event := (w_trigger_event c adm stamp serialize).
  Notation trigger_report := (trigger_report stamp serialize).

  Theorem trigger_event_transparent ev ns args :
    encodable (fst (trigger_report ev ns args)) (snd (trigger_report ev ns args)) ->
    transparent adm_isolated (trigger_event c ev ns args) (w_trigger_event ev ns args).
  Proof. intro He. apply transp_before. apply admin_emit_noise. exact He. Qed.

  Lemma room_report_noise name sid ns room :
    (truthy room = true -> encodable (s2l name) (PTuple [PStr ns; room; PStr sid; stamp])) ->
    noise adm_isolated (room_report c adm stamp name sid ns room).
  Proof.
    intro He. unfold room_report. destruct (truthy room); [|apply noise_ret].
    apply admin_emit_noise. auto.
  Qed.

  Theorem leave_room_transparent sid ns room :
    (truthy room = true -> encodable (s2l "room_left") (PTuple [PStr ns; room; PStr sid; stamp])) ->
    transparent adm_isolated (m_leave_room sid ns room) (w_leave_room c adm stamp sid ns room).
  Proof. intro He. apply transp_before. apply room_report_noise. exact He. Qed.

  Lemma enter_room_keeps_other m sid ns room :
    ns <> adm -> room_of (fst (enter_room m sid ns room)) adm PNone = room_of m adm PNone.
  Proof.
    intro Hne. unfold enter_room.
    destruct (ns_rooms m ns) as [rm|]; [|reflexivity].
    destruct (match aget room_eqb rm PNone with Some b0 => bd_get b0 sid | None => None end);
      [|reflexivity].
    destruct (bd_put _ sid s); cbn [fst]; unfold room_of, ns_rooms, set_rooms; cbn [rooms];
      rewrite aget_aset_other_str by exact Hne; reflexivity.
  Qed.

  Theorem enter_room_transparent sid ns room :
    ns <> adm ->
    (truthy room = true -> encodable (s2l "room_joined") (PTuple [PStr ns; room; PStr sid; stamp])) ->
    transparent adm_isolated (m_enter_room sid ns room) (w_enter_room c adm stamp sid ns room).
  Proof.
    intros Hne He. apply (transp_after adm_isolated adm_isolated).
    - intros s HJ. unfold m_enter_room.
      erewrite bindM_ok by apply with_mg_eq. cbn [fst snd lift].
      intros b sid0 eio Hb Hin. apply (HJ b sid0 eio); [|exact Hin].
      cbn [upd_mg mg] in Hb. rewrite enter_room_keeps_other in Hb by exact Hne. exact Hb.
    - apply room_report_noise. exact He.
  Qed.

  Lemma participants_total m ns room :
    room_shape_ok room = true -> exists parts, participants m ns room = Ok parts.
  Proof.
    destruct room as [| | | | | |l|l| |]; try discriminate; try (intros _; eexists; reflexivity);
      destruct l; try discriminate; intros _; eexists; reflexivity.
  Qed.

  Theorem mgr_emit_transparent ev data ns room skip cb :
    room_shape_ok room = true ->
    (forall sid, encodable (s2l "event_sent") (PTuple [PStr ns; PStr sid; event_data ev data; stamp])) ->
    transparent adm_isolated (mgr_emit c ev data ns room skip cb)
                             (w_mgr_emit c adm stamp ev data ns room skip cb).
  Proof.
    intros Hshape He. apply (transp_after adm_isolated adm_isolated).
    - intros s HJ. eapply isolated_rooms; [apply kr_mgr_emit|exact HJ].
    - intros s HJ. unfold sent_report.
      destruct (str_eqb ns adm); [apply (noise_ret adm_isolated); exact HJ|].
      rewrite bindM_getS.
      destruct (participants_total (mg s) ns room Hshape) as [parts Hp]. rewrite Hp, bindM_lift_ok.
      apply (noise_forM adm_isolated); [|exact HJ]. intro se.
      destruct (skipped _ _); [apply noise_ret|apply admin_emit_noise; apply He].
  Qed.

  (* C18_transparent, one statement *)
  Theorem wrappers_transparent :
    (forall ev ns args,
        encodable (fst (trigger_report ev ns args)) (snd (trigger_report ev ns args)) ->
        transparent adm_isolated (trigger_event c ev ns args) (w_trigger_event ev ns args)) /\
    (forall sid ns room,
        ns <> adm ->
        (truthy room = true -> encodable (s2l "room_joined") (PTuple [PStr ns; room; PStr sid; stamp])) ->
        transparent adm_isolated (m_enter_room sid ns room) (w_enter_room c adm stamp sid ns room)) /\
    (forall sid ns room,
        (truthy room = true -> encodable (s2l "room_left") (PTuple [PStr ns; room; PStr sid; stamp])) ->
        transparent adm_isolated (m_leave_room sid ns room) (w_leave_room c adm stamp sid ns room)) /\
    (forall ev data ns room skip cb,
        room_shape_ok room = true ->
        (forall sid, encodable (s2l "event_sent") (PTuple [PStr ns; PStr sid; event_data ev data; stamp])) ->
        transparent adm_isolated (mgr_emit c ev data ns room skip cb)
                                 (w_mgr_emit c adm stamp ev data ns room skip cb)).
  Proof.
    split; [|split; [|split]].
    - apply trigger_event_transparent.
    - apply enter_room_transparent.
    - apply leave_room_transparent.
    - apply mgr_emit_transparent.
  Qed.
End Proofs.

(* ------------------------------------------------------------------ *)
(* the exclusion in mgr_emit_transparent is necessary (FINDING, see notes/C18.md):           *)
(* emit(room=[]) to a namespace nobody is connected to returns on the plain server and        *)
(* raises IndexError on the instrumented one                                                  *)
(* ------------------------------------------------------------------ *)
Definition ex_cfg : cfg := mkCfg [] [] [] None false true.
Definition ex_adm : str := s2l "/admin".

Theorem emit_empty_room_list_refuted :
  exists s ev data ns skip,
    snd (mgr_emit ex_cfg ev data ns (PList []) skip None s) = Ok tt /\
    snd (w_mgr_emit ex_cfg ex_adm PNone ev data ns (PList []) skip None s) = Err IndexError.
Proof.
  exists srv_init, (PStr (s2l "x")), (PInt 1), (s2l "/nobody"), PNone.
  split; vm_compute; reflexivity.
Qed.

(* ---- the hypotheses are satisfiable by a non-trivial state: one application client, one
   admin client, an application emit is reported to the admin and invisible after projection ---- *)
Definition ex_state : srv :=
  let m0 := fst (mgr_connect mgr_init (s2l "e0") (s2l "/") (s2l "S0")) in
  let m1 := fst (mgr_connect m0 (s2l "e9") ex_adm (s2l "A0")) in
  mkSrv m1 [] [] [] [s2l "e0"; s2l "e9"] 2.

Example ex_isolated : adm_isolated ex_adm [s2l "e9"] ex_state.
Proof.
  intros b sid eio Hb Hin. vm_compute in Hb. inversion Hb; subst b.
  destruct Hin as [H|[]]. inversion H; subst. reflexivity.
Qed.
Example ex_encodable :
  encodable ex_cfg ex_adm (s2l "event_sent")
            (PTuple [PStr (s2l "/"); PStr (s2l "S0"); event_data (PStr (s2l "news")) (PInt 5); PStr (s2l "t")]).
Proof. eexists. eexists. split; [vm_compute; reflexivity|]. vm_compute. reflexivity. Qed.
Example ex_emit_reported_and_invisible :
  let plain := mgr_emit ex_cfg (PStr (s2l "news")) (PInt 5) (s2l "/") PNone PNone None ex_state in
  let instr := w_mgr_emit ex_cfg ex_adm (PStr (s2l "t")) (PStr (s2l "news")) (PInt 5) (s2l "/") PNone PNone None ex_state in
  List.length (snd (fst plain)) = 1%nat /\ List.length (snd (fst instr)) = 2%nat /\
  proj [s2l "e9"] (snd (fst instr)) = snd (fst plain) /\ fst (fst instr) = fst (fst plain).
Proof. vm_compute. repeat split; reflexivity. Qed.

(* events that carry bytes (fixed by 34a4987; was finding binary-event-dropped-while-admin-connected):
   the event_received report now holds the event and its arguments in a LIST, which the packet
   constructor descends into: the report is a BINARY_EVENT with the bytes as attachments, it is
   encodable, the admin receives it, and the application handler runs exactly as on the plain server *)
Definition ex_app_cfg : cfg :=
  mkCfg [(s2l "/", [(s2l "ev", 1)])] [] [(1, mkBehav None [] (Returns (PStr (s2l "ok"))))] None false true.
Definition ex_state2 : srv :=
  let m0 := fst (mgr_connect mgr_init (s2l "e0") (s2l "/") (s2l "S0")) in
  let m1 := fst (mgr_connect m0 (s2l "e9") ex_adm (s2l "A0")) in
  mkSrv m1 [(s2l "e0", PDict [])] [] [] [s2l "e0"; s2l "e9"] 2.
Definition ex_bin_args : list pv := [PStr (s2l "S0"); PBytes [1; 2]; PDict [(PStr (s2l "k"), PList [PBytes [255]])]].
Definition ex_stamp : pv := PStr (s2l "t").
Definition ex_ser : str -> str -> pv := fun _ _ => PNone.

Lemma ex_isolated2 : adm_isolated ex_adm [s2l "e9"] ex_state2.
Proof.
  intros b sid eio Hb Hin. vm_compute in Hb. inversion Hb; subst b.
  destruct Hin as [H|[]]. inversion H; subst. reflexivity.
Qed.

Lemma ex_binary_report_encodable :
  encodable ex_app_cfg ex_adm
    (fst (trigger_report ex_stamp ex_ser (PStr (s2l "ev")) (s2l "/") ex_bin_args))
    (snd (trigger_report ex_stamp ex_ser (PStr (s2l "ev")) (s2l "/") ex_bin_args)).
Proof. eexists. eexists. split; [vm_compute; reflexivity|]. vm_compute. reflexivity. Qed.

Theorem binary_event_delivered :
  (* plain: the handler runs *)
  trigger_event ex_app_cfg (PStr (s2l "ev")) (s2l "/") ex_bin_args ex_state2
    = (ex_state2, [Call 1 ex_bin_args], Ok (Some (PStr (s2l "ok")))) /\
  (* wrapped: same state, same result, same effects for the application ... *)
  transparent [s2l "e9"] (fun s => s = ex_state2)
    (trigger_event ex_app_cfg (PStr (s2l "ev")) (s2l "/") ex_bin_args)
    (w_trigger_event ex_app_cfg ex_adm ex_stamp ex_ser (PStr (s2l "ev")) (s2l "/") ex_bin_args) /\
  (* ... and the admin receives one BINARY_EVENT frame (type 5, two attachments) plus the two attachments *)
  (let effs := snd (fst (w_trigger_event ex_app_cfg ex_adm ex_stamp ex_ser (PStr (s2l "ev")) (s2l "/") ex_bin_args ex_state2)) in
   List.length effs = 4%nat /\
   match effs with
   | Out e (PStr (t :: n :: _)) :: Out _ (PBytes b1) :: Out _ (PBytes b2) :: Call 1 a :: nil =>
       e = s2l "e9" /\ t = 53 /\ n = 50 /\ b1 = [1] ++ [2] /\ b2 = [255] /\ a = ex_bin_args
   | _ => False
   end).
Proof.
  split; [vm_compute; reflexivity|]. split.
  - intros s ->.
    apply (trigger_event_transparent ex_app_cfg ex_adm ex_stamp ex_ser [s2l "e9"] _ _ _ ex_binary_report_encodable).
    apply ex_isolated2.
  - vm_compute. repeat split; reflexivity.
Qed.
