(* Additional dynamic primitives for the output of harness/translator/admin2coq.py
   (on top of Routing/PyRuntime.v, which is reused unchanged).  Definitions only.

   External behaviour is explicit: every generated function takes an [oracle]
     o_call  f args : what calling the configured predicate returns (or raises); for a coroutine
                      function / an object with async __call__ that is a coroutine object
     o_iscoro f     : asyncio.iscoroutinefunction(f)
     o_iscoroutine v, o_await v : asyncio.iscoroutine(v), the result of awaiting v
     o_ext name args: a service of the server object (self.sio.<...>) called AFTER the
                      authentication decision (start_background_task, eio.create_event, ...)
   Nothing is assumed about them here; the theorems carry their premises visibly. *)
From VT Require Export Routing.PyRuntime.
Open Scope N_scope.

Record oracle := mkOracle {
  o_call : pv -> list pv -> Res pv;      (* what CALLING the callable returns / raises (possibly a coroutine object) *)
  o_iscoro : pv -> bool;                 (* asyncio.iscoroutinefunction(f) *)
  o_iscoroutine : pv -> bool;            (* asyncio.iscoroutine(v) *)
  o_await : pv -> Res pv;                (* the result of awaiting the coroutine object v *)
  o_ext : str -> list pv -> Res pv
}.

(* a callable is an opaque object *)
Definition is_callable (f : pv) : bool := match f with PObj _ => true | _ => false end.

(* the token the case oracles use for "a coroutine object": truthy *)
Definition coroutine_object : pv := PObj 4294967295.

(* arguments are evaluated left to right *)
Fixpoint eval_args (l : list (Res pv)) : Res (list pv) :=
  match l with [] => Ok [] | x :: r => v <- x ;; vs <- eval_args r ;; Ok (v :: vs) end.

(* f(args): whatever the call returns; for a coroutine function that is a coroutine object *)
Definition py_call (o : oracle) (f : Res pv) (args : list (Res pv)) : Res pv :=
  g <- f ;;
  a <- eval_args args ;;
  if is_callable g then o_call o g a
  else Err TypeError.                      (* 'dict' / 'str' ... object is not callable *)

(* await v: only coroutine objects are awaitable in this fragment *)
Definition py_await (o : oracle) (v : Res pv) : Res pv :=
  x <- v ;; if o_iscoroutine o x then o_await o x else Err TypeError.

(* await f(args) *)
Definition py_call_await (o : oracle) (f : Res pv) (args : list (Res pv)) : Res pv :=
  py_await o (py_call o f args).

Definition py_iscoroutinefunction (o : oracle) (f : Res pv) : Res pv :=
  g <- f ;; Ok (PBool (is_callable g && o_iscoro o g)).
Definition py_iscoroutine (o : oracle) (v : Res pv) : Res pv :=
  x <- v ;; Ok (PBool (o_iscoroutine o x)).

(* try: body / except Exception: handler.  Every exception of the modelled universe is an Exception
   (BaseException-only conditions such as CancelledError / KeyboardInterrupt are outside it) *)
Definition py_try {T} (body handler : Res T) : Res T :=
  match body with Ok v => Ok v | Err _ => handler end.

Definition py_isinstance_dict (a : Res pv) : Res pv :=
  x <- a ;; Ok (PBool (match x with PDict _ => true | _ => false end)).
Definition py_isinstance_list (a : Res pv) : Res pv :=
  x <- a ;; Ok (PBool (match x with PList _ => true | _ => false end)).

(* a service of the server object, called for its effect or its result *)
Definition py_ext (o : oracle) (name : str) (args : list (Res pv)) : Res pv :=
  a <- eval_args args ;;
  o_ext o name a.

(* a nested [def]: only the function object is created, the body does not run here *)
Definition py_local_function (name : str) : Res pv := Ok (PStr name).

(* a dict display with constant-free content is only needed for [{}] *)
Definition py_empty_dict : Res pv := Ok (PDict []).

(* ---- effect-list translation of instrument() ---- *)
(* one recorded statement of the monkey-patching block *)
Definition item_on (ev handler ns : Res pv) : Res pv :=
  e <- ev ;; h <- handler ;; n <- ns ;; Ok (PTuple [PStr (s2l "on"); e; h; n]).
Definition item_set (target source : str) : Res pv :=
  Ok (PTuple [PStr (s2l "set"); PStr target; PStr source]).
Definition item_call (target : str) (args : list str) : Res pv :=
  Ok (PTuple [PStr (s2l "call"); PStr target; PList (map PStr args)]).
(* a bound method self.<name> used as a handler: identified by its name *)
Definition py_method (name : str) : Res pv := Ok (PStr name).
