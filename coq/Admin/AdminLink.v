(* C18: links between the translated admin code and the server / manager models:
   (1) a refused admin connection leaves no membership (manager and server level, on top of
       Manager/ManagerProofs.v: mgr_connect_spec, mgr_disconnect_spec);
   (2) with the registrations instrument() makes in read-only / production mode, an admin
       request emit / join / leave / _disconnect invokes nothing (Server.handle_event). *)
From VT Require Import Server.StepLemmas Manager.ManagerProofs Admin.AdminSpec.
From Coq Require Import Lia.
Open Scope N_scope.

(* ------------------------------------------------------------------ *)
(* (1) refused => no membership                                        *)
(* ------------------------------------------------------------------ *)
Lemma eio_from_sid_mem m sid ns : eio_from_sid m sid ns = mem m ns PNone sid.
Proof. unfold eio_from_sid, mem. rewrite look_room_of. destruct (room_of m ns PNone); reflexivity. Qed.

Lemma fresh_sid_no_room m sid : WF m -> fresh_sid m sid -> forall ns r, room_ok r -> mem m ns r sid = None.
Proof.
  intros [_ [H3 _]] [_ Hfr] ns r Hr. destruct (mem m ns r sid) as [e|] eqn:E; [|reflexivity].
  apply H3 in E; [|exact Hr]. rewrite Hfr in E. discriminate.
Qed.

(* manager level: connect followed by the disconnect of the refusal path (between the two the
   server may only have touched pending_disconnect: [rooms mmid = rooms m1]) *)
Theorem refused_no_membership_mgr m eio ns sid m1 r mmid :
  WF m -> fresh_sid m sid -> mgr_connect m eio ns sid = (m1, r) ->
  rooms mmid = rooms m1 -> WF mmid ->
  let m2 := mgr_disconnect mmid sid ns in
  WF m2 /\
  (forall ns' rm, room_ok rm -> mem m2 ns' rm sid = None) /\
  eio_from_sid m2 sid ns = None /\
  (forall ns' rm s', room_ok rm -> s' <> sid -> mem m2 ns' rm s' = mem m ns' rm s').
Proof.
  intros HW Hfr Hc Hrooms HWmid m2.
  destruct (mgr_connect_spec m eio ns sid m1 r HW Hfr Hc) as (_ & _ & _ & Hr).
  destruct (mgr_disconnect_spec mmid sid ns HWmid) as (HW2 & Hrem & _ & _).
  fold m2 in HW2, Hrem. unfold rem_eq in Hrem. rewrite (mem_ext _ _ Hrooms) in Hrem.
  assert (Hnone : forall ns' rm, room_ok rm -> mem m2 ns' rm sid = None).
  { intros ns' rm Hrm. rewrite (Hrem ns' rm sid Hrm). rewrite str_eqb_refl, andb_true_r.
    destruct (str_eqb ns ns') eqn:En; [reflexivity|].
    destruct r as [s0|].
    - destruct Hr as (_ & _ & Hm). rewrite (Hm ns' rm sid Hrm), En. cbn [andb].
      apply fresh_sid_no_room; assumption.
    - destruct Hr as [Hs _]. rewrite (Hs ns' rm sid Hrm). apply fresh_sid_no_room; assumption. }
  split; [exact HW2|]. split; [exact Hnone|]. split.
  - rewrite eio_from_sid_mem. apply Hnone. apply room_ok_None.
  - intros ns' rm s' Hrm Hne. rewrite (Hrem ns' rm s' Hrm).
    assert (E : str_eqb sid s' = false).
    { destruct (str_eqb sid s') eqn:E; [|reflexivity]. apply str_eqb_eq in E. congruence. }
    rewrite E, andb_false_r.
    destruct r as [s0|].
    + destruct Hr as (_ & _ & Hm). rewrite (Hm ns' rm s' Hrm), E, andb_false_r. reflexivity.
    + destruct Hr as [Hs _]. apply Hs. exact Hrm.
Qed.

(* server level: the connect handler of the namespace is a three-argument function that raises
   ConnectionRefusedError (what admin_connect does when C18_auth says "refused") *)
Section Refused.
  Variable c : cfg.
  Variable h : N.
  Variable ra : list pv.
  Hypothesis Hna : has_actions c = false.
  Variable ns : str.
  Hypothesis Hh : forall args, get_event_handler c ev_connect ns args = Some (h, args).
  Hypothesis Hb : aget N.eqb (behav c) h = Some (mkBehav (Some 3%nat) [] (RaisesRefused ra)).

  Lemma te3 sid env data s :
    trigger_event c ev_connect ns [sid; env; data] s = (s, [Call h [sid; env; data]], Err ConnectionRefused).
  Proof.
    rewrite trigger_event_pure by exact Hna. unfold te_pure. cbn [is_unhashable ev_connect].
    rewrite Hh. unfold some_res, cwr_pure, ch_pure. rewrite Hb. reflexivity.
  Qed.
  Lemma te2 sid env s :
    trigger_event c ev_connect ns [sid; env] s = (s, [], Err TypeError).
  Proof.
    rewrite trigger_event_pure by exact Hna. unfold te_pure. cbn [is_unhashable ev_connect].
    rewrite Hh. unfold some_res, cwr_pure, ch_pure. rewrite Hb. reflexivity.
  Qed.

  Definition connect_attempt (sid env data : pv) : SM (option pv * pv) :=
    catch
      (r <~ (if truthy data then trigger_event c (PStr (s2l "connect")) ns [sid; env; data]
             else catch (trigger_event c (PStr (s2l "connect")) ns [sid; env])
                        (fun e => match e with
                                  | TypeError => Some (trigger_event c (PStr (s2l "connect")) ns [sid; env; PNone])
                                  | _ => None end)) ;;
       ret (r, error_args []))
      (fun e => match e with
                | ConnectionRefused =>
                    Some (ret (Some (PBool false), error_args (refusal_args c (connect_hid c ns))))
                | _ => None end).

  Lemma connect_attempt_refused sid env data s :
    exists effs, connect_attempt sid env data s =
                 (s, effs, Ok (Some (PBool false), error_args (refusal_args c (connect_hid c ns)))).
  Proof.
    unfold connect_attempt. change (PStr (s2l "connect")) with ev_connect.
    destruct (truthy data).
    - unfold catch, bindM. rewrite te3. eexists. reflexivity.
    - unfold catch, bindM. rewrite te2. rewrite te3. eexists. reflexivity.
  Qed.

  Lemma refused s eio pns data env :
    ns_or_default pns = ns -> served c ns = true ->
    aget str_eqb (environ s) eio = Some env ->
    (always_connect c = true ->
     exists fr, frames_of c CONNECT (sid_dict (sid_name (fresh s))) ns None = Ok fr) ->
    forall m1, mgr_connect (mg s) eio ns (sid_name (fresh s)) = (m1, Some (sid_name (fresh s))) ->
    exists mmid, rooms mmid = rooms m1 /\ (WF m1 -> WF mmid) /\
      mg (fst (fst (handle_connect c eio pns data s))) = mgr_disconnect mmid (sid_name (fresh s)) ns.
  Proof.
    intros Hns Hs Henv Hac m1 Hc. unfold handle_connect. rewrite Hns.
    rewrite bindM_getS. rewrite Hs.
    set (sid := sid_name (fresh s)) in *.
    set (s0 := mkSrv (mg s) (environ s) (binpkt s) (sessions s) (live s) (fresh s + 1)).
    set (s1 := upd_mg s0 m1).
    erewrite bindM_ok.
    2: { rewrite bindM_putS. rewrite with_mg_eq. fold s0. cbn [mg s0]. rewrite Hc. reflexivity. }
    cbn [fst snd]. fold s1. rewrite Henv.
    assert (H0 : exists e0, (if always_connect c then send_packet c (Some eio) CONNECT (sid_dict sid) ns None else ret tt) s1
                            = (s1, e0, Ok tt)).
    { destruct (always_connect c); [|eexists; reflexivity].
      destruct (Hac eq_refl) as [fr Hfr]. rewrite send_packet_spec, Hfr. eexists. reflexivity. }
    destruct H0 as [e0 H0]. erewrite bindM_ok by exact H0. cbn [fst snd].
    rewrite bindM_ret.
    change (catch _ _) with (connect_attempt (PStr sid) env data).
    destruct (connect_attempt_refused (PStr sid) env data s1) as [e1 H1].
    erewrite bindM_ok by exact H1. cbn [fst snd pv_eqb Bool.eqb].
    unfold finallyM.
    destruct (always_connect c).
    - erewrite bindM_ok by apply with_mg_eq. cbn [fst snd].
      set (s2 := upd_mg s1 (fst (pre_disconnect (mg s1) sid ns))).
      exists (mg s2). split; [apply rooms_pre_disconnect|]. split; [apply pre_disconnect_wf|].
      destruct (snd (pre_disconnect (mg s1) sid ns)) as [oe|x].
      + rewrite bindM_lift_ok. rewrite send_packet_spec. rewrite set_mg_eq.
        destruct (sp_res _); reflexivity.
      + rewrite bindM_lift_err. rewrite set_mg_eq. reflexivity.
    - exists m1. split; [reflexivity|]. split; [auto|].
      rewrite send_packet_spec. rewrite set_mg_eq. destruct (sp_res _); reflexivity.
  Qed.

  Theorem refused_connect_no_membership s eio pns data env :
    ns_or_default pns = ns -> served c ns = true ->
    aget str_eqb (environ s) eio = Some env ->
    (always_connect c = true ->
     exists fr, frames_of c CONNECT (sid_dict (sid_name (fresh s))) ns None = Ok fr) ->
    WF (mg s) -> fresh_sid (mg s) (sid_name (fresh s)) ->
    let s' := fst (fst (handle_connect c eio pns data s)) in
    let sid := sid_name (fresh s) in
    WF (mg s') /\
    (forall ns' rm, room_ok rm -> mem (mg s') ns' rm sid = None) /\
    eio_from_sid (mg s') sid ns = None /\
    (forall ns' rm s0, room_ok rm -> s0 <> sid -> mem (mg s') ns' rm s0 = mem (mg s) ns' rm s0).
  Proof.
    intros Hns Hs Henv Hac HW Hfr s' sid.
    destruct (mgr_connect (mg s) eio ns sid) as [m1 r] eqn:Hc.
    destruct (mgr_connect_spec _ _ _ _ _ _ HW Hfr Hc) as (HW1 & _ & _ & Hr).
    destruct r as [s0|].
    - destruct Hr as (-> & _ & _).
      destruct (refused s eio pns data env Hns Hs Henv Hac m1 Hc) as (mmid & Hrooms & Hwf & Hmg).
      subst s'. rewrite Hmg.
      apply (refused_no_membership_mgr (mg s) eio ns sid m1 (Some sid) mmid); auto.
    - (* the transport already has a session in this namespace: CONNECT_ERROR, nothing else *)
      destruct Hr as [Hsame _].
      assert (Hmg : mg s' = m1).
      { subst s'. unfold handle_connect. rewrite Hns, bindM_getS, Hs. fold sid.
        erewrite bindM_ok.
        2: { rewrite bindM_putS, with_mg_eq. cbn [mg]. rewrite Hc. reflexivity. }
        cbn [fst snd]. rewrite send_packet_spec. reflexivity. }
      rewrite Hmg. split; [exact HW1|].
      assert (Hnone : forall ns' rm, room_ok rm -> mem m1 ns' rm sid = None).
      { intros ns' rm Hrm. rewrite (Hsame ns' rm sid Hrm). apply fresh_sid_no_room; assumption. }
      split; [exact Hnone|]. split.
      + rewrite eio_from_sid_mem. apply Hnone. apply room_ok_None.
      + intros ns' rm s0 Hrm _. apply Hsame. exact Hrm.
  Qed.
End Refused.

(* ---- the hypotheses are satisfiable: an instrumented server whose admin_connect refuses ---- *)
Definition ex_adm : str := s2l "/admin".
Definition ex_srv_cfg (out : outcome) : cfg :=
  mkCfg [(ex_adm, [(s2l "connect", 1)])] [] [(1, mkBehav (Some 3%nat) [] out)] (Some [s2l "/"]) false true.
Definition ex_srv : srv := mkSrv mgr_init [(s2l "e0", PDict [])] [] [] [s2l "e0"] 0.
Definition ex_refusal : outcome := RaisesRefused [PStr (s2l "authentication failed")].

Example ex_refused_run :
  let '(s', effs, r) := handle_connect (ex_srv_cfg ex_refusal) (s2l "e0") (Some ex_adm) (PDict []) ex_srv in
  rooms (mg s') = [] /\ r = Ok tt /\
  effs = [Call 1 [PStr (s2l "S0"); PDict []; PNone];
          Out (s2l "e0") (PStr (s2l "4/admin,{""message"":""authentication failed""}"))].
Proof. vm_compute. repeat split; reflexivity. Qed.

(* every hypothesis of refused_connect_no_membership holds of that server and request *)
Example ex_refused_hypotheses :
  has_actions (ex_srv_cfg ex_refusal) = false /\
  (forall args, get_event_handler (ex_srv_cfg ex_refusal) ev_connect ex_adm args = Some (1, args)) /\
  served (ex_srv_cfg ex_refusal) ex_adm = true /\
  WF (mg ex_srv) /\ fresh_sid (mg ex_srv) (sid_name (fresh ex_srv)) /\
  eio_from_sid (mg (fst (fst (handle_connect (ex_srv_cfg ex_refusal) (s2l "e0") (Some ex_adm) (PDict []) ex_srv))))
               (sid_name (fresh ex_srv)) ex_adm = None.
Proof.
  split; [reflexivity|]. split; [intro args; reflexivity|]. split; [reflexivity|].
  split; [apply WF_init|]. split; [split; [discriminate|reflexivity]|].
  apply (refused_connect_no_membership (ex_srv_cfg ex_refusal) 1 [PStr (s2l "authentication failed")] eq_refl ex_adm
           (fun args => eq_refl) eq_refl ex_srv (s2l "e0") (Some ex_adm) (PDict []) (PDict [])
           eq_refl eq_refl eq_refl).
  - discriminate.
  - apply WF_init.
  - split; [discriminate|reflexivity].
Qed.

(* FINDING (notes/C18.md): when the connect handler ends with any OTHER exception (which is what
   admin_connect does when the configured predicate raises, auth_predicate_exception_not_refused),
   the membership created by manager.connect stays, and no answer is sent *)
Theorem nonrefusal_exception_keeps_membership :
  exists c s eio ns data sid,
    let '(s', effs, r) := handle_connect c eio (Some ns) data s in
    r = Err KeyError /\ eio_from_sid (mg s') sid ns = Some eio /\
    is_connected (mg s') (Some sid) ns = true /\
    (forall e p, In (Out e p) effs -> False).
Proof.
  exists (ex_srv_cfg (Raises KeyError)), ex_srv, (s2l "e0"), ex_adm, (PDict []), (s2l "S0").
  vm_compute. repeat split; try reflexivity.
  intros e p [H|[]]. discriminate.
Qed.

(* ------------------------------------------------------------------ *)
(* (2) read-only / production: modifying admin requests invoke nothing *)
(* ------------------------------------------------------------------ *)
(* the function-handler table the recorded self.sio.on(...) calls create for the admin namespace *)
Fixpoint reg_table_from (regs : list pv) (i : N) : list (str * N) :=
  match regs with
  | [] => []
  | it :: r => match on_event it with
               | Some ev => (ev, i) :: reg_table_from r (i + 1)
               | None => reg_table_from r (i + 1)
               end
  end.
Definition reg_table (regs : list pv) : list (str * N) := reg_table_from regs 1.
(* the application's configuration plus the admin namespace's handlers *)
Definition with_admin (adm : str) (regs : list pv) (app : cfg) : cfg :=
  mkCfg ((adm, reg_table regs) :: handlers app) (ns_handlers app) (behav app) (namespaces app)
        (always_connect app) (uses_binary app).

Lemma write_event_cases ev : is_write_event ev = true ->
  ev = s2l "emit" \/ ev = s2l "join" \/ ev = s2l "leave" \/ ev = s2l "_disconnect".
Proof.
  unfold is_write_event, write_events. cbn [existsb]. rewrite !orb_true_iff.
  intros [H|[H|[H|[H|H]]]]; try discriminate; apply str_eqb_eq in H; auto.
Qed.

Theorem read_only_requests_invoke_nothing c adm app items eio pns id ev args s :
  registrations items = spec_registrations c -> writable c = false ->
  ns_or_default pns = adm -> adm <> star ->
  aget str_eqb (handlers app) star = None ->
  aget str_eqb (ns_handlers app) adm = None -> aget str_eqb (ns_handlers app) star = None ->
  is_write_event ev = true ->
  handle_event (with_admin adm (registrations items) app) eio pns id (PList (PStr ev :: args)) s
  = (s, [], Ok tt).
Proof.
  intros Hreg W Hns Hstar Happ Hn1 Hn2 Hev.
  rewrite Hreg. unfold spec_registrations. rewrite W.
  assert (Hte : forall a s1, trigger_event (with_admin adm [on_item "connect" "admin_connect" (a_ns c)] app)
                                           (PStr ev) adm a s1 = (s1, [], Ok None)).
  { intros a s1. unfold trigger_event. cbn [is_unhashable].
    assert (Hg : get_event_handler (with_admin adm [on_item "connect" "admin_connect" (a_ns c)] app) (PStr ev) adm a = None).
    { unfold get_event_handler, with_admin. cbn [handlers aget]. rewrite str_eqb_refl.
      assert (Hs : str_eqb adm star = false).
      { destruct (str_eqb adm star) eqn:E; [apply str_eqb_eq in E; contradiction|reflexivity]. }
      rewrite Hs, Happ.
      destruct (write_event_cases ev Hev) as [E|[E|[E|E]]]; rewrite E; reflexivity. }
    rewrite Hg. unfold get_namespace_handler, with_admin. cbn [ns_handlers]. rewrite Hn1, Hn2. reflexivity. }
  unfold handle_event. rewrite Hns, bindM_getS. cbn [split_event]. rewrite bindM_lift_ok.
  destruct (negb (is_connected _ _ _)); [reflexivity|].
  destruct (sid_from_eio _ _ _) as [sid|]; [|reflexivity].
  erewrite bindM_ok by apply Hte. cbn [fst snd]. reflexivity.
Qed.

(* and in development mode without read_only the same request does reach its handler *)
Example ex_writable_request_is_routed :
  get_event_handler
    (with_admin ex_adm (spec_registrations (mkACfg (PBool false) (PBool false) (PStr (s2l "development")) (PStr ex_adm)))
                (mkCfg [] [] [] None false true))
    (PStr (s2l "emit")) ex_adm [PStr (s2l "A0")] = Some (2, [PStr (s2l "A0")]).
Proof. vm_compute. reflexivity. Qed.
