(* C18: evaluation of the harness cases against the GENERATED functions (translator validation
   and correspondence bit).  Rebuilt on every run together with Admin/Gen_admin.v. *)
From VT Require Export Check.C18Check.
From VT Require Import Admin.Gen_admin.
Open Scope N_scope.

Definition gen_connect (is_async : bool) (o : oracle) (self sid env a : pv) : Res pv :=
  if is_async then InstrumentedAsyncServer_admin_connect o self sid env a
  else InstrumentedServer_admin_connect o self sid env a.
Definition gen_instrument (is_async : bool) (self : pv) : Res (list pv) :=
  if is_async then InstrumentedAsyncServer_instrument self else InstrumentedServer_instrument self.
Definition gen_refusal (is_async : bool) : list pv :=
  if is_async then InstrumentedAsyncServer_admin_connect_refusal else InstrumentedServer_admin_connect_refusal.

Definition gen_decision is_async cfg a call iscoro awaited : Res pv :=
  gen_connect is_async (case_oracle call iscoro awaited) (mk_admin_self cfg) (PStr (s2l "sid")) (PDict []) a.
Definition tv_gen_ok is_async cfg a call iscoro awaited (observed : Res pv) : bool :=
  res_eqb pv_eqb (gen_decision is_async cfg a call iscoro awaited) observed.

Definition iv_gen_ok (is_async : bool) (cfg : acfg) (events : list str) (patched : bool) : bool :=
  match gen_instrument is_async (mk_admin_self cfg) with
  | Ok items => list_eqb (opt_eqb str_eqb) (map on_event (registrations items)) (map Some events)
                && Bool.eqb patched (patches_app_path items)
  | Err _ => false
  end.

(* bit 1 = the real class departs from the generated functions (under the server model for CN),
   bit 2 = the real class violates the hand-written specification *)
Definition c18_eval (k : c18case) : nat :=
  match k with
  | TV is_async cfg a call iscoro awaited observed =>
      bits (tv_gen_ok is_async cfg a call iscoro awaited observed)
           (tv_spec_ok is_async cfg a call iscoro awaited observed)
  | IV is_async cfg events patched =>
      bits (iv_gen_ok is_async cfg events patched) (iv_spec_ok cfg events patched)
  | CN is_async always cfg data call iscoro awaited answers member =>
      bits (cn_model_ok (error_args (gen_refusal is_async)) always
                        (gen_decision is_async cfg (effective_auth data) call iscoro awaited) answers member)
           (cn_prop_ok always (cn_decision is_async cfg data call iscoro awaited) answers member)
  | _ => c18_eval_spec k
  end.
