(* C18, translated part: theorems over the regenerated text of Admin/Gen_admin.v
   (admin_connect of both classes, registration block of instrument()).
   Proof style as in Routing/RoutingProofs.v: unfold the generated function, rewrite the
   attribute reads, normalise with a whitelisted cbn, destruct whatever scrutinee the goal
   shows (no positional names, no goal counts), so that semantics-preserving rewrites of the
   Python still prove. *)
From VT Require Import Admin.AdminSpec Admin.Gen_admin.
Open Scope N_scope.

(* ------------------------------------------------------------------ *)
(* tactics                                                            *)
(* ------------------------------------------------------------------ *)
Ltac admin_prep := unfold py_not_in, py_is_not_none, py_ne_op.
Ltac admin_cbn :=
  cbn [bind py_truthy py_isinstance_dict py_isinstance_list py_eq_op py_in py_not py_and py_or
       py_call py_call_await py_await py_iscoroutine py_try py_iscoroutinefunction is_callable
       contains_v truthy negb andb orb
       eval_args py_local_function py_ext py_is_none py_empty_dict
       item_on item_set item_call py_method app].
Ltac admin_getattr :=
  rewrite ?getattr_auth, ?getattr_read_only, ?getattr_mode, ?getattr_admin_namespace.
(* any other attribute of self: a method of the class (computed: the names are literals) *)
Ltac getattr_class_step :=
  match goal with
  | |- context [py_getattr ?cls (Ok (mk_admin_self ?c)) ?n] =>
      let t := constr:(py_getattr cls (Ok (mk_admin_self c)) n) in
      let r := eval vm_compute in t in change t with r
  end.
(* a service called after the decision returns some value *)
Ltac ext_step H :=
  match goal with
  | |- context [o_ext ?o ?n ?a] =>
      let v := fresh "v" in let Hv := fresh "Hv" in destruct (H n a) as [v Hv]; rewrite Hv; clear Hv
  end.
Ltac case_step :=
  match goal with
  | |- context [match ?x with _ => _ end] =>
      lazymatch x with
      | context [o_ext] => fail
      | _ => let E := fresh "E" in destruct x eqn:E
      end
  end.
(* what the oracle answers (closed applications only, innermost first by construction) *)
Ltac oracle_step :=
  match goal with
  | |- context [o_call ?o ?f ?a] => let E := fresh "E" in destruct (o_call o f a) eqn:E
  | |- context [o_iscoroutine ?o ?v] => let E := fresh "E" in destruct (o_iscoroutine o v) eqn:E
  | |- context [o_await ?o ?v] => let E := fresh "E" in destruct (o_await o v) eqn:E
  | |- context [o_iscoro ?o ?v] => let E := fresh "E" in destruct (o_iscoro o v) eqn:E
  end.
Ltac admin_crunch H :=
  repeat (first [progress admin_cbn | getattr_class_step | ext_step H | oracle_step | case_step]);
  try reflexivity; try congruence; try (cbn in *; congruence).

(* ------------------------------------------------------------------ *)
(* admin_connect = the documented decision                            *)
(* ------------------------------------------------------------------ *)
Lemma sync_admin_connect_spec o c sid env a :
  ext_total o ->
  InstrumentedServer_admin_connect o (mk_admin_self c) sid env a
  = auth_outcome (pred_sync o) (a_auth c) a.
Proof.
  intros Hext. unfold InstrumentedServer_admin_connect, auth_outcome, pred_sync.
  admin_prep. admin_getattr.
  destruct (a_auth c) as [|b|z|t|s|s|l|l|kv|n]; admin_crunch Hext.
Qed.

Lemma async_admin_connect_spec o c sid env a :
  ext_total o ->
  InstrumentedAsyncServer_admin_connect o (mk_admin_self c) sid env a
  = auth_outcome (pred_async o) (a_auth c) a.
Proof.
  intros Hext. unfold InstrumentedAsyncServer_admin_connect, auth_outcome, pred_async.
  admin_prep. admin_getattr.
  destruct (a_auth c) as [|b|z|t|s|s|l|l|kv|n]; admin_crunch Hext.
Qed.

(* ---- the specification means what the property says ---- *)
Lemma auth_outcome_accepts pred cfg a :
  auth_outcome pred cfg a = Ok PNone <-> accepted_by pred cfg a.
Proof.
  unfold auth_outcome, accepted_by. split.
  - destruct (truthy cfg) eqn:T; [|intros _; left; reflexivity].
    destruct cfg as [|b|z|t|s|s|l|l|kv|n]; try discriminate.
    + destruct (existsb (py_eq a) l) eqn:E; [|discriminate]. intros _.
      apply existsb_exists in E as (m & Hin & Hm). right; right; left. exists l, m. auto.
    + destruct (py_eq a (PDict kv)) eqn:E; [|discriminate]. intros _.
      right; left. exists kv. auto.
    + destruct (pred (PObj n) a) as [r|e] eqn:E; [|discriminate].
      destruct (truthy r) eqn:Tr; [|discriminate]. intros _.
      right; right; right. exists n, r. auto.
  - intros [H|[(kv & -> & H)|[(l & m & -> & Hin & Hm)|(n & r & -> & Hp & Hr)]]].
    + rewrite H. reflexivity.
    + destruct (truthy (PDict kv)); [|reflexivity]. rewrite H. reflexivity.
    + destruct (truthy (PList l)); [|reflexivity].
      assert (E : existsb (py_eq a) l = true) by (apply existsb_exists; exists m; auto).
      rewrite E. reflexivity.
    + cbn [truthy]. rewrite Hp, Hr. reflexivity.
Qed.

(* the outcome is either "accepted" or ConnectionRefusedError, nothing else - for EVERY configuration *)
Lemma auth_outcome_cases pred cfg a :
  auth_outcome pred cfg a = Ok PNone \/ auth_outcome pred cfg a = Err ConnectionRefused.
Proof.
  unfold auth_outcome.
  destruct (truthy cfg); [|left; reflexivity].
  destruct cfg as [|b|z|t|s|s|l|l|kv|n]; auto.
  - destruct (existsb (py_eq a) l); auto.
  - destruct (py_eq a (PDict kv)); auto.
  - destruct (pred (PObj n) a) as [r|e]; [destruct (truthy r)|]; auto.
Qed.

Lemma auth_outcome_refuses pred cfg a :
  ~ accepted_by pred cfg a -> auth_outcome pred cfg a = Err ConnectionRefused.
Proof.
  intro Hna. destruct (auth_outcome_cases pred cfg a) as [H|H]; [|exact H].
  exfalso. apply Hna. apply auth_outcome_accepts. exact H.
Qed.

(* an exception of the predicate (or of awaiting its result) IS a refusal *)
Lemma auth_outcome_predicate_raises pred n a e :
  pred (PObj n) a = Err e -> auth_outcome pred (PObj n) a = Err ConnectionRefused.
Proof. intro H. unfold auth_outcome. cbn [truthy]. rewrite H. reflexivity. Qed.

(* ------------------------------------------------------------------ *)
(* C18_auth                                                           *)
(* ------------------------------------------------------------------ *)
Definition auth_statement (run : pv -> Res pv) (pred : pv -> pv -> Res pv) (cfg : pv) : Prop :=
  forall a : pv,
    (run a = Ok PNone <-> accepted_by pred cfg a) /\
    (~ accepted_by pred cfg a -> run a = Err ConnectionRefused).

Theorem auth_sync o c sid env :
  ext_total o ->
  auth_statement (InstrumentedServer_admin_connect o (mk_admin_self c) sid env) (pred_sync o) (a_auth c).
Proof.
  intros Hext a. rewrite (sync_admin_connect_spec o c sid env a Hext).
  split; [apply auth_outcome_accepts|apply auth_outcome_refuses].
Qed.

Theorem auth_async o c sid env :
  ext_total o ->
  auth_statement (InstrumentedAsyncServer_admin_connect o (mk_admin_self c) sid env) (pred_async o) (a_auth c).
Proof.
  intros Hext a. rewrite (async_admin_connect_spec o c sid env a Hext).
  split; [apply auth_outcome_accepts|apply auth_outcome_refuses].
Qed.

(* a predicate that raises refuses (both classes); in the asyncio class also when awaiting raises *)
Theorem auth_raising_predicate_refuses o n ro mode ns sid env a e :
  ext_total o ->
  (o_call o (PObj n) [a] = Err e ->
   InstrumentedServer_admin_connect o (mk_admin_self (mkACfg (PObj n) ro mode ns)) sid env a = Err ConnectionRefused /\
   InstrumentedAsyncServer_admin_connect o (mk_admin_self (mkACfg (PObj n) ro mode ns)) sid env a = Err ConnectionRefused) /\
  (forall r, o_call o (PObj n) [a] = Ok r -> o_iscoroutine o r = true -> o_await o r = Err e ->
   InstrumentedAsyncServer_admin_connect o (mk_admin_self (mkACfg (PObj n) ro mode ns)) sid env a = Err ConnectionRefused).
Proof.
  intros Hext. split.
  - intro H. rewrite sync_admin_connect_spec, async_admin_connect_spec by assumption. cbn [a_auth].
    split; apply (auth_outcome_predicate_raises _ n a e); unfold pred_sync, pred_async; rewrite H; reflexivity.
  - intros r Hr Hc Ha. rewrite async_admin_connect_spec by assumption. cbn [a_auth].
    apply (auth_outcome_predicate_raises _ n a e). unfold pred_async. rewrite Hr. cbn [bind]. rewrite Hc. exact Ha.
Qed.

(* the asyncio class awaits a coroutine result whatever kind of callable produced it, and decides on
   the awaited value; a non-coroutine result is used as it is *)
Theorem async_awaits_coroutine_results o n ro mode ns sid env a r :
  ext_total o -> o_call o (PObj n) [a] = Ok r ->
  InstrumentedAsyncServer_admin_connect o (mk_admin_self (mkACfg (PObj n) ro mode ns)) sid env a =
  (if o_iscoroutine o r
   then match o_await o r with
        | Ok v => if truthy v then Ok PNone else Err ConnectionRefused
        | Err _ => Err ConnectionRefused end
   else if truthy r then Ok PNone else Err ConnectionRefused).
Proof.
  intros Hext Hr. rewrite async_admin_connect_spec by assumption.
  unfold auth_outcome, pred_async. cbn [a_auth truthy]. rewrite Hr. cbn [bind].
  destruct (o_iscoroutine o r); reflexivity.
Qed.

(* both classes decide alike, unless the predicate's result is a coroutine (which only the asyncio
   class awaits) *)
Theorem auth_sync_async_same o c sid env a :
  ext_total o -> (forall r, o_call o (a_auth c) [a] = Ok r -> o_iscoroutine o r = false) ->
  InstrumentedServer_admin_connect o (mk_admin_self c) sid env a =
  InstrumentedAsyncServer_admin_connect o (mk_admin_self c) sid env a.
Proof.
  intros Hext Hc. rewrite sync_admin_connect_spec, async_admin_connect_spec by assumption.
  unfold auth_outcome, pred_sync, pred_async.
  destruct (o_call o (a_auth c) [a]) as [r|e] eqn:E; [|reflexivity].
  cbn [bind]. rewrite (Hc r eq_refl). reflexivity.
Qed.

(* documented misuse, recorded: the threaded class cannot await; a predicate whose call returns a
   coroutine object (always truthy) accepts everybody there *)
Lemma sync_class_coroutine_predicate_accepts_all o n ro mode ns sid env a r :
  ext_total o -> o_call o (PObj n) [a] = Ok r -> truthy r = true ->
  InstrumentedServer_admin_connect o (mk_admin_self (mkACfg (PObj n) ro mode ns)) sid env a = Ok PNone.
Proof.
  intros Hext Hr Ht. rewrite sync_admin_connect_spec by assumption.
  unfold auth_outcome, pred_sync. cbn [a_auth truthy]. rewrite Hr, Ht. reflexivity.
Qed.

(* recorded reading: every FALSY configuration disables authentication, not only False *)
Lemma falsy_configuration_disables o c sid env a :
  ext_total o -> truthy (a_auth c) = false ->
  InstrumentedServer_admin_connect o (mk_admin_self c) sid env a = Ok PNone /\
  InstrumentedAsyncServer_admin_connect o (mk_admin_self c) sid env a = Ok PNone.
Proof.
  intros Hext T. rewrite sync_admin_connect_spec, async_admin_connect_spec by assumption.
  unfold auth_outcome. rewrite T. auto.
Qed.

(* ---- the hypotheses are satisfiable; the decision is not trivial ---- *)
(* calling the predicate gives [res]; [aw] = Some r: that value is a coroutine whose awaited result is r *)
Definition ex_oracle (res : Res pv) (aw : option (Res pv)) : oracle :=
  mkOracle (fun _ _ => res) (fun _ => false)
           (fun v => match aw with Some _ => pv_eqb v coroutine_object | None => false end)
           (fun _ => match aw with Some r => r | None => Err TypeError end)
           (fun _ _ => Ok PNone).
Lemma ex_oracle_total res aw : ext_total (ex_oracle res aw).
Proof. intros n a. exists PNone. reflexivity. Qed.

Definition ex_creds : pv := PDict [(PStr (s2l "username"), PStr (s2l "admin")); (PStr (s2l "password"), PStr (s2l "secret"))].
Definition ex_creds_perm : pv := PDict [(PStr (s2l "password"), PStr (s2l "secret")); (PStr (s2l "username"), PStr (s2l "admin"))].
Definition ex_creds_sub : pv := PDict [(PStr (s2l "username"), PStr (s2l "admin"))].
Definition ex_cfg (auth : pv) : acfg := mkACfg auth (PBool false) (PStr (s2l "development")) (PStr (s2l "/admin")).
Definition ex_o := ex_oracle (Ok PNone) None.

Example ex_dict_accepts_permutation :
  InstrumentedServer_admin_connect ex_o (mk_admin_self (ex_cfg ex_creds)) (PStr (s2l "S0")) (PDict []) ex_creds_perm
  = Ok PNone.
Proof. vm_compute. reflexivity. Qed.
Example ex_dict_refuses_subset :
  InstrumentedAsyncServer_admin_connect ex_o (mk_admin_self (ex_cfg ex_creds)) (PStr (s2l "S0")) (PDict []) ex_creds_sub
  = Err ConnectionRefused.
Proof. vm_compute. reflexivity. Qed.
Example ex_list_membership :
  InstrumentedServer_admin_connect ex_o (mk_admin_self (ex_cfg (PList [ex_creds_sub; ex_creds])))
    (PStr (s2l "S0")) (PDict []) ex_creds_perm = Ok PNone /\
  InstrumentedServer_admin_connect ex_o (mk_admin_self (ex_cfg (PList [ex_creds_sub; ex_creds])))
    (PStr (s2l "S0")) (PDict []) PNone = Err ConnectionRefused.
Proof. split; vm_compute; reflexivity. Qed.
(* the adopted reading of "equals": Python ==, so true equals a configured 1 *)
Example ex_python_equality_reading :
  InstrumentedServer_admin_connect ex_o (mk_admin_self (ex_cfg (PDict [(PStr (s2l "pin"), PInt 1)])))
    (PStr (s2l "S0")) (PDict []) (PDict [(PStr (s2l "pin"), PBool true)]) = Ok PNone /\
  InstrumentedServer_admin_connect ex_o (mk_admin_self (ex_cfg (PDict [(PStr (s2l "pin"), PInt 1)])))
    (PStr (s2l "S0")) (PDict []) (PDict [(PStr (s2l "pin"), PStr (s2l "1"))]) = Err ConnectionRefused.
Proof. split; vm_compute; reflexivity. Qed.
Example ex_predicate :
  InstrumentedAsyncServer_admin_connect (ex_oracle (Ok (PStr (s2l "yes"))) None) (mk_admin_self (ex_cfg (PObj 7)))
    (PStr (s2l "S0")) (PDict []) PNone = Ok PNone /\
  InstrumentedAsyncServer_admin_connect (ex_oracle (Ok (PInt 0)) None) (mk_admin_self (ex_cfg (PObj 7)))
    (PStr (s2l "S0")) (PDict []) PNone = Err ConnectionRefused.
Proof. split; vm_compute; reflexivity. Qed.
(* a raising predicate refuses; an async callable answering False is awaited and refuses; the
   threaded class accepts a coroutine result (misuse) *)
Example ex_raising_and_coroutine :
  InstrumentedServer_admin_connect (ex_oracle (Err KeyError) None) (mk_admin_self (ex_cfg (PObj 7)))
    (PStr (s2l "S0")) (PDict []) (PDict []) = Err ConnectionRefused /\
  InstrumentedAsyncServer_admin_connect (ex_oracle (Ok coroutine_object) (Some (Ok (PBool false)))) (mk_admin_self (ex_cfg (PObj 7)))
    (PStr (s2l "S0")) (PDict []) (PDict []) = Err ConnectionRefused /\
  InstrumentedAsyncServer_admin_connect (ex_oracle (Ok coroutine_object) (Some (Ok (PBool true)))) (mk_admin_self (ex_cfg (PObj 7)))
    (PStr (s2l "S0")) (PDict []) (PDict []) = Ok PNone /\
  InstrumentedServer_admin_connect (ex_oracle (Ok coroutine_object) (Some (Ok (PBool false)))) (mk_admin_self (ex_cfg (PObj 7)))
    (PStr (s2l "S0")) (PDict []) (PDict []) = Ok PNone.
Proof. repeat split; vm_compute; reflexivity. Qed.

(* ------------------------------------------------------------------ *)
(* registration block of instrument()                                 *)
(* ------------------------------------------------------------------ *)
Ltac instr_crunch :=
  admin_prep; admin_getattr;
  repeat (first [progress admin_cbn | case_step]).

Definition registration_statement (run : Res (list pv)) (c : acfg) : Prop :=
  exists items, run = Ok items /\
    registrations items = spec_registrations c /\
    patches_app_path items = is_development c.

Lemma sync_instrument_spec c : registration_statement (InstrumentedServer_instrument (mk_admin_self c)) c.
Proof.
  unfold registration_statement, InstrumentedServer_instrument, spec_registrations, writable, is_development.
  instr_crunch; eexists; (split; [reflexivity|]); split; reflexivity.
Qed.
Lemma async_instrument_spec c : registration_statement (InstrumentedAsyncServer_instrument (mk_admin_self c)) c.
Proof.
  unfold registration_statement, InstrumentedAsyncServer_instrument, spec_registrations, writable, is_development.
  instr_crunch; eexists; (split; [reflexivity|]); split; reflexivity.
Qed.

Lemma spec_registrations_read_only c it ev :
  writable c = false -> In it (spec_registrations c) -> on_event it = Some ev -> is_write_event ev = false.
Proof.
  intros W Hin He. unfold spec_registrations in Hin. rewrite W in Hin.
  destruct Hin as [<-|[]]. cbn in He. inversion He; subst. reflexivity.
Qed.

Lemma on_event_is_on it ev : on_event it = Some ev -> is_on it = true.
Proof.
  destruct it as [| | | | | | |l| |]; try discriminate.
  destruct l as [|[| | | |t| | | | |] l]; try discriminate.
  cbn [on_event is_on].
  destruct l as [|[| | | |e| | | | |] [|x [|y [|z l]]]]; try discriminate.
  destruct (str_eqb t (s2l "on")); [reflexivity|discriminate].
Qed.

(* in read-only mode, and in production mode whatever read_only says, none of the four
   modifying admin events has a handler on the admin namespace *)
Theorem read_only_registers_no_write_handler run c :
  registration_statement run c ->
  truthy (a_read_only c) = true \/ is_development c = false ->
  forall items it ev, run = Ok items -> In it items -> on_event it = Some ev -> is_write_event ev = false.
Proof.
  intros (items0 & Hrun & Hreg & _) Hro items it ev Hrun' Hin He.
  rewrite Hrun in Hrun'. inversion Hrun'; subst items0.
  apply (spec_registrations_read_only c it ev).
  - unfold writable. destruct Hro as [H|H]; rewrite H; [apply andb_false_r|reflexivity].
  - rewrite <- Hreg. unfold registrations. apply filter_In. split; [exact Hin|].
    eapply on_event_is_on; eauto.
  - exact He.
Qed.

(* conversely the four handlers ARE there in development mode without read_only *)
Theorem writable_registers_write_handlers run c :
  registration_statement run c -> writable c = true ->
  forall items, run = Ok items ->
    map on_event (registrations items) =
    [Some (s2l "connect"); Some (s2l "emit"); Some (s2l "join"); Some (s2l "leave"); Some (s2l "_disconnect")].
Proof.
  intros (items0 & Hrun & Hreg & _) W items Hrun'.
  rewrite Hrun in Hrun'. inversion Hrun'; subst items0.
  rewrite Hreg. unfold spec_registrations. rewrite W. reflexivity.
Qed.

(* production mode leaves _trigger_event, basic_enter_room, basic_leave_room and emit alone *)
Theorem production_installs_no_app_path_wrapper run c :
  registration_statement run c -> is_development c = false ->
  forall items, run = Ok items -> patches_app_path items = false.
Proof.
  intros (items0 & Hrun & _ & Hp) D items Hrun'.
  rewrite Hrun in Hrun'. inversion Hrun'; subst items0. rewrite Hp. exact D.
Qed.

Example ex_read_only_development :
  option_map (map on_event)
    (match InstrumentedServer_instrument (mk_admin_self (mkACfg (PBool false) (PBool true) (PStr (s2l "development")) (PStr (s2l "/admin"))))
     with Ok l => Some (registrations l) | Err _ => None end)
  = Some [Some (s2l "connect")].
Proof. vm_compute. reflexivity. Qed.
Example ex_writable_development :
  option_map (map on_event)
    (match InstrumentedAsyncServer_instrument (mk_admin_self (mkACfg (PBool false) (PBool false) (PStr (s2l "development")) (PStr (s2l "/admin"))))
     with Ok l => Some (registrations l) | Err _ => None end)
  = Some [Some (s2l "connect"); Some (s2l "emit"); Some (s2l "join"); Some (s2l "leave"); Some (s2l "_disconnect")].
Proof. vm_compute. reflexivity. Qed.

(* ---- combined forms stated in Props/C18.v ---- *)
Lemma auth_decision_both o c sid env a :
  ext_total o ->
  InstrumentedServer_admin_connect o (mk_admin_self c) sid env a = auth_outcome (pred_sync o) (a_auth c) a /\
  InstrumentedAsyncServer_admin_connect o (mk_admin_self c) sid env a = auth_outcome (pred_async o) (a_auth c) a.
Proof.
  intro H. exact (conj (sync_admin_connect_spec o c sid env a H) (async_admin_connect_spec o c sid env a H)).
Qed.

Lemma registrations_both (c : acfg) :
  (exists items, InstrumentedServer_instrument (mk_admin_self c) = Ok items /\
     registrations items = spec_registrations c /\ patches_app_path items = is_development c) /\
  (exists items, InstrumentedAsyncServer_instrument (mk_admin_self c) = Ok items /\
     registrations items = spec_registrations c /\ patches_app_path items = is_development c).
Proof. exact (conj (sync_instrument_spec c) (async_instrument_spec c)). Qed.

Lemma read_only_both (c : acfg) :
  truthy (a_read_only c) = true \/ is_development c = false ->
  (forall items it ev, InstrumentedServer_instrument (mk_admin_self c) = Ok items ->
     In it items -> on_event it = Some ev -> is_write_event ev = false) /\
  (forall items it ev, InstrumentedAsyncServer_instrument (mk_admin_self c) = Ok items ->
     In it items -> on_event it = Some ev -> is_write_event ev = false).
Proof.
  intro H. split.
  - exact (read_only_registers_no_write_handler _ c (sync_instrument_spec c) H).
  - exact (read_only_registers_no_write_handler _ c (async_instrument_spec c) H).
Qed.
