(* Hand model of the development-mode wrappers that InstrumentedServer.instrument()
   installs around  sio._trigger_event, manager.basic_enter_room, manager.basic_leave_room
   and manager.emit  (admin.py:198-281, async_admin.py twin): each calls the original
   unchanged and reports to the admin namespace with  sio.emit(..., namespace=admin).
   The order (report first / original first) is the one of the source.
   Not modelled: the admin-private dictionary manager._timestamps, the text of time stamps and
   of serialize_socket (arbitrary values below), the engine.io level counters (EventBuffer).
   Definitions only. *)
From VT Require Export Server.Server.
Open Scope N_scope.

Section Wrappers.
  Variable c : cfg.
  Variable adm : str.                        (* the admin namespace *)
  Variable stamp : pv.                       (* datetime...isoformat(): any value *)
  Variable serialize : str -> str -> pv.     (* serialize_socket(sid, namespace): any value *)

  (* self.sio.emit(event, data, namespace=self.admin_namespace): broadcast to the members of
     the admin namespace, no callback *)
  Definition admin_emit (ev : str) (data : pv) : SM unit :=
    mgr_emit c (PStr ev) data adm PNone PNone None.

  Definition before {T} (n : SM unit) (orig : SM T) : SM T := n ;;; orig.
  Definition after {T} (orig : SM T) (n : SM unit) : SM T := r <~ orig ;; n ;;; ret r.

  (* ---- _trigger_event(event, namespace, *args) ---- *)
  Definition trigger_report (ev : pv) (ns : str) (args : list pv) : str * pv :=
    let sid := hd PNone args in
    if py_eq ev (PStr (s2l "connect"))
    then (s2l "socket_connected", PTuple [serialize (arg_sid args) ns; stamp])
    else if py_eq ev (PStr (s2l "disconnect"))
    then (s2l "socket_disconnected", PTuple [PStr ns; sid; nth 1 args PNone; stamp])
    else (s2l "event_received", PTuple [PStr ns; sid; PList (ev :: tl args); stamp]).   (* a LIST since 34a4987 *)
  Definition w_trigger_event (ev : pv) (ns : str) (args : list pv) : SM (option pv) :=
    before (admin_emit (fst (trigger_report ev ns args)) (snd (trigger_report ev ns args)))
           (trigger_event c ev ns args).

  (* ---- manager.basic_enter_room(sid, namespace, room) ---- *)
  Definition room_report (name : string) (sid ns : str) (room : pv) : SM unit :=
    if truthy room then admin_emit (s2l name) (PTuple [PStr ns; room; PStr sid; stamp]) else ret tt.
  Definition m_enter_room (sid ns : str) (room : pv) : SM unit :=
    r <~ with_mg (fun m => enter_room m sid ns room) ;; lift r.
  Definition w_enter_room (sid ns : str) (room : pv) : SM unit :=
    after (m_enter_room sid ns room) (room_report "room_joined" sid ns room).

  (* ---- manager.basic_leave_room(sid, namespace, room) ---- *)
  Definition m_leave_room (sid ns : str) (room : pv) : SM unit :=
    set_mg (fun m => leave_room m sid ns room).
  Definition w_leave_room (sid ns : str) (room : pv) : SM unit :=
    before (room_report "room_left" sid ns room) (m_leave_room sid ns room).

  (* ---- manager.emit(event, data, namespace, room, skip_sid, callback) ---- *)
  Definition event_data (ev data : pv) : pv :=
    match data with PTuple l => PList (ev :: l) | d => PList [ev; d] end.
  Definition sent_report (ev data : pv) (ns : str) (room skip : pv) : SM unit :=
    if str_eqb ns adm then ret tt else
    s <~ getS ;;
    parts <~ lift (participants (mg s) ns room) ;;
    forM parts (fun se =>
      if skipped (skip_list skip) (fst se) then ret tt
      else admin_emit (s2l "event_sent") (PTuple [PStr ns; PStr (fst se); event_data ev data; stamp])).
  Definition w_mgr_emit (ev data : pv) (ns : str) (room skip : pv) (cb : option N) : SM unit :=
    after (mgr_emit c ev data ns room skip cb) (sent_report ev data ns room skip).

  (* ---- what "invisible to the application" compares ---- *)
  Variable A : list str.                     (* the transports of the admin clients *)
  Definition to_admin (e : eff) : bool :=
    match e with Out eio _ => existsb (str_eqb eio) A | _ => false end.
  (* the run as the application sees it: everything except packets queued for admin transports *)
  Definition proj (l : list eff) : list eff := filter (fun e => negb (to_admin e)) l.
  (* the members of the admin namespace are admin clients *)
  Definition adm_isolated (s : srv) : Prop :=
    forall b sid eio, room_of (mg s) adm PNone = Some b -> In (sid, eio) b ->
                      existsb (str_eqb eio) A = true.

  (* the admin report can be encoded (pointwise, for the payload at hand) *)
  Definition encodable (ev : str) (data : pv) : Prop :=
    exists p pieces, ctor (uses_binary c) EVENT (PList (PStr ev :: pack data)) (Some adm) None None = Ok p
                     /\ encode_pieces c p = Ok pieces.

  (* a computation only the admin clients can notice *)
  Definition noise (J : srv -> Prop) (n : SM unit) : Prop :=
    forall s, J s -> exists effs, n s = (s, effs, Ok tt) /\ proj effs = [].

  (* m' is m as far as the application can tell: same state, same result, same projected effects *)
  Definition transparent {T} (J : srv -> Prop) (m m' : SM T) : Prop :=
    forall s, J s ->
      fst (fst (m' s)) = fst (fst (m s)) /\ snd (m' s) = snd (m s) /\
      proj (snd (fst (m' s))) = proj (snd (fst (m s))).

  (* targets of an emit for which get_participants is defined on every state *)
  Definition room_shape_ok (room : pv) : bool :=
    match room with
    | PList [] | PTuple [] | PBytes _ | PDict _ | PObj _ => false
    | _ => true
    end.
End Wrappers.
