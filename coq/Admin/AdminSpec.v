(* Hand-written side of C18, independent of the generated text: the typed configuration
   of an InstrumentedServer and its embedding as the [self] object, the specification of
   the authentication decision, and the specification of the registration block.
   Definitions only (plus the getattr computation lemmas, proved by reflexivity). *)
From VT Require Export Admin.AdminRuntime.
Open Scope N_scope.

(* the four attributes admin_connect / instrument() read; every one an arbitrary value *)
Record acfg := mkACfg { a_auth : pv; a_read_only : pv; a_mode : pv; a_ns : pv }.
Definition mk_admin_self (c : acfg) : pv :=
  PDict [ (PStr (s2l "auth"), a_auth c); (PStr (s2l "read_only"), a_read_only c);
          (PStr (s2l "mode"), a_mode c); (PStr (s2l "admin_namespace"), a_ns c) ].

(* ---- authentication ---- *)
(* what evaluating the configured predicate yields in each class:
   threaded class: the value the call returns (a coroutine object is just a truthy value there);
   asyncio class: the value the call returns, awaited when asyncio.iscoroutine says it is a coroutine *)
Definition pred_sync (o : oracle) (f a : pv) : Res pv := o_call o f [a].
Definition pred_async (o : oracle) (f a : pv) : Res pv :=
  r <- o_call o f [a] ;; if o_iscoroutine o r then o_await o r else Ok r.

(* the outcome of admin_connect, as documented:
   falsy configuration -> authentication disabled; dict -> ==; list -> membership (==);
   anything else is called: a truthy result accepts, a falsy result OR ANY EXCEPTION (of the
   predicate, of awaiting it, or "not callable") refuses *)
Definition auth_outcome (pred : pv -> pv -> Res pv) (cfg a : pv) : Res pv :=
  if truthy cfg then
    match cfg with
    | PDict _ => if py_eq a cfg then Ok PNone else Err ConnectionRefused
    | PList l => if existsb (py_eq a) l then Ok PNone else Err ConnectionRefused
    | PObj _ => match pred cfg a with
                | Ok r => if truthy r then Ok PNone else Err ConnectionRefused
                | Err _ => Err ConnectionRefused
                end
    | _ => Err ConnectionRefused
    end
  else Ok PNone.

(* the property's reading of "accepted only if ..." *)
Definition accepted_by (pred : pv -> pv -> Res pv) (cfg a : pv) : Prop :=
  truthy cfg = false
  \/ (exists kv, cfg = PDict kv /\ py_eq a cfg = true)
  \/ (exists l m, cfg = PList l /\ In m l /\ py_eq a m = true)
  \/ (exists n r, cfg = PObj n /\ pred cfg a = Ok r /\ truthy r = true).

(* the services called after the decision return normally *)
Definition ext_total (o : oracle) : Prop := forall name args, exists v, o_ext o name args = Ok v.

(* ---- registration ---- *)
Definition is_development (c : acfg) : bool := py_eq (a_mode c) (PStr (s2l "development")).
Definition writable (c : acfg) : bool := is_development c && negb (truthy (a_read_only c)).

Definition on_item (ev handler : string) (ns : pv) : pv :=
  PTuple [PStr (s2l "on"); PStr (s2l ev); PStr (s2l handler); ns].
(* the handlers registered on the admin namespace *)
Definition spec_registrations (c : acfg) : list pv :=
  on_item "connect" "admin_connect" (a_ns c) ::
  (if writable c
   then [ on_item "emit" "admin_emit" (a_ns c); on_item "join" "admin_enter_room" (a_ns c);
          on_item "leave" "admin_leave_room" (a_ns c); on_item "_disconnect" "admin_disconnect" (a_ns c) ]
   else []).

Definition is_on (it : pv) : bool :=
  match it with PTuple (PStr t :: _) => str_eqb t (s2l "on") | _ => false end.
Definition registrations (items : list pv) : list pv := filter is_on items.
Definition on_event (it : pv) : option str :=
  match it with PTuple [PStr t; PStr ev; _; _] => if str_eqb t (s2l "on") then Some ev else None | _ => None end.
Definition write_events : list str := [s2l "emit"; s2l "join"; s2l "leave"; s2l "_disconnect"].
Definition is_write_event (ev : str) : bool := existsb (str_eqb ev) write_events.

(* attribute stores: which attributes of the server / manager are replaced by wrappers *)
Definition set_target (it : pv) : option str :=
  match it with PTuple [PStr t; PStr target; _] => if str_eqb t (s2l "set") then Some target else None | _ => None end.
Definition app_path_wrappers : list str :=
  [s2l "self.sio._trigger_event"; s2l "self.sio.manager.basic_enter_room";
   s2l "self.sio.manager.basic_leave_room"; s2l "self.sio.manager.emit"].
Definition patches_app_path (items : list pv) : bool :=
  existsb (fun it => match set_target it with
                     | Some t => existsb (str_eqb t) app_path_wrappers
                     | None => false end) items.

(* ---- attributes of the embedded object ---- *)
Lemma getattr_auth cls c : py_getattr cls (Ok (mk_admin_self c)) (s2l "auth") = Ok (a_auth c).
Proof. reflexivity. Qed.
Lemma getattr_read_only cls c : py_getattr cls (Ok (mk_admin_self c)) (s2l "read_only") = Ok (a_read_only c).
Proof. reflexivity. Qed.
Lemma getattr_mode cls c : py_getattr cls (Ok (mk_admin_self c)) (s2l "mode") = Ok (a_mode c).
Proof. reflexivity. Qed.
Lemma getattr_admin_namespace cls c :
  py_getattr cls (Ok (mk_admin_self c)) (s2l "admin_namespace") = Ok (a_ns c).
Proof. reflexivity. Qed.
