(* C13 - histories: SEQUENCES of registrations and incoming events on one or more
   servers / clients ("hosts") of one process, with class-based namespace OBJECTS that are
   instances of shared classes.  What an event does may depend on the registrations made
   before it on ITS host, and on nothing else: not on earlier events, not on the other
   hosts, not on the other instances of the namespace class.

   Objects: an object table gives, for every namespace object id, the value of its
   `namespace` attribute (set by BaseNamespace.__init__, namespace.py / base_namespace.py)
   and the `on_...` method names its class defines.  `register_namespace(obj)` stores the
   object under `obj.namespace` (base_server.py:169-183, base_client.py:198-212);
   `on(event, handler, namespace)` stores the function under handlers[namespace][event]
   (base_server.py `on`, base_client.py `on`), creating / overwriting in place.

   Observation of one event: the calls of Routing/Trigger.v, each class-based call
   paired with the `namespace` attribute OF THE OBJECT THAT RAN (so the observation
   identifies the instance, not only the class).

   The step function is parametric in the routing function, instantiated with
     - the specification (ResolveSpec.resolve; the key comes from the rule that fired), and
     - the model (generated lookups under the hand model of _trigger_event; the key is
       the attribute of the object the model selected).
   Definitions only. *)
From VT Require Export Routing.Embed Routing.Trigger.
Open Scope N_scope.

(* ---- objects ---- *)
Record nsobj := NsObj { o_namespace : str; o_methods : list str }.
Definition objtable := list (N * nsobj).
Fixpoint find_obj (c : N) (ot : objtable) : option nsobj :=
  match ot with
  | [] => None
  | (c', o) :: r => if N.eqb c c' then Some o else find_obj c r
  end.
Definition root_ns : str := s2l "/".
Definition obj_namespace (ot : objtable) (c : N) : str :=
  match find_obj c ot with Some o => o_namespace o | None => root_ns end.
Definition obj_methods (ot : objtable) (c : N) : list str :=
  match find_obj c ot with Some o => o_methods o | None => [] end.

(* ---- registries as Python dictionaries: assignment overwrites in place, or appends ---- *)
Fixpoint set_assoc {A} (k : str) (v : A) (d : list (str * A)) : list (str * A) :=
  match d with
  | [] => [(k, v)]
  | (k', v') :: r => if str_eqb k k' then (k', v) :: r else (k', v') :: set_assoc k v r
  end.
Definition reg_on (r : reg) (ns ev : str) (h : N) : reg :=
  set_assoc ns (set_assoc ev h (match lookup ns r with Some d => d | None => [] end)) r.

(* ---- hosts ---- *)
Definition hoststate := (reg * nsreg)%type.
Definition hstate := list hoststate.
Definition empty_host : hoststate := ([], []).
Definition get_host (st : hstate) (i : nat) : hoststate := nth i st empty_host.
Fixpoint upd_host (i : nat) (f : hoststate -> hoststate) (st : hstate) : hstate :=
  match i, st with
  | O, x :: r => f x :: r
  | O, [] => [f empty_host]
  | S i', x :: r => x :: upd_host i' f r
  | S i', [] => empty_host :: upd_host i' f []
  end.

(* ---- operations ---- *)
Inductive hop :=
| HOn (host : nat) (ns ev : str) (h : N)                (* host.on(ev, h, namespace=ns) *)
| HRegister (host : nat) (c : N)                        (* host.register_namespace(object c) *)
| HEvent (host : nat) (ev ns : str) (args : list pv).   (* host._trigger_event(ev, ns, *args) *)

(* a call, and for class-based calls the `namespace` attribute of the object that ran *)
Definition kcall := (call * option str)%type.
Definition kcalls_of_outcome (ot : objtable) (key : option str) (o : outcome) : list kcall :=
  match o with
  | RunFunction h a => [(FunRan h a, None)]
  | RunClass c ev a => map (fun x => (x, key)) (calls_of_outcome (obj_methods ot c) o)
  | Dropped => []
  end.

Definition router := reg -> nsreg -> str -> str -> list pv -> Res (list kcall).

Section Step.
  Variable ot : objtable.
  Variable route : router.

  Definition hstep (st : hstate) (o : hop) : hstate * option (Res (list kcall)) :=
    match o with
    | HOn i ns ev h => (upd_host i (fun hs => (reg_on (fst hs) ns ev h, snd hs)) st, None)
    | HRegister i c => (upd_host i (fun hs => (fst hs, set_assoc (obj_namespace ot c) c (snd hs))) st, None)
    | HEvent i ev ns args =>
        let hs := get_host st i in (st, Some (route (fst hs) (snd hs) ev ns args))
    end.

  (* the observations of a history (one entry per operation; [None] for registrations)
     and the final registries *)
  Fixpoint hrun (st : hstate) (ops : list hop) : list (option (Res (list kcall))) * hstate :=
    match ops with
    | [] => ([], st)
    | o :: rest =>
        let '(st', out) := hstep st o in
        let '(outs, fin) := hrun st' rest in (out :: outs, fin)
    end.
End Step.

(* ---- the specification as a router: the six rules on the registries of the host; the
   object that runs is the one registered under the key of the rule that fired ---- *)
Definition spec_route (reserved : list str) (ot : objtable) : router :=
  fun r n ev ns args =>
    Ok (kcalls_of_outcome ot (resolve_namespace_key n ns) (resolve reserved r n ev ns args)).

(* ---- a model of _trigger_event as a router: decode the untyped action; the key is the
   `namespace` attribute of the object the model selected ---- *)
Definition outcome_of_action (a : action) : option outcome :=
  match a with
  | ACall (PObj h) (PTuple l) => Some (RunFunction h l)
  | ATrigger (PObj c) (PStr ev) (PTuple l) => Some (RunClass c ev l)
  | ANotHandled => Some Dropped
  | _ => None
  end.
Definition outcome_object (o : outcome) : option N :=
  match o with RunClass c _ _ => Some c | _ => None end.
Definition model_route (trig : pv -> pv -> pv -> pv -> Res action) (ot : objtable) : router :=
  fun r n ev ns args =>
    a <- trig (mk_self r n) (PStr ev) (PStr ns) (PTuple args) ;;
    match outcome_of_action a with
    | Some o => Ok (kcalls_of_outcome ot (option_map (obj_namespace ot) (outcome_object o)) o)
    | None => Err TypeError
    end.

(* ---- well-formed registries: every namespace object sits under its own `namespace` ---- *)
Definition nsreg_wf (ot : objtable) (n : nsreg) : Prop :=
  forall k c, In (k, c) n -> obj_namespace ot c = k.
Definition hstate_wf (ot : objtable) (st : hstate) : Prop :=
  forall hs, In hs st -> nsreg_wf ot (snd hs).
