(* C13 - facts that hold only for the PINNED client cascade
   (base_client.py: "elif '*' in self.handlers" where the server has
   "if handler is None and '*' in self.handlers").  Once the client mirrors the server
   this file stops compiling, Routing/ClientFull.v.pending takes its place (see
   notes/C13.md, "switching to the full-strength client theorems"). *)
From VT Require Import Routing.GenTrigger Routing.RoutingProofs.
Open Scope N_scope.

(* the smallest registry on which the generated client lookup departs from the rules:
   namespace /foo has a handler for another event, the catch-all namespace has one for ev *)
Definition cex_reg : reg := [ (s2l "/foo", [ (s2l "other", 1) ]); (s2l "*", [ (s2l "ev", 2) ]) ].

Lemma client_event_resolution_refuted :
  exists r n ev ns args,
    BaseClient__get_event_handler (mk_self r n) (PStr ev) (PStr ns) (PTuple args)
    <> Ok (emb_result (resolve_event client_reserved r ev ns args)).
Proof.
  exists cex_reg, [], (s2l "ev"), (s2l "/foo"), [PInt 7]. vm_compute. discriminate.
Qed.

(* what it does instead / what the rules demand, on that registry *)
Example cex_generated :
  BaseClient__get_event_handler (mk_self cex_reg []) (PStr (s2l "ev")) (PStr (s2l "/foo")) (PTuple [PInt 7])
  = Ok (PTuple [PNone; PTuple [PInt 7]]).
Proof. vm_compute. reflexivity. Qed.
Example cex_spec :
  resolve_event client_reserved cex_reg (s2l "ev") (s2l "/foo") [PInt 7]
  = (Some 2, [PStr (s2l "/foo"); PInt 7]).
Proof. vm_compute. reflexivity. Qed.

(* every configuration with the signature is a violation: together with
   client_event_resolution_except this characterises the failing set exactly *)
Lemma client_event_violations_characterised r n ev ns args :
  skips_catchall_namespace client_reserved r ev ns = true ->
  BaseClient__get_event_handler (mk_self r n) (PStr ev) (PStr ns) (PTuple args)
  <> Ok (emb_result (resolve_event client_reserved r ev ns args)).
Proof.
  unfold BaseClient__get_event_handler, skips_catchall_namespace.
  unfold resolve_event, event_rules, handler_at, unless_reserved.
  rewrite ?getattr_reserved_client.
  case_lookups; cbn [first_match emb_result emb_opt fst snd]; intros; try discriminate.
Qed.

(* consequence for the routing decision: a class-based namespace can win over a
   function handler on the pinned client *)
Lemma client_function_over_class_refuted :
  exists r n ev ns args h a c ev' a',
    resolve_event client_reserved r ev ns args = (Some h, a) /\
    client_trigger (mk_self r n) (PStr ev) (PStr ns) (PTuple args) = Ok (ATrigger c ev' a').
Proof.
  exists cex_reg, [(s2l "/foo", 9)], (s2l "ev"), (s2l "/foo"), [PInt 7].
  do 5 eexists. split; vm_compute; reflexivity.
Qed.
