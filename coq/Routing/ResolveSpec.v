(* C13 - the documented handler-resolution precedence, written as a specification.
   Source: docs/server.rst, docs/client.rst ("Catch-All Event and Namespace Handlers",
   "Class-Based Namespaces") and the docstrings of Server.on / Client.on:
     1. handlers[ns][ev]                 receives  args
     2. handlers[ns]['*']                receives  (ev, *args)        not for reserved events
     3. handlers['*'][ev]                receives  (ns, *args)
     4. handlers['*']['*']               receives  (ev, ns, *args)    not for reserved events
     5. namespace_handlers[ns]           on_<ev> receives  args
     6. namespace_handlers['*']          on_<ev> receives  (ns, *args)
   The first rule that has a target wins; an event with no target is dropped.
   Written independently of the code: typed registries, first-match over a rule list.
   Definitions only. *)
From VT Require Export Base.PyVal.
Open Scope N_scope.

(* typed registries: namespace -> event -> handler id ; namespace -> namespace-object id *)
Definition evmap := list (str * N).
Definition reg := list (str * evmap).
Definition nsreg := list (str * N).

Fixpoint lookup {A} (k : str) (d : list (str * A)) : option A :=
  match d with
  | [] => None
  | (k', v) :: r => if str_eqb k k' then Some v else lookup k r
  end.
Fixpoint memb (k : str) (l : list str) : bool :=
  match l with [] => false | x :: r => str_eqb k x || memb k r end.

Notation star := (s2l "*") (only parsing).

(* reserved events, as documented (the client additionally reserves its internal
   final-disconnect notification) *)
Definition server_reserved : list str := [s2l "connect"; s2l "disconnect"].
Definition client_reserved : list str :=
  [s2l "connect"; s2l "connect_error"; s2l "disconnect"; s2l "__disconnect_final"].

Definition handler_at (r : reg) (ns ev : str) : option N :=
  match lookup ns r with Some d => lookup ev d | None => None end.
Definition unless_reserved (reserved : list str) (ev : str) (o : option N) : option N :=
  if memb ev reserved then None else o.

(* a rule = (target if present, arguments it receives) *)
Definition rule := (option N * list pv)%type.
Fixpoint first_match (rules : list rule) (dflt : list pv) : option N * list pv :=
  match rules with
  | [] => (None, dflt)
  | (Some h, a) :: _ => (Some h, a)
  | (None, _) :: rest => first_match rest dflt
  end.

Definition event_rules (reserved : list str) (r : reg) (ev ns : str) (args : list pv) : list rule :=
  [ (handler_at r ns ev,                                      args);
    (unless_reserved reserved ev (handler_at r ns star),      PStr ev :: args);
    (handler_at r star ev,                                    PStr ns :: args);
    (unless_reserved reserved ev (handler_at r star star),    PStr ev :: PStr ns :: args) ].
Definition namespace_rules (n : nsreg) (ns : str) (args : list pv) : list rule :=
  [ (lookup ns n,   args);
    (lookup star n, PStr ns :: args) ].

(* what _get_event_handler / _get_namespace_handler must return *)
Definition resolve_event reserved r ev ns args := first_match (event_rules reserved r ev ns args) args.
Definition resolve_namespace n ns args := first_match (namespace_rules n ns args) args.

(* WHICH registered namespace object the two class-based rules select, named by the key
   it is registered under (rule 5: the namespace itself; rule 6: the catch-all).  Two
   instances of one namespace class registered for different namespaces are different
   targets: the event must run on the object under this key and on no other. *)
Definition resolve_namespace_key (n : nsreg) (ns : str) : option str :=
  match lookup ns n with
  | Some _ => Some ns
  | None => match lookup star n with Some _ => Some star | None => None end
  end.

(* the whole routing decision *)
Inductive outcome :=
| RunFunction (h : N) (args : list pv)
| RunClass (c : N) (ev : str) (args : list pv)     (* the object c gets trigger_event(ev, args...) and runs its method on_<ev> with args *)
| Dropped.
Definition resolve (reserved : list str) (r : reg) (n : nsreg) (ev ns : str) (args : list pv) : outcome :=
  match resolve_event reserved r ev ns args with
  | (Some h, a) => RunFunction h a
  | (None, _) =>
      match resolve_namespace n ns args with
      | (Some c, a) => RunClass c ev a
      | (None, _) => Dropped
      end
  end.
Definition method_name (ev : str) : str := s2l "on_" ++ ev.

(* which of the six levels fires (used to classify cases) *)
Fixpoint first_index (rules : list rule) (i : nat) : option nat :=
  match rules with
  | [] => None
  | (Some _, _) :: _ => Some i
  | (None, _) :: rest => first_index rest (S i)
  end.
Definition level (reserved : list str) (r : reg) (n : nsreg) (ev ns : str) : option nat :=
  first_index (event_rules reserved r ev ns [] ++ namespace_rules n ns []) 1%nat.

(* The configurations on which an "elif '*' in self.handlers" cascade (pinned client)
   departs from the rules: the namespace has handlers, none of them takes the event,
   and the catch-all namespace has one that should. *)
Definition skips_catchall_namespace (reserved : list str) (r : reg) (ev ns : str) : bool :=
  match lookup ns r with
  | None => false
  | Some _ =>
      match handler_at r ns ev, unless_reserved reserved ev (handler_at r ns star) with
      | None, None =>
          match handler_at r star ev, unless_reserved reserved ev (handler_at r star star) with
          | None, None => false
          | _, _ => true
          end
      | _, _ => false
      end
  end.
