(* C13 - full-strength client theorems.  NOT part of the build while the pinned client
   cascade skips the catch-all namespace (see ClientPinned.v): on every run
   harness/props/c13.py copies this text to build/c13/ClientFullTrial.v and tries to
   compile it against the freshly generated Gen_base_client.v; it compiles exactly when
   BaseClient._get_event_handler follows the documented precedence on ALL registries.
   `harness/props/c13.py --promote` installs it as Routing/ClientFull.v together with the
   full-strength Props/C13.v (notes/C13.md). *)
From VT Require Import Routing.GenTrigger Routing.RoutingProofs.
Open Scope N_scope.

Lemma client_event_resolution r n ev ns args :
  BaseClient__get_event_handler (mk_self r n) (PStr ev) (PStr ns) (PTuple args)
  = Ok (emb_result (resolve_event client_reserved r ev ns args)).
Proof.
  unfold BaseClient__get_event_handler.
  unfold resolve_event, event_rules, handler_at, unless_reserved.
  rewrite ?getattr_reserved_client. case_lookups; intros; try reflexivity; try congruence.
Qed.

Lemma client_trigger_resolution r n ev ns args :
  client_trigger (mk_self r n) (PStr ev) (PStr ns) (PTuple args)
  = Ok (emb_action (resolve client_reserved r n ev ns args)).
Proof.
  apply trigger_follows_spec; [apply client_event_resolution|apply client_namespace_resolution].
Qed.

Lemma client_function_over_class r n ev ns args h a :
  resolve_event client_reserved r ev ns args = (Some h, a) ->
  client_trigger (mk_self r n) (PStr ev) (PStr ns) (PTuple args) = Ok (ACall (PObj h) (PTuple a)).
Proof.
  intro H. rewrite client_trigger_resolution. unfold resolve. rewrite H. reflexivity.
Qed.

Lemma client_dropped_when_none r n ev ns args :
  client_trigger (mk_self r n) (PStr ev) (PStr ns) (PTuple args) = Ok ANotHandled <->
  (forall rl, In rl (event_rules client_reserved r ev ns args ++ namespace_rules n ns args) -> fst rl = None).
Proof.
  rewrite client_trigger_resolution, <- resolve_dropped_iff, <- emb_action_not_handled.
  split; [intro H; injection H; auto|intro H; rewrite H; reflexivity].
Qed.

(* server and client apply the same rules (they differ only in the reserved-event table) *)
Lemma client_server_same_rules r n ev ns args :
  memb ev client_reserved = memb ev server_reserved ->
  client_trigger (mk_self r n) (PStr ev) (PStr ns) (PTuple args)
  = server_trigger (mk_self r n) (PStr ev) (PStr ns) (PTuple args).
Proof.
  intro H. rewrite client_trigger_resolution, server_trigger_resolution.
  unfold resolve, resolve_event, event_rules, unless_reserved. rewrite H. reflexivity.
Qed.
