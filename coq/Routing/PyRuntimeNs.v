(* Runtime additions for the output of harness/translator/ns2coq.py (the `trigger_event`
   methods of the four namespace base classes).  Same conventions as Routing/PyRuntime.v:
   every expression is a [Res pv], operands evaluated left to right.  New here:
     - string / sequence concatenation, hasattr / getattr with a computed name, slices,
       `is True`;
     - CALLS of application callables: the callee and its argument tuple are handed to an
       oracle [pv -> pv -> Res pv] (a parameter of the generated definition), so a theorem
       about the generated text quantifies over every behaviour of the application code and
       still says WHICH callable is invoked with WHICH arguments;
     - try / except: a block completes by falling through (with the locals it assigned) or
       by `return`; a handler is selected by the class of the exception.
   Definitions only. *)
From VT Require Export Routing.PyRuntime.
Open Scope N_scope.

(* ---- completions of a statement block inside try / except ---- *)
Inductive completion (A : Type) : Type :=
| Ret (v : pv)          (* a `return` was executed *)
| Fall (x : A).         (* fell through; x = the locals the block assigned *)
Arguments Ret {A} v.
Arguments Fall {A} x.

Definition py_try {A} (body : Res (completion A)) (handlers : exn -> option (Res (completion A)))
  : Res (completion A) :=
  match body with
  | Ok c => Ok c
  | Err e => match handlers e with Some h => h | None => Err e end
  end.

(* ---- operators ---- *)
Definition add_v (x y : pv) : Res pv :=
  match x, y with
  | PStr s, PStr t => Ok (PStr (s ++ t))
  | PList a, PList b => Ok (PList (a ++ b))
  | PTuple a, PTuple b => Ok (PTuple (a ++ b))
  | PFloat _, _ | _, PFloat _ | PBytes _, _ | _, PBytes _ => Err OtherError   (* outside the modelled fragment *)
  | _, _ => match as_int x, as_int y with
            | Some a, Some b => Ok (PInt (a + b))
            | _, _ => Err TypeError
            end
  end.
Definition py_add (a b : Res pv) : Res pv := x <- a ;; y <- b ;; add_v x y.

Definition py_hasattr (cls : list (str * pv)) (o n : Res pv) : Res pv :=
  x <- o ;; y <- n ;;
  match y with
  | PStr s => Ok (PBool (match getattr_v cls x s with Ok _ => true | Err _ => false end))
  | _ => Err TypeError                   (* attribute name must be string *)
  end.
Definition py_getattr_dyn (cls : list (str * pv)) (o n : Res pv) : Res pv :=
  x <- o ;; y <- n ;;
  match y with
  | PStr s => getattr_v cls x s
  | _ => Err TypeError
  end.

Definition py_is_true (a : Res pv) : Res pv :=
  x <- a ;; Ok (PBool (match x with PBool true => true | _ => false end)).

(* e[lo:hi] with optional constant bounds (step 1) *)
Definition clamp_index (z : Z) (len : nat) : nat :=
  let n := Z.of_nat len in
  if (z <? 0)%Z then Z.to_nat (Z.max 0 (z + n)) else Z.to_nat (Z.min z n).
Definition slice_list {A} (l : list A) (lo hi : option Z) : list A :=
  let len := List.length l in
  let a := match lo with Some z => clamp_index z len | None => O end in
  let b := match hi with Some z => clamp_index z len | None => len end in
  firstn (b - a) (skipn a l).
Definition py_slice (e : Res pv) (lo hi : option Z) : Res pv :=
  x <- e ;;
  match x with
  | PTuple l => Ok (PTuple (slice_list l lo hi))
  | PList l => Ok (PList (slice_list l lo hi))
  | PStr s => Ok (PStr (slice_list s lo hi))
  | PBytes _ => Err OtherError
  | _ => Err TypeError
  end.

(* f( *parts ): callee first, then the arguments, then the call itself (the oracle) *)
Definition py_call (oracle : pv -> pv -> Res pv) (f : Res pv) (parts : list (bool * Res pv)) : Res pv :=
  fv <- f ;; l <- py_tuple_parts parts ;; oracle fv (PTuple l).
(* a call of a library predicate on one argument (asyncio.iscoroutinefunction) *)
Definition py_call1 (oracle : pv -> Res pv) (a : Res pv) : Res pv := x <- a ;; oracle x.
