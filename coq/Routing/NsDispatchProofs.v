(* C13 - proofs about the GENERATED `trigger_event` of the four namespace base classes
   (Gen_namespace.v, Gen_async_namespace.v are rewritten from /repo on every run by
   harness/translator/ns2coq.py; this file is re-checked against them): for every
   behaviour of the application code (the call oracle), the method looked up, and called,
   is the bound method on_<event> of THE object that received trigger_event, with the
   arguments it received. *)
From VT Require Import Routing.NsDispatch Routing.Gen_namespace Routing.Gen_async_namespace.
From Coq Require Import Lia.
Open Scope N_scope.

Lemma slice_upto_minus1 {A} (l : list A) : slice_list l None (Some (-1)%Z) = removelast l.
Proof.
  unfold slice_list, clamp_index. rewrite Nat.sub_0_r. cbn [skipn].
  replace (-1 <? 0)%Z with true by reflexivity.
  rewrite removelast_firstn_len. f_equal. lia.
Qed.

(* 'on_' + (event or '') *)
Lemma handler_name_of ev :
  py_add (Ok (PStr (s2l "on_"))) (py_or (Ok (PStr ev)) (Ok (PStr []))) = Ok (PStr (method_name ev)).
Proof. destruct ev; reflexivity. Qed.

Lemma assoc_find_methods c k ms :
  assoc_find (PStr k) (map (fun m => (PStr m, bound_method c m)) ms)
  = if memb k ms then Some (bound_method c k) else None.
Proof.
  induction ms as [|m ms IH]; [reflexivity|].
  cbn [map assoc_find memb]. change (py_eq (PStr k) (PStr m)) with (str_eqb k m).
  destruct (str_eqb k m) eqn:E; cbn [orb]; [|exact IH].
  apply str_eqb_eq in E. subst. reflexivity.
Qed.
Lemma getattr_method cls c ns ms ev :
  getattr_v cls (mk_nsobj c ns ms) (method_name ev)
  = if memb (method_name ev) ms then Ok (bound_method c (method_name ev))
    else match attr_find (method_name ev) cls with Some v => Ok v | None => Err AttributeError end.
Proof.
  unfold getattr_v, mk_nsobj. cbn [assoc_find].
  change (py_eq (PStr (method_name ev)) (PStr (s2l "namespace"))) with (str_eqb (method_name ev) (s2l "namespace")).
  replace (str_eqb (method_name ev) (s2l "namespace")) with false by reflexivity.
  rewrite assoc_find_methods. destruct (memb (method_name ev) ms); reflexivity.
Qed.
Lemma hasattr_method c ns ms ev :
  py_hasattr [] (Ok (mk_nsobj c ns ms)) (Ok (PStr (method_name ev))) = Ok (PBool (memb (method_name ev) ms)).
Proof.
  unfold py_hasattr. cbn [bind]. rewrite getattr_method. destruct (memb (method_name ev) ms); reflexivity.
Qed.
Lemma getattr_dyn_method c ns ms ev :
  memb (method_name ev) ms = true ->
  py_getattr_dyn [] (Ok (mk_nsobj c ns ms)) (Ok (PStr (method_name ev))) = Ok (bound_method c (method_name ev)).
Proof. intro H. unfold py_getattr_dyn. cbn [bind]. rewrite getattr_method, H. reflexivity. Qed.
Lemma call_star call f args : py_call call (Ok f) [(true, Ok (PTuple args))] = call f (PTuple args).
Proof. unfold py_call. cbn [bind py_tuple_parts py_iter]. rewrite app_nil_r. reflexivity. Qed.
Lemma call_star_butlast call f args :
  py_call call (Ok f) [(true, py_slice (Ok (PTuple args)) None (Some (-1)%Z))] = call f (PTuple (removelast args)).
Proof.
  unfold py_call, py_slice. cbn [bind py_tuple_parts py_iter]. rewrite app_nil_r, slice_upto_minus1. reflexivity.
Qed.
Lemma eq_str_op a b : py_eq_op (Ok (PStr a)) (Ok (PStr b)) = Ok (PBool (str_eqb a b)).
Proof. reflexivity. Qed.

Lemma is_true_cases v : py_truthy (py_is_true (Ok v)) = Ok true \/ py_truthy (py_is_true (Ok v)) = Ok false.
Proof. destruct v as [| [|] | | | | | | | |]; cbn; auto. Qed.

(* derived operators are abbreviations: expose the primitive underneath, then normalise *)
Ltac nssimp :=
  unfold py_ne_op, py_not_in, py_is_not_none;
  repeat (progress (
    rewrite ?handler_name_of, ?hasattr_method, ?call_star, ?call_star_butlast, ?eq_str_op;
    cbn [bind py_truthy truthy py_try py_is_true py_call1 py_not py_and py_or negb andb orb exn_eqb])).
(* case analysis on what the application code does, whatever the position *)
Ltac case_call :=
  match goal with
  | |- context [match ?call ?f (PTuple ?a) with _ => _ end] =>
      let E := fresh "E" in destruct (call f (PTuple a)) as [?|[]] eqn:E
  | |- context [bind (?call ?f (PTuple ?a)) _] =>
      let E := fresh "E" in destruct (call f (PTuple a)) as [?|[]] eqn:E
  | |- context [if str_eqb ?e ?d then _ else _] => destruct (str_eqb e d)
  end.
Ltac reuse_calls :=
  repeat match goal with
         | H : ?call ?f (PTuple ?a) = _ |- context [?call ?f (PTuple ?a)] => rewrite H
         end.

Ltac sync_dispatch :=
  intros; unfold dispatch_spec, legacy_retry; nssimp;
  match goal with |- context [memb ?k ?ms] => destruct (memb k ms) eqn:?Em end; nssimp; try reflexivity;
  rewrite ?getattr_dyn_method by assumption; nssimp;
  repeat (case_call; nssimp; reuse_calls; try reflexivity).

Lemma namespace_dispatch_generated call isc c ns ms ev args :
  Namespace_trigger_event call isc (mk_nsobj c ns ms) (PStr ev) (PTuple args) = dispatch_spec call c ms ev args.
Proof. unfold Namespace_trigger_event, Namespace_attrs. sync_dispatch. Qed.
Lemma client_namespace_dispatch_generated call isc c ns ms ev args :
  ClientNamespace_trigger_event call isc (mk_nsobj c ns ms) (PStr ev) (PTuple args) = dispatch_spec call c ms ev args.
Proof. unfold ClientNamespace_trigger_event, ClientNamespace_attrs. sync_dispatch. Qed.

Ltac async_dispatch :=
  intros; unfold dispatch_spec_async, legacy_retry; nssimp;
  match goal with |- context [memb ?k ?ms] => destruct (memb k ms) eqn:?Em end; nssimp; try reflexivity;
  rewrite ?getattr_dyn_method by assumption; nssimp;
  match goal with |- context [?isc (bound_method ?c ?m)] =>
    let v := fresh "v" in let H := fresh "H" in
    destruct (isc (bound_method c m)) as [v|]; cbn [py_call1 bind];
    [destruct (is_true_cases v) as [H|H]; rewrite H|] end;
  nssimp; try reflexivity;
  repeat (case_call; nssimp; reuse_calls; try reflexivity).

Lemma async_namespace_dispatch_generated call isc c ns ms ev args :
  AsyncNamespace_trigger_event call isc (mk_nsobj c ns ms) (PStr ev) (PTuple args)
  = dispatch_spec_async call isc c ms ev args.
Proof. unfold AsyncNamespace_trigger_event, AsyncNamespace_attrs. async_dispatch. Qed.
Lemma async_client_namespace_dispatch_generated call isc c ns ms ev args :
  AsyncClientNamespace_trigger_event call isc (mk_nsobj c ns ms) (PStr ev) (PTuple args)
  = dispatch_spec_async call isc c ms ev args.
Proof. unfold AsyncClientNamespace_trigger_event, AsyncClientNamespace_attrs. async_dispatch. Qed.
