(* The hand model of _trigger_event (Routing/Trigger.v) instantiated with the GENERATED
   lookup functions of server and client.  Definitions only. *)
From VT Require Export Routing.Embed Routing.Trigger.
From VT Require Export Routing.Gen_base_server Routing.Gen_base_client.
Open Scope N_scope.

Definition server_trigger : pv -> pv -> pv -> pv -> Res action :=
  trigger_event BaseServer__get_event_handler BaseServer__get_namespace_handler.
Definition client_trigger : pv -> pv -> pv -> pv -> Res action :=
  trigger_event BaseClient__get_event_handler BaseClient__get_namespace_handler.

(* a typed routing decision as an (untyped) action *)
Definition emb_action (o : outcome) : action :=
  match o with
  | RunFunction h a => ACall (PObj h) (PTuple a)
  | RunClass c ev a => ATrigger (PObj c) (PStr ev) (PTuple a)
  | Dropped => ANotHandled
  end.
