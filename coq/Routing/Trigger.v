(* Hand model of Server._trigger_event / Client._trigger_event (server.py:611-629,
   client.py:435-452 and their asyncio twins) and of Namespace.trigger_event
   (namespace.py:16-33, 154-171; async_namespace.py).  It is parametric in the two lookup
   functions, which are instantiated with the GENERATED ones in RoutingProofs.v and
   Check/C13GenCheck.v.  Definitions only.

     handler, args = self._get_event_handler(event, namespace, args)
     if handler: return handler( *args )
     handler, args = self._get_namespace_handler(namespace, args)
     if handler: return handler.trigger_event(event, *args)
     else: return self.not_handled            (client: falls off, returns None)

   Not modelled: the TypeError retry for legacy one-argument disconnect handlers, and the
   value returned to the caller. *)
From VT Require Export Routing.PyRuntime Routing.ResolveSpec.
Open Scope N_scope.

Inductive action :=
| ACall (handler args : pv)                    (* handler( *args ) *)
| ATrigger (nsobj event args : pv)             (* nsobj.trigger_event(event, *args) *)
| ANotHandled.

Section Trigger.
  Variable get_event_handler : pv -> pv -> pv -> pv -> Res pv.      (* self event namespace args *)
  Variable get_namespace_handler : pv -> pv -> pv -> Res pv.        (* self namespace args *)

  (* "handler, args = f(...)": unpacking anything but a 2-sequence raises *)
  Definition unpack2 (v : pv) : Res (pv * pv) :=
    match v with
    | PTuple [a; b] | PList [a; b] => Ok (a, b)
    | PTuple _ | PList _ => Err ValueError
    | _ => Err TypeError
    end.

  Definition trigger_event (self event namespace args : pv) : Res action :=
    r <- get_event_handler self event namespace args ;;
    '(handler, args1) <- unpack2 r ;;
    if truthy handler then Ok (ACall handler args1)
    else
      r2 <- get_namespace_handler self namespace args1 ;;
      '(handler2, args2) <- unpack2 r2 ;;
      if truthy handler2 then Ok (ATrigger handler2 event args2)
      else Ok ANotHandled.
End Trigger.

(* Namespace.trigger_event: the method called is on_<event>, with the same arguments,
   when the class defines it; otherwise nothing runs. *)
Definition namespace_dispatch (methods : list str) (event : str) (args : list pv)
  : option (str * list pv) :=
  if memb (method_name event) methods then Some (method_name event, args) else None.

(* ---- the calls a routing decision amounts to (what the harness observes) ---- *)
Inductive call :=
| FunRan (h : N) (args : list pv)                     (* a function handler ran *)
| NsTriggered (c : N) (ev : str) (args : list pv)      (* a class-based namespace got trigger_event *)
| MethodRan (c : N) (m : str) (args : list pv).        (* ... and its on_<event> method ran *)

Definition calls_of_outcome (methods : list str) (o : outcome) : list call :=
  match o with
  | RunFunction h a => [FunRan h a]
  | RunClass c ev a =>
      NsTriggered c ev a ::
      match namespace_dispatch methods ev a with Some (m, a') => [MethodRan c m a'] | None => [] end
  | Dropped => []
  end.

(* decoding an untyped action into calls; [None] = not a well-typed action *)
Definition calls_of_action (methods : list str) (a : action) : option (list call) :=
  match a with
  | ACall (PObj h) (PTuple l) => Some [FunRan h l]
  | ATrigger (PObj c) (PStr ev) (PTuple l) => Some (calls_of_outcome methods (RunClass c ev l))
  | ANotHandled => Some []
  | _ => None
  end.
