(* C13 - what `trigger_event` of a class-based namespace object must do ("class-based
   namespaces receive the event in the method named on_<event>"), stated over the model of
   a namespace OBJECT, independent of the generated text.

   Object c of a class defining the methods `methods`, created for namespace ns: the
   dictionary of what getattr finds on it - its `namespace` attribute and its BOUND methods.
   The bound method `c.m` is a value that names both the object and the method, so a
   statement about which value is called says on which instance the method runs.

   Calls of application code go through an oracle (any function of callee and argument
   tuple); `legacy_retry` is the documented fallback for disconnect handlers that do not
   take the reason argument.  Definitions only. *)
From VT Require Export Routing.PyRuntimeNs Routing.ResolveSpec.
Open Scope N_scope.

Definition bound_method (c : N) (m : str) : pv := PTuple [PObj c; PStr m].
Definition mk_nsobj (c : N) (ns : str) (methods : list str) : pv :=
  PDict ((PStr (s2l "namespace"), PStr ns) :: map (fun m => (PStr m, bound_method c m)) methods).

Definition legacy_retry (call : pv -> pv -> Res pv) (ev : str) (f : pv) (args : list pv) : Res pv :=
  match call f (PTuple args) with
  | Err TypeError =>
      if str_eqb ev (s2l "disconnect") then call f (PTuple (removelast args)) else Err TypeError
  | r => r
  end.

(* synchronous classes (Namespace, ClientNamespace) *)
Definition dispatch_spec (call : pv -> pv -> Res pv) (c : N) (methods : list str) (ev : str) (args : list pv)
  : Res pv :=
  if memb (method_name ev) methods
  then legacy_retry call ev (bound_method c (method_name ev)) args
  else Ok PNone.
(* asyncio classes: the method is first classified (coroutine function or not), then
   called - awaited or not - with the same arguments *)
Definition dispatch_spec_async (call : pv -> pv -> Res pv) (iscoro : pv -> Res pv)
  (c : N) (methods : list str) (ev : str) (args : list pv) : Res pv :=
  if memb (method_name ev) methods
  then _ <- iscoro (bound_method c (method_name ev)) ;; legacy_retry call ev (bound_method c (method_name ev)) args
  else Ok PNone.

(* ---- reading the decision off a run: the oracle that answers with what it was asked ---- *)
Definition echo_call (f args : pv) : Res pv := Ok (PTuple [f; args]).
Definition never_coroutine (_ : pv) : Res pv := Ok (PBool false).
(* Some (c, m, args) = the bound method c.m was called with args; None = nothing was called *)
Definition decode_echo (r : Res pv) : Res (option (N * str * list pv)) :=
  match r with
  | Ok PNone => Ok None
  | Ok (PTuple [PTuple [PObj c; PStr m]; PTuple a]) => Ok (Some (c, m, a))
  | Ok _ => Err TypeError
  | Err e => Err e
  end.
