(* C13 - histories: for EVERY sequence of registrations and events, on any number of hosts
   sharing any namespace classes, the model (generated lookups under the hand model of
   _trigger_event, Routing/GenTrigger.v) produces for every event exactly what the
   specification prescribes on the registrations made so far on the event's host - the
   same callable, the same namespace OBJECT (identified by its own `namespace`
   attribute), the same arguments.  Generic in the trigger function; instantiated with the
   server (RoutingProofs.v) and the client (ClientFull.v). *)
From VT Require Import Routing.GenTrigger Routing.RoutingProofs Routing.ClientFull Routing.History.
Open Scope N_scope.

Lemma outcome_of_emb_action o : outcome_of_action (emb_action o) = Some o.
Proof. destruct o; reflexivity. Qed.

Lemma lookup_In {A} k (d : list (str * A)) v : lookup k d = Some v -> In (k, v) d.
Proof.
  induction d as [|[k' v'] d IH]; cbn [lookup]; [discriminate|].
  destruct (str_eqb k k') eqn:E.
  - intro H. inversion H; subst. apply str_eqb_eq in E. subst. left. reflexivity.
  - intro H. right. apply IH. exact H.
Qed.

(* the object the class-based rules select sits under the key the specification names *)
Lemma resolve_class_key reserved ot r n ev ns args c ev' a :
  nsreg_wf ot n ->
  resolve reserved r n ev ns args = RunClass c ev' a ->
  resolve_namespace_key n ns = Some (obj_namespace ot c).
Proof.
  intros Hwf. unfold resolve, resolve_namespace, namespace_rules, resolve_namespace_key.
  destruct (resolve_event reserved r ev ns args) as [[h|] a0]; [discriminate|].
  cbn [first_match].
  destruct (lookup ns n) as [c1|] eqn:E1.
  - intro H. inversion H; subst. f_equal. symmetry. apply Hwf. apply lookup_In. exact E1.
  - destruct (lookup star n) as [c2|] eqn:E2; [|discriminate].
    intro H. inversion H; subst. f_equal. symmetry. apply Hwf. apply lookup_In. exact E2.
Qed.

Section Generic.
  Variable trig : pv -> pv -> pv -> pv -> Res action.
  Variable reserved : list str.
  Hypothesis trig_spec : forall r n ev ns args,
    trig (mk_self r n) (PStr ev) (PStr ns) (PTuple args) = Ok (emb_action (resolve reserved r n ev ns args)).
  Variable ot : objtable.

  Lemma route_agree r n ev ns args :
    nsreg_wf ot n -> model_route trig ot r n ev ns args = spec_route reserved ot r n ev ns args.
  Proof.
    intro Hwf. unfold model_route, spec_route. rewrite trig_spec. cbn [bind].
    rewrite outcome_of_emb_action. f_equal.
    destruct (resolve reserved r n ev ns args) as [h a|c ev' a|] eqn:E; try reflexivity.
    cbn [outcome_object option_map]. rewrite (resolve_class_key _ _ _ _ _ _ _ _ _ _ Hwf E). reflexivity.
  Qed.

  (* ---- registrations keep every object under its own `namespace` ---- *)
  Lemma set_assoc_In {A} k (v : A) d k' v' :
    In (k', v') (set_assoc k v d) -> In (k', v') d \/ (k' = k /\ v' = v).
  Proof.
    induction d as [|[k0 v0] d IH]; cbn [set_assoc].
    - intros [H|[]]. inversion H; subst. right. split; reflexivity.
    - destruct (str_eqb k k0) eqn:E.
      + apply str_eqb_eq in E. subst k0. intros [H|H].
        * inversion H; subst. right. split; reflexivity.
        * left. right. exact H.
      + intros [H|H]; [left; left; exact H|].
        destruct (IH H) as [H'|H']; [left; right; exact H'|right; exact H'].
  Qed.
  Lemma nsreg_wf_register n c : nsreg_wf ot n -> nsreg_wf ot (set_assoc (obj_namespace ot c) c n).
  Proof.
    intros Hwf k c' Hin. apply set_assoc_In in Hin as [Hin|[-> ->]]; [apply Hwf; exact Hin|reflexivity].
  Qed.
  Lemma nsreg_wf_nil : nsreg_wf ot [].
  Proof. intros k c []. Qed.

  Lemma upd_host_wf i f st :
    (forall hs, nsreg_wf ot (snd hs) -> nsreg_wf ot (snd (f hs))) ->
    hstate_wf ot st -> hstate_wf ot (upd_host i f st).
  Proof.
    intro Hf. revert st. induction i as [|i IH]; intros [|x st] Hwf hs Hin; cbn [upd_host] in Hin.
    - destruct Hin as [<-|[]]. apply Hf. exact nsreg_wf_nil.
    - destruct Hin as [<-|Hin]; [apply Hf; apply Hwf; left; reflexivity|apply Hwf; right; exact Hin].
    - destruct Hin as [<-|Hin]; [exact nsreg_wf_nil|].
      apply (IH []); [intros ? []|exact Hin].
    - destruct Hin as [<-|Hin]; [apply Hwf; left; reflexivity|].
      apply (IH st); [intros ? H; apply Hwf; right; exact H|exact Hin].
  Qed.
  Lemma get_host_wf st i : hstate_wf ot st -> nsreg_wf ot (snd (get_host st i)).
  Proof.
    intro Hwf. unfold get_host. destruct (nth_in_or_default i st empty_host) as [H|H].
    - apply Hwf. exact H.
    - rewrite H. exact nsreg_wf_nil.
  Qed.
  Lemma hstep_wf route st o : hstate_wf ot st -> hstate_wf ot (fst (hstep ot route st o)).
  Proof.
    intro Hwf. destruct o as [i ns ev h|i c|i ev ns args]; cbn [hstep fst].
    - apply upd_host_wf; [intros hs H; exact H|exact Hwf].
    - apply upd_host_wf; [intros hs H; cbn [snd]; apply nsreg_wf_register; exact H|exact Hwf].
    - exact Hwf.
  Qed.

  Lemma hstep_agree st o :
    hstate_wf ot st -> hstep ot (model_route trig ot) st o = hstep ot (spec_route reserved ot) st o.
  Proof.
    intro Hwf. destruct o as [i ns ev h|i c|i ev ns args]; cbn [hstep]; try reflexivity.
    rewrite route_agree by (apply get_host_wf; exact Hwf). reflexivity.
  Qed.

  Lemma hrun_agree ops : forall st,
    hstate_wf ot st -> hrun ot (model_route trig ot) st ops = hrun ot (spec_route reserved ot) st ops.
  Proof.
    induction ops as [|o ops IH]; intros st Hwf; cbn [hrun]; [reflexivity|].
    rewrite hstep_agree by exact Hwf.
    destruct (hstep ot (spec_route reserved ot) st o) as [st' out] eqn:E.
    rewrite IH; [reflexivity|].
    replace st' with (fst (hstep ot (spec_route reserved ot) st o)) by (rewrite E; reflexivity).
    apply hstep_wf. exact Hwf.
  Qed.

  Lemma history_routing ops :
    hrun ot (model_route trig ot) [] ops = hrun ot (spec_route reserved ot) [] ops.
  Proof. apply hrun_agree. intros hs []. Qed.
End Generic.

Lemma server_history_routing ot ops :
  hrun ot (model_route server_trigger ot) [] ops = hrun ot (spec_route server_reserved ot) [] ops.
Proof. apply history_routing. exact server_trigger_resolution. Qed.
Lemma client_history_routing ot ops :
  hrun ot (model_route client_trigger ot) [] ops = hrun ot (spec_route client_reserved ot) [] ops.
Proof. apply history_routing. exact client_trigger_resolution. Qed.

(* ---- events leave no trace: the registries after a history, and therefore what any
   later event does, are those of the registrations alone ---- *)
Definition is_registration (o : hop) : bool := match o with HEvent _ _ _ _ => false | _ => true end.
Lemma hfinal_ignores_events ot route ops : forall st,
  snd (hrun ot route st ops) = snd (hrun ot route st (filter is_registration ops)).
Proof.
  induction ops as [|o ops IH]; intro st; [reflexivity|].
  destruct o as [i ns ev h|i c|i ev ns args]; cbn [filter is_registration hrun hstep].
  - specialize (IH (upd_host i (fun hs => (reg_on (fst hs) ns ev h, snd hs)) st)).
    destruct (hrun ot route _ ops), (hrun ot route _ (filter is_registration ops)). exact IH.
  - specialize (IH (upd_host i (fun hs => (fst hs, set_assoc (obj_namespace ot c) c (snd hs))) st)).
    destruct (hrun ot route _ ops), (hrun ot route _ (filter is_registration ops)). exact IH.
  - specialize (IH st). destruct (hrun ot route st ops). exact IH.
Qed.
(* the observation of an event delivered after any history *)
Lemma hrun_app ot route a : forall st b,
  hrun ot route st (a ++ b) =
  (fst (hrun ot route st a) ++ fst (hrun ot route (snd (hrun ot route st a)) b),
   snd (hrun ot route (snd (hrun ot route st a)) b)).
Proof.
  induction a as [|o a IH]; intros st b; cbn [app hrun fst snd].
  - destruct (hrun ot route st b); reflexivity.
  - destruct (hstep ot route st o) as [st' out]. rewrite IH.
    destruct (hrun ot route st' a) as [outs fin]. cbn [fst snd app].
    destruct (hrun ot route fin b); reflexivity.
Qed.
Lemma server_event_after_history ot ops i ev ns args :
  let st := snd (hrun ot (model_route server_trigger ot) [] (filter is_registration ops)) in
  last (fst (hrun ot (model_route server_trigger ot) [] (ops ++ [HEvent i ev ns args]))) None
  = Some (Ok (kcalls_of_outcome ot (resolve_namespace_key (snd (get_host st i)) ns)
                (resolve server_reserved (fst (get_host st i)) (snd (get_host st i)) ev ns args))).
Proof.
  intro st. rewrite server_history_routing, hrun_app. cbn [fst hrun hstep].
  rewrite last_last. unfold spec_route. subst st.
  rewrite <- hfinal_ignores_events, server_history_routing. reflexivity.
Qed.

(* satisfiable and non-trivial: one class, three instances, the same event three times *)
Definition ex_ot : objtable :=
  [ (100, NsObj (s2l "/a") [s2l "on_msg"]); (101, NsObj (s2l "/b") [s2l "on_msg"]);
    (102, NsObj (s2l "*") [s2l "on_msg"]) ].
Example ex_history :
  fst (hrun ex_ot (model_route server_trigger ex_ot) []
         [ HRegister 0 100; HRegister 0 101; HRegister 0 102;
           HEvent 0 (s2l "msg") (s2l "/a") [PInt 1];
           HEvent 0 (s2l "msg") (s2l "/b") [PInt 2];
           HEvent 0 (s2l "msg") (s2l "/zz") [PInt 3] ])
  = [ None; None; None;
      Some (Ok [ (NsTriggered 100 (s2l "msg") [PInt 1], Some (s2l "/a"));
                 (MethodRan 100 (s2l "on_msg") [PInt 1], Some (s2l "/a")) ]);
      Some (Ok [ (NsTriggered 101 (s2l "msg") [PInt 2], Some (s2l "/b"));
                 (MethodRan 101 (s2l "on_msg") [PInt 2], Some (s2l "/b")) ]);
      Some (Ok [ (NsTriggered 102 (s2l "msg") [PStr (s2l "/zz"); PInt 3], Some (s2l "*"));
                 (MethodRan 102 (s2l "on_msg") [PStr (s2l "/zz"); PInt 3], Some (s2l "*")) ]) ].
Proof. vm_compute. reflexivity. Qed.

(* ---- the same with the GENERATED trigger_event of the namespace classes in the path ---- *)
From VT Require Import Routing.HistoryGen Routing.NsDispatchProofs.

Lemma gen_trigger_event_spec k c ns ms ev args :
  gen_trigger_event k echo_call never_coroutine (mk_nsobj c ns ms) (PStr ev) (PTuple args)
  = if memb (method_name ev) ms then Ok (PTuple [bound_method c (method_name ev); PTuple args]) else Ok PNone.
Proof.
  destruct k; cbn [gen_trigger_event];
    rewrite ?namespace_dispatch_generated, ?client_namespace_dispatch_generated,
            ?async_namespace_dispatch_generated, ?async_client_namespace_dispatch_generated;
    unfold dispatch_spec, dispatch_spec_async, legacy_retry, never_coroutine, echo_call;
    destruct (memb (method_name ev) ms); reflexivity.
Qed.

Lemma gen_dispatch_spec k ot c ev args :
  gen_dispatch k ot c ev args = Ok (kcalls_of_outcome ot (Some (obj_namespace ot c)) (RunClass c ev args)).
Proof.
  unfold gen_dispatch, obj_model. rewrite gen_trigger_event_spec.
  unfold kcalls_of_outcome, calls_of_outcome, namespace_dispatch.
  destruct (memb (method_name ev) (obj_methods ot c)); reflexivity.
Qed.

Lemma model_route_gen_eq k trig ot r n ev ns args :
  model_route_gen k trig ot r n ev ns args = model_route trig ot r n ev ns args.
Proof.
  unfold model_route_gen, model_route.
  destruct (trig (mk_self r n) (PStr ev) (PStr ns) (PTuple args)) as [a|e]; [|reflexivity].
  cbn [bind]. destruct (outcome_of_action a) as [[h l|c ev' l|]|]; try reflexivity.
  apply gen_dispatch_spec.
Qed.

Lemma hrun_ext ot (f g : router) :
  (forall r n ev ns args, f r n ev ns args = g r n ev ns args) ->
  forall ops st, hrun ot f st ops = hrun ot g st ops.
Proof.
  intros H ops. induction ops as [|o ops IH]; intro st; cbn [hrun]; [reflexivity|].
  assert (Hs : hstep ot f st o = hstep ot g st o) by (destruct o; cbn [hstep]; rewrite ?H; reflexivity).
  rewrite Hs. destruct (hstep ot g st o) as [st' out]. rewrite IH. reflexivity.
Qed.

Lemma server_history_routing_gen k ot ops :
  hrun ot (model_route_gen k server_trigger ot) [] ops = hrun ot (spec_route server_reserved ot) [] ops.
Proof.
  rewrite (hrun_ext ot _ (model_route server_trigger ot)) by (intros; apply model_route_gen_eq).
  apply server_history_routing.
Qed.
Lemma client_history_routing_gen k ot ops :
  hrun ot (model_route_gen k client_trigger ot) [] ops = hrun ot (spec_route client_reserved ot) [] ops.
Proof.
  rewrite (hrun_ext ot _ (model_route client_trigger ot)) by (intros; apply model_route_gen_eq).
  apply client_history_routing.
Qed.
