(* C13 - the history model with the GENERATED `trigger_event` of the namespace classes in
   the dispatch path: the generated lookups select the namespace object (hand model of
   _trigger_event, Routing/Trigger.v), then the generated `trigger_event` of the object's
   base class is run on the model of THAT object with the oracle that answers every call
   with (callee, arguments); which bound method was called - of which object - is read
   off the answer.  Definitions only. *)
From VT Require Export Routing.History Routing.NsDispatch.
From VT Require Export Routing.Gen_namespace Routing.Gen_async_namespace.
Open Scope N_scope.

Inductive nsclass := KNamespace | KClientNamespace | KAsyncNamespace | KAsyncClientNamespace.
Definition gen_trigger_event (k : nsclass)
  : (pv -> pv -> Res pv) -> (pv -> Res pv) -> pv -> pv -> pv -> Res pv :=
  match k with
  | KNamespace => Namespace_trigger_event
  | KClientNamespace => ClientNamespace_trigger_event
  | KAsyncNamespace => AsyncNamespace_trigger_event
  | KAsyncClientNamespace => AsyncClientNamespace_trigger_event
  end.

Definition obj_model (ot : objtable) (c : N) : pv := mk_nsobj c (obj_namespace ot c) (obj_methods ot c).

(* object c receives trigger_event(ev, *args) *)
Definition gen_dispatch (k : nsclass) (ot : objtable) (c : N) (ev : str) (args : list pv) : Res (list kcall) :=
  r <- decode_echo (gen_trigger_event k echo_call never_coroutine (obj_model ot c) (PStr ev) (PTuple args)) ;;
  Ok ((NsTriggered c ev args, Some (obj_namespace ot c)) ::
      match r with
      | Some (c', m, a) => [(MethodRan c' m a, Some (obj_namespace ot c'))]
      | None => []
      end).

Definition model_route_gen (k : nsclass) (trig : pv -> pv -> pv -> pv -> Res action) (ot : objtable) : router :=
  fun r n ev ns args =>
    a <- trig (mk_self r n) (PStr ev) (PStr ns) (PTuple args) ;;
    match outcome_of_action a with
    | Some (RunClass c ev' l) => gen_dispatch k ot c ev' l
    | Some o => Ok (kcalls_of_outcome ot None o)
    | None => Err TypeError
    end.
