(* C13 - proofs about the GENERATED lookup functions (Gen_base_server.v, Gen_base_client.v
   are rewritten from /repo on every run; this file is re-checked against them).
   Everything in this file holds for the pinned client cascade (elif) AND for a client
   that mirrors the server; what is specific to one of the two lives in ClientPinned.v /
   ClientFull.v.  Proofs over generated text only use the shape-selecting tactics of
   Embed.v (pysimp / case_lookups): no positional names, no goal counts. *)
From VT Require Import Routing.GenTrigger.
Open Scope N_scope.

(* ---- the reserved-event tables of the code are the documented ones ---- *)
Lemma getattr_reserved_server r n :
  py_getattr BaseServer_attrs (Ok (mk_self r n)) (s2l "reserved_events") = Ok (emb_strs server_reserved).
Proof. reflexivity. Qed.
Lemma getattr_reserved_client r n :
  py_getattr BaseClient_attrs (Ok (mk_self r n)) (s2l "reserved_events") = Ok (emb_strs client_reserved).
Proof. reflexivity. Qed.

Ltac unfold_spec :=
  unfold resolve_event, resolve_namespace, event_rules, namespace_rules, handler_at, unless_reserved.
Ltac finish := intros; try reflexivity; try discriminate; try congruence.

(* ---- server ---- *)
Lemma server_event_resolution r n ev ns args :
  BaseServer__get_event_handler (mk_self r n) (PStr ev) (PStr ns) (PTuple args)
  = Ok (emb_result (resolve_event server_reserved r ev ns args)).
Proof.
  unfold BaseServer__get_event_handler; unfold_spec.
  rewrite ?getattr_reserved_server. case_lookups; finish.
Qed.

Lemma server_namespace_resolution r n ns args :
  BaseServer__get_namespace_handler (mk_self r n) (PStr ns) (PTuple args)
  = Ok (emb_result (resolve_namespace n ns args)).
Proof.
  unfold BaseServer__get_namespace_handler; unfold_spec.
  rewrite ?getattr_reserved_server. case_lookups; finish.
Qed.

(* ---- client ---- *)
Lemma client_namespace_resolution r n ns args :
  BaseClient__get_namespace_handler (mk_self r n) (PStr ns) (PTuple args)
  = Ok (emb_result (resolve_namespace n ns args)).
Proof.
  unfold BaseClient__get_namespace_handler; unfold_spec.
  rewrite ?getattr_reserved_client. case_lookups; finish.
Qed.

(* equality outside the configurations singled out by skips_catchall_namespace *)
Lemma client_event_resolution_except r n ev ns args :
  skips_catchall_namespace client_reserved r ev ns = false ->
  BaseClient__get_event_handler (mk_self r n) (PStr ev) (PStr ns) (PTuple args)
  = Ok (emb_result (resolve_event client_reserved r ev ns args)).
Proof.
  unfold BaseClient__get_event_handler, skips_catchall_namespace; unfold_spec.
  rewrite ?getattr_reserved_client. case_lookups; finish.
Qed.

(* ---- spec-level facts (no generated text involved) ---- *)
Lemma first_match_none rules dflt a : first_match rules dflt = (None, a) -> a = dflt.
Proof.
  induction rules as [|[[h|] x] rules IH]; cbn [first_match]; intro H.
  - congruence. - discriminate. - exact (IH H).
Qed.
Lemma first_match_none_iff rules dflt :
  fst (first_match rules dflt) = None <-> (forall rl, In rl rules -> fst rl = None).
Proof.
  induction rules as [|[[h|] x] rules IH]; cbn [first_match In fst].
  - split; [intros _ rl []|reflexivity].
  - split; [discriminate|]. intro H. exact (H (Some h, x) (or_introl eq_refl)).
  - rewrite IH. split.
    + intros H rl [<-|Hin]; [reflexivity|exact (H rl Hin)].
    + intros H rl Hin. exact (H rl (or_intror Hin)).
Qed.

Lemma resolve_dropped_iff reserved r n ev ns args :
  resolve reserved r n ev ns args = Dropped <->
  (forall rl, In rl (event_rules reserved r ev ns args ++ namespace_rules n ns args) -> fst rl = None).
Proof.
  unfold resolve, resolve_event, resolve_namespace.
  pose proof (first_match_none_iff (event_rules reserved r ev ns args) args) as He.
  pose proof (first_match_none_iff (namespace_rules n ns args) args) as Hn.
  destruct (first_match (event_rules reserved r ev ns args) args) as [[h|] a];
    destruct (first_match (namespace_rules n ns args) args) as [[c|] a']; cbn [fst] in *.
  all: split; intro H; try discriminate; try reflexivity.
  - assert (Some h = None) by (apply He; intros rl Hin; apply H, in_or_app; left; exact Hin). discriminate.
  - assert (Some h = None) by (apply He; intros rl Hin; apply H, in_or_app; left; exact Hin). discriminate.
  - assert (Some c = None) by (apply Hn; intros rl Hin; apply H, in_or_app; right; exact Hin). discriminate.
  - intros rl Hin. apply in_app_or in Hin as [Hin|Hin]; [apply He|apply Hn]; auto.
Qed.

(* ---- the hand model of _trigger_event on top of any correct pair of lookups ---- *)
Lemma trigger_follows_spec get_ev get_ns reserved r n ev ns args :
  get_ev (mk_self r n) (PStr ev) (PStr ns) (PTuple args)
    = Ok (emb_result (resolve_event reserved r ev ns args)) ->
  get_ns (mk_self r n) (PStr ns) (PTuple args) = Ok (emb_result (resolve_namespace n ns args)) ->
  trigger_event get_ev get_ns (mk_self r n) (PStr ev) (PStr ns) (PTuple args)
    = Ok (emb_action (resolve reserved r n ev ns args)).
Proof.
  intros Hev Hns. unfold trigger_event, resolve. rewrite Hev.
  destruct (resolve_event reserved r ev ns args) as [[h|] a] eqn:E;
    cbn [bind unpack2 emb_result emb_opt fst snd truthy].
  - reflexivity.
  - apply first_match_none in E. subst a. rewrite Hns.
    destruct (resolve_namespace n ns args) as [[c|] a'];
      cbn [bind unpack2 emb_result emb_opt fst snd truthy]; reflexivity.
Qed.

Lemma emb_action_not_handled o : emb_action o = ANotHandled <-> o = Dropped.
Proof. destruct o; cbn [emb_action]; split; intro H; try discriminate; reflexivity. Qed.

(* ---- server: routing decision = specification ---- *)
Lemma server_trigger_resolution r n ev ns args :
  server_trigger (mk_self r n) (PStr ev) (PStr ns) (PTuple args)
  = Ok (emb_action (resolve server_reserved r n ev ns args)).
Proof.
  apply trigger_follows_spec; [apply server_event_resolution|apply server_namespace_resolution].
Qed.

(* a function handler always wins over a class-based namespace, whatever is registered *)
Lemma server_function_over_class r n ev ns args h a :
  resolve_event server_reserved r ev ns args = (Some h, a) ->
  server_trigger (mk_self r n) (PStr ev) (PStr ns) (PTuple args) = Ok (ACall (PObj h) (PTuple a)).
Proof.
  intro H. rewrite server_trigger_resolution. unfold resolve. rewrite H. reflexivity.
Qed.

(* an event is dropped exactly when none of the six rules has a target *)
Lemma server_dropped_when_none r n ev ns args :
  server_trigger (mk_self r n) (PStr ev) (PStr ns) (PTuple args) = Ok ANotHandled <->
  (forall rl, In rl (event_rules server_reserved r ev ns args ++ namespace_rules n ns args) -> fst rl = None).
Proof.
  rewrite server_trigger_resolution, <- resolve_dropped_iff, <- emb_action_not_handled.
  split; [intro H; injection H; auto|intro H; rewrite H; reflexivity].
Qed.

(* ---- client, outside the excepted configurations ---- *)
Lemma client_trigger_resolution_except r n ev ns args :
  skips_catchall_namespace client_reserved r ev ns = false ->
  client_trigger (mk_self r n) (PStr ev) (PStr ns) (PTuple args)
  = Ok (emb_action (resolve client_reserved r n ev ns args)).
Proof.
  intro H. apply trigger_follows_spec;
    [apply client_event_resolution_except; exact H|apply client_namespace_resolution].
Qed.
Lemma client_function_over_class_except r n ev ns args h a :
  skips_catchall_namespace client_reserved r ev ns = false ->
  resolve_event client_reserved r ev ns args = (Some h, a) ->
  client_trigger (mk_self r n) (PStr ev) (PStr ns) (PTuple args) = Ok (ACall (PObj h) (PTuple a)).
Proof.
  intros Hs H. rewrite client_trigger_resolution_except by exact Hs. unfold resolve. rewrite H. reflexivity.
Qed.
Lemma client_dropped_when_none_except r n ev ns args :
  skips_catchall_namespace client_reserved r ev ns = false ->
  (client_trigger (mk_self r n) (PStr ev) (PStr ns) (PTuple args) = Ok ANotHandled <->
   (forall rl, In rl (event_rules client_reserved r ev ns args ++ namespace_rules n ns args) -> fst rl = None)).
Proof.
  intro Hs. rewrite client_trigger_resolution_except by exact Hs.
  rewrite <- resolve_dropped_iff, <- emb_action_not_handled.
  split; [intro H; injection H; auto|intro H; rewrite H; reflexivity].
Qed.

(* ---- the hypotheses are satisfiable by non-trivial registries ---- *)
Definition ex_reg : reg :=
  [ (s2l "/chat", [ (s2l "msg", 1); (s2l "*", 2) ]); (s2l "*", [ (s2l "msg", 3); (s2l "*", 4) ]) ].
Definition ex_nsreg : nsreg := [ (s2l "/chat", 5); (s2l "*", 6) ].
Example ex_level1 : resolve server_reserved ex_reg ex_nsreg (s2l "msg") (s2l "/chat") [PInt 7]
                    = RunFunction 1 [PInt 7].
Proof. reflexivity. Qed.
Example ex_level2 : resolve server_reserved ex_reg ex_nsreg (s2l "other") (s2l "/chat") [PInt 7]
                    = RunFunction 2 [PStr (s2l "other"); PInt 7].
Proof. reflexivity. Qed.
Example ex_level3 : resolve server_reserved ex_reg ex_nsreg (s2l "msg") (s2l "/x") [PInt 7]
                    = RunFunction 3 [PStr (s2l "/x"); PInt 7].
Proof. reflexivity. Qed.
Example ex_level4 : resolve server_reserved ex_reg ex_nsreg (s2l "other") (s2l "/x") [PInt 7]
                    = RunFunction 4 [PStr (s2l "other"); PStr (s2l "/x"); PInt 7].
Proof. reflexivity. Qed.
Example ex_level5_reserved : resolve server_reserved ex_reg ex_nsreg (s2l "connect") (s2l "/chat") [PInt 7]
                    = RunClass 5 (s2l "connect") [PInt 7].
Proof. reflexivity. Qed.
Example ex_level6_reserved : resolve server_reserved ex_reg ex_nsreg (s2l "disconnect") (s2l "/x") [PInt 7]
                    = RunClass 6 (s2l "disconnect") [PStr (s2l "/x"); PInt 7].
Proof. reflexivity. Qed.
Example ex_dropped : resolve server_reserved [] [] (s2l "msg") (s2l "/x") [PInt 7] = Dropped.
Proof. reflexivity. Qed.
(* the except-hypothesis holds on registries that use every level *)
Example ex_except_satisfiable :
  skips_catchall_namespace client_reserved ex_reg (s2l "other") (s2l "/chat") = false /\
  skips_catchall_namespace client_reserved ex_reg (s2l "msg") (s2l "/x") = false.
Proof. split; reflexivity. Qed.
