(* Typing for the untyped generated code: typed registries are embedded into [pv], and
   rewrite lemmas turn the dynamic operations of PyRuntime on embedded values into
   typed lookups.  Nothing here depends on generated text, so this file (and
   Check/C13Check.v on top of it) compiles whatever py2coq produced. *)
From VT Require Export Routing.PyRuntime Routing.ResolveSpec.
Open Scope N_scope.

Definition emb_ev (d : evmap) : pv := PDict (map (fun p => (PStr (fst p), PObj (snd p))) d).
Definition emb_reg (r : reg) : pv := PDict (map (fun p => (PStr (fst p), emb_ev (snd p))) r).
Definition emb_opt (o : option N) : pv := match o with Some n => PObj n | None => PNone end.
Definition emb_strs (l : list str) : pv := PList (map PStr l).
(* the object: its two registry attributes *)
Definition mk_self (r : reg) (n : nsreg) : pv :=
  PDict [ (PStr (s2l "handlers"), emb_reg r); (PStr (s2l "namespace_handlers"), emb_ev n) ].
(* the (handler, args) pair the lookup functions return *)
Definition emb_result (x : option N * list pv) : pv := PTuple [emb_opt (fst x); PTuple (snd x)].

Lemma py_eq_str a b : py_eq (PStr a) (PStr b) = str_eqb a b.
Proof. reflexivity. Qed.

Lemma assoc_find_emb_ev k d :
  assoc_find (PStr k) (map (fun p => (PStr (fst p), PObj (snd p))) d) = option_map PObj (lookup k d).
Proof.
  induction d as [|[k' v] d IH]; [reflexivity|].
  cbn [map assoc_find lookup fst snd]. rewrite py_eq_str.
  destruct (str_eqb k k'); [reflexivity|exact IH].
Qed.
Lemma assoc_find_emb_reg k r :
  assoc_find (PStr k) (map (fun p => (PStr (fst p), emb_ev (snd p))) r) = option_map emb_ev (lookup k r).
Proof.
  induction r as [|[k' v] r IH]; [reflexivity|].
  cbn [map assoc_find lookup fst snd]. rewrite py_eq_str.
  destruct (str_eqb k k'); [reflexivity|exact IH].
Qed.

(* ---- membership ---- *)
Lemma in_emb_reg k r : py_in (Ok (PStr k)) (Ok (emb_reg r)) = Ok (PBool (isSome (lookup k r))).
Proof.
  unfold py_in, emb_reg. cbn [bind contains_v py_hashable]. rewrite assoc_find_emb_reg.
  destruct (lookup k r); reflexivity.
Qed.
Lemma in_emb_ev k d : py_in (Ok (PStr k)) (Ok (emb_ev d)) = Ok (PBool (isSome (lookup k d))).
Proof.
  unfold py_in, emb_ev. cbn [bind contains_v py_hashable]. rewrite assoc_find_emb_ev.
  destruct (lookup k d); reflexivity.
Qed.
Lemma in_emb_strs k l : py_in (Ok (PStr k)) (Ok (emb_strs l)) = Ok (PBool (memb k l)).
Proof.
  unfold py_in, emb_strs. cbn [bind contains_v]. do 2 f_equal.
  induction l as [|x l IH]; [reflexivity|].
  cbn [map existsb memb]. rewrite py_eq_str, IH. reflexivity.
Qed.

(* ---- subscription ---- *)
Lemma get_emb_reg k r :
  py_getitem (Ok (emb_reg r)) (Ok (PStr k)) =
  match lookup k r with Some d => Ok (emb_ev d) | None => Err KeyError end.
Proof.
  unfold py_getitem, emb_reg. cbn [bind getitem_v py_hashable]. rewrite assoc_find_emb_reg.
  destruct (lookup k r); reflexivity.
Qed.
Lemma get_emb_ev k d :
  py_getitem (Ok (emb_ev d)) (Ok (PStr k)) =
  match lookup k d with Some n => Ok (PObj n) | None => Err KeyError end.
Proof.
  unfold py_getitem, emb_ev. cbn [bind getitem_v py_hashable]. rewrite assoc_find_emb_ev.
  destruct (lookup k d); reflexivity.
Qed.

(* ---- attributes of the embedded object (instance attributes win over class ones) ---- *)
Lemma getattr_handlers cls r n :
  py_getattr cls (Ok (mk_self r n)) (s2l "handlers") = Ok (emb_reg r).
Proof. reflexivity. Qed.
Lemma getattr_namespace_handlers cls r n :
  py_getattr cls (Ok (mk_self r n)) (s2l "namespace_handlers") = Ok (emb_ev n).
Proof. reflexivity. Qed.
(* any other attribute comes from the class *)
Lemma getattr_class cls r n name :
  str_eqb name (s2l "handlers") = false -> str_eqb name (s2l "namespace_handlers") = false ->
  py_getattr cls (Ok (mk_self r n)) name =
  match attr_find name cls with Some v => Ok v | None => Err AttributeError end.
Proof.
  intros H1 H2. unfold py_getattr, mk_self. cbn [bind getattr_v assoc_find].
  rewrite !py_eq_str, H1, H2. reflexivity.
Qed.

(* ---- the normalisation tactic used on generated text ---- *)
(* derived operators are definitional abbreviations: expose the primitive underneath *)
Ltac pyprep := unfold py_not_in, py_is_not_none, py_ne_op.
Ltac pysimp :=
  repeat (progress (
    cbn [bind py_truthy truthy py_is_none py_is_not_none py_not py_not_in py_and py_or
         py_tuple_star py_tuple_parts py_iter app emb_opt isSome negb andb orb fst snd];
    rewrite ?getattr_handlers, ?getattr_namespace_handlers,
            ?in_emb_reg, ?in_emb_ev, ?in_emb_strs, ?get_emb_reg, ?get_emb_ev, ?app_nil_r)).

(* pick the next typed lookup that the goal scrutinises, whatever its position *)
Ltac case_lookup :=
  match goal with
  | |- context [lookup ?k ?d] => let E := fresh "E" in destruct (lookup k d) eqn:E
  | |- context [memb ?k ?l] => let E := fresh "E" in destruct (memb k l) eqn:E
  end.
Ltac reuse_lookups :=
  repeat match goal with
         | H : lookup ?k ?d = _ |- context [lookup ?k ?d] => rewrite H
         | H : memb ?k ?l = _ |- context [memb ?k ?l] => rewrite H
         end.
Ltac case_lookups := pyprep; repeat (pysimp; reuse_lookups; case_lookup); pysimp; reuse_lookups.
