(* Dynamic (untyped) runtime for the output of harness/translator/py2coq.py.
   Every Python expression is translated to a term of type [Res pv]; the operators
   below therefore take their operands as [Res pv] and evaluate them left to right,
   as CPython does.  No typing, no knowledge of socketio: the typing lives on the
   proof side (Routing/Embed.v).  Definitions only. *)
From VT Require Export Base.PyVal.
Open Scope N_scope.

(* ---- hashing / lookup in dictionaries ---- *)
Fixpoint py_hashable (v : pv) : bool :=
  match v with
  | PList _ | PDict _ => false
  | PTuple l => (fix go (l : list pv) : bool :=
                   match l with [] => true | x :: r => py_hashable x && go r end) l
  | _ => true
  end.

(* first entry whose key is == to k (keys of a real dict are pairwise !=) *)
Fixpoint assoc_find (k : pv) (kv : list (pv * pv)) : option pv :=
  match kv with
  | [] => None
  | (k', v) :: r => if py_eq k k' then Some v else assoc_find k r
  end.

Definition isSome {A} (o : option A) : bool := match o with Some _ => true | None => false end.

(* ---- substring test for [x in "text"] ---- *)
Fixpoint str_prefix (p s : str) : bool :=
  match p, s with
  | [], _ => true
  | x :: p', y :: s' => N.eqb x y && str_prefix p' s'
  | _ :: _, [] => false
  end.
Fixpoint is_substr (p s : str) : bool :=
  str_prefix p s || match s with [] => false | _ :: s' => is_substr p s' end.

(* ---- value-level primitives ---- *)
Definition contains_v (k c : pv) : Res pv :=
  match c with
  | PDict kv => if py_hashable k then Ok (PBool (isSome (assoc_find k kv))) else Err TypeError
  | PList l | PTuple l => Ok (PBool (existsb (py_eq k) l))
  | PStr s => match k with PStr t => Ok (PBool (is_substr t s)) | _ => Err TypeError end
  | PBytes _ => Err OtherError          (* outside the modelled fragment *)
  | _ => Err TypeError                  (* argument of type ... is not iterable *)
  end.

Definition norm_index (z : Z) (len : nat) : option nat :=
  let n := Z.of_nat len in
  if (0 <=? z)%Z && (z <? n)%Z then Some (Z.to_nat z)
  else if (z <? 0)%Z && (0 <=? z + n)%Z then Some (Z.to_nat (z + n))
  else None.

Definition getitem_v (c k : pv) : Res pv :=
  match c with
  | PDict kv => if py_hashable k
                then match assoc_find k kv with Some v => Ok v | None => Err KeyError end
                else Err TypeError
  | PList l | PTuple l =>
      match as_int k with
      | Some z => match norm_index z (List.length l) with
                  | Some i => match nth_error l i with Some v => Ok v | None => Err IndexError end
                  | None => Err IndexError
                  end
      | None => Err TypeError
      end
  | PStr s =>
      match as_int k with
      | Some z => match norm_index z (List.length s) with
                  | Some i => match nth_error s i with Some ch => Ok (PStr [ch]) | None => Err IndexError end
                  | None => Err IndexError
                  end
      | None => Err TypeError
      end
  | PBytes _ => Err OtherError          (* outside the modelled fragment *)
  | _ => Err TypeError                  (* object is not subscriptable *)
  end.

(* iteration, for [*x] inside a tuple display *)
Definition py_iter (v : pv) : Res (list pv) :=
  match v with
  | PList l | PTuple l => Ok l
  | PStr s => Ok (map (fun ch => PStr [ch]) s)
  | PBytes s => Ok (map (fun ch => PInt (Z.of_N ch)) s)
  | PDict kv => Ok (map fst kv)
  | _ => Err TypeError
  end.

(* an object is the dictionary of its instance attributes; [cls] holds the class
   attributes the translator extracted (instance attributes win, as in Python) *)
Fixpoint attr_find (name : str) (attrs : list (str * pv)) : option pv :=
  match attrs with
  | [] => None
  | (k, v) :: r => if str_eqb name k then Some v else attr_find name r
  end.
Definition getattr_v (cls : list (str * pv)) (obj : pv) (name : str) : Res pv :=
  match obj with
  | PDict kv =>
      match assoc_find (PStr name) kv with
      | Some v => Ok v
      | None => match attr_find name cls with Some v => Ok v | None => Err AttributeError end
      end
  | _ => Err AttributeError
  end.

(* ---- the operators the translator emits (operands are [Res pv]) ---- *)
Definition py_in (k c : Res pv) : Res pv := x <- k ;; y <- c ;; contains_v x y.
Definition py_not (a : Res pv) : Res pv := x <- a ;; Ok (PBool (negb (truthy x))).
Definition py_not_in (k c : Res pv) : Res pv := py_not (py_in k c).
Definition py_getitem (c k : Res pv) : Res pv := x <- c ;; y <- k ;; getitem_v x y.
Definition py_getattr (cls : list (str * pv)) (o : Res pv) (name : str) : Res pv :=
  x <- o ;; getattr_v cls x name.
Definition py_is_none (a : Res pv) : Res pv :=
  x <- a ;; Ok (PBool (match x with PNone => true | _ => false end)).
Definition py_is_not_none (a : Res pv) : Res pv := py_not (py_is_none a).
Definition py_eq_op (a b : Res pv) : Res pv := x <- a ;; y <- b ;; Ok (PBool (py_eq x y)).
Definition py_ne_op (a b : Res pv) : Res pv := py_not (py_eq_op a b).
(* short circuit: the second operand is only looked at when needed *)
Definition py_and (a b : Res pv) : Res pv := x <- a ;; if truthy x then b else Ok x.
Definition py_or (a b : Res pv) : Res pv := x <- a ;; if truthy x then Ok x else b.
(* the test of an [if] *)
Definition py_truthy (a : Res pv) : Res bool := x <- a ;; Ok (truthy x).

(* tuple display [(e1, *e2, ...)]: elements evaluated left to right; the flag says "starred" *)
Fixpoint py_tuple_parts (parts : list (bool * Res pv)) : Res (list pv) :=
  match parts with
  | [] => Ok []
  | (starred, e) :: r =>
      v <- e ;;
      items <- (if starred then py_iter v else Ok [v]) ;;
      rest <- py_tuple_parts r ;;
      Ok (items ++ rest)
  end.
Definition py_tuple_star (parts : list (bool * Res pv)) : Res pv :=
  l <- py_tuple_parts parts ;; Ok (PTuple l).
