"""Value generators shared by the property harnesses."""

TEXTS = ['', 'a', 'abc', 'hello world', '1', '12-3', '-', ',', '/', '?', '"', '\\', 'a"b\\c', '\n\t\r\b\f',
         '\x00\x1f\x7f', 'é', '中文', '\U0001f600', '\ud800', '٣٤', '²', '[', '{}',
         '_placeholder', 'num', 'true', 'null', ' ', 'x' * 40, '￿', '\U0010ffff', '~', ' ']


def gen_text(rng, n=8):
    if rng.random() < 0.6:
        return rng.choice(TEXTS)
    alphabet = 'abcXYZ019-,/?"\\ \né٣\U0001f600\x01[]{}:'
    return ''.join(rng.choice(alphabet) for _ in range(rng.randrange(0, n + 1)))


def gen_number(rng):
    r = rng.random()
    if r < 0.5:
        return rng.choice([0, 1, -1, 7, 10, 255, -300, 2 ** 31, 2 ** 63 - 1, -2 ** 63, 10 ** 30, rng.randrange(-1000, 1000)])
    return rng.choice([0.0, -0.0, 1.5, -2.25, 1e300, 1e-7, 3.141592653589793, 1e16, 123456.789, 2.0 ** -1074,
                       rng.randrange(-10 ** 6, 10 ** 6) / 64.0])


def gen_bytes(rng):
    return rng.choice([b'', b'\x00', b'abc', b'\xff\xfe', bytes(rng.randrange(256) for _ in range(rng.randrange(0, 6)))])


def gen_dict(rng, depth, bytes_ok=True):
    d = {}
    for _ in range(rng.randrange(0, 4)):
        k = gen_text(rng, 4)
        if k == '_placeholder':
            continue
        d[k] = gen_json(rng, depth - 1, bytes_ok)
    return d


def gen_json(rng, depth, bytes_ok=True):
    r = rng.random()
    if depth <= 0 or r < 0.45:
        k = rng.randrange(6 if bytes_ok else 5)
        if k == 0:
            return None
        if k == 1:
            return rng.choice([True, False])
        if k == 2:
            return gen_number(rng)
        if k in (3, 4):
            return gen_text(rng)
        return gen_bytes(rng)
    if r < 0.75:
        return [gen_json(rng, depth - 1, bytes_ok) for _ in range(rng.randrange(0, 4))]
    return gen_dict(rng, depth, bytes_ok)


def skeleton(v, depth=3):
    """Shape of a value (types only) used to count distinct cases."""
    if isinstance(v, dict):
        return 'd' if depth == 0 else '{' + ','.join(skeleton(x, depth - 1) for x in v.values()) + '}'
    if isinstance(v, (list, tuple)):
        return 'l' if depth == 0 else '[' + ','.join(skeleton(x, depth - 1) for x in v) + ']'
    if isinstance(v, (bytes, bytearray)):
        return 'b'
    if v is None:
        return 'n'
    if isinstance(v, bool):
        return 'B'
    if isinstance(v, int):
        return 'i'
    if isinstance(v, float):
        return 'f'
    if isinstance(v, str):
        return 's'
    return '?'
