"""Histories for C07 (vocabulary of coq/Cluster/PubSub.v / drivers/cluster.py) with a shadow of
placements, sids and expected ack-requesting packets, so that most operations hit live clients.

An op is a tuple:
  ('connect', h, eio, ns) ('emit', h, event, data, ns, room, skip, cb) ('enter', h, sid, ns, room)
  ('leave', h, sid, ns, room) ('close_room', h, ns, room) ('disconnect', h, sid, ns)
  ('ack', h, eio, j, args) ('consume', h)
A history is (wos, ops, strict): `strict` = inside the domain of the property (rooms are names, callbacks
go to one client's own sid, no client reconnects under the same (transport, namespace)); non-strict
histories additionally exercise error paths and unsupported uses and are compared with the model only."""

ROOMS = ['r1', 'r2', 'r3']
NSS = [None, None, None, '/', '/n']
DATA = [None, 1, 'x', 'hello', [1, 2], {'a': 1}, (1, 'two'), (), ('solo',), [], {'k': [1, {'z': None}]}, 0, True,
        (None,), [[1], 'y'], -5]
ARGS = [[], [1], ['ok', 2], [None], [{'r': 1}], [[1, 2]], ['a', 'b', 'c']]


class Knobs:
    def __init__(self, **kw):
        self.n_ops = 22
        self.delayed = False
        self.strict = True
        self.final_drain = 0.5
        self.w = {'connect': 2.0, 'enter': 4.0, 'leave': 1.5, 'close_room': 0.8, 'emit': 5.0, 'emit_cb': 2.0,
                  'ack': 2.5, 'disconnect': 1.2, 'consume': 0.0}
        self.__dict__.update(kw)


def nsn(ns):
    return ns or '/'


def gen_history(rng, k):
    n_real = rng.choice([2, 2, 3, 3, 4])
    n_wo = rng.choice([0, 1, 1])
    wos = [False] * n_real + [True] * n_wo
    ops = []
    next_sid = [0]
    clients = {}            # sid -> dict(eio, ns, host, alive)
    eio_host = {}           # eio -> host
    expect = {}             # eio -> number of callback emits addressed to one of its live sids
    used = set()            # (eio, ns) ever connected
    cbn = [0]
    hot = [None]            # the last callback target: several outstanding callbacks for one client
    strict = k.strict

    def live():
        return [s for s, c in clients.items() if c['alive']]

    def any_host():
        return rng.randrange(n_real)

    def pick_sid(p_dead=0.1):
        lv = live()
        dead = [s for s in clients if not clients[s]['alive']]
        if lv and (rng.random() > p_dead or not dead):
            return rng.choice(lv)
        if dead and rng.random() < 0.7:
            return rng.choice(dead)
        return 'S%d' % (next_sid[0] + rng.randrange(3))      # not (yet) a client

    def host_for(sid, p_remote=0.55):
        c = clients.get(sid)
        if c is None or rng.random() < p_remote:
            return any_host()
        return c['host']

    def do_connect():
        if eio_host and rng.random() < 0.25:
            eio = rng.choice(sorted(eio_host))
            h = eio_host[eio]
        else:
            eio = 'e%d' % len(eio_host)
            h = any_host()
        ns = rng.choice(NSS)
        if (eio, nsn(ns)) in used:
            if strict:
                return
        eio_host[eio] = h
        sid = 'S%d' % next_sid[0]
        next_sid[0] += 1
        dup = any(c['alive'] and c['eio'] == eio and c['ns'] == nsn(ns) for c in clients.values())
        used.add((eio, nsn(ns)))
        if not dup:
            clients[sid] = {'eio': eio, 'ns': nsn(ns), 'host': h, 'alive': True}
        ops.append(('connect', h, eio, ns))

    def ns_of(sid):
        c = clients.get(sid)
        if c is None or rng.random() < 0.05:
            return rng.choice(NSS)
        return None if c['ns'] == '/' and rng.random() < 0.7 else c['ns']

    def room_name():
        if not strict and rng.random() < 0.2:
            return rng.choice(live() or ['S0'])        # a room named like a sid
        return rng.choice(ROOMS)

    def do_emit(with_cb):
        lv = live()
        if with_cb:
            h = any_host()
            if not strict and rng.random() < 0.25:
                room = rng.choice([None, ['r1', 'r2'], 'r1', 'r2'])
                if n_wo and rng.random() < 0.3:
                    h = n_real
            elif hot[0] in clients and clients[hot[0]]['alive'] and rng.random() < 0.6:
                room = hot[0]
            else:
                room = pick_sid(0.15)
                hot[0] = room
            ns = ns_of(room) if isinstance(room, str) else rng.choice(NSS)
            cbn[0] += 1
            skip = None if rng.random() < 0.9 else pick_sid()
            ops.append(('emit', h, rng.choice(['ev', 'q', 'msg']), rng.choice(DATA), ns, room, skip, cbn[0]))
            c = clients.get(room) if isinstance(room, str) else None
            if c and c['alive'] and c['ns'] == nsn(ns):
                expect[c['eio']] = expect.get(c['eio'], 0) + 1
            return
        h = rng.randrange(n_real + n_wo)
        r = rng.random()
        if r < 0.2:
            room = None
        elif r < 0.55:
            room = rng.choice(ROOMS)
        elif r < 0.8:
            room = pick_sid()
        else:
            room = rng.sample(ROOMS, 2) if rng.random() < 0.8 else [rng.choice(ROOMS), pick_sid()]
        r = rng.random()
        if r < 0.55:
            skip = None
        elif r < 0.85:
            skip = pick_sid()
        else:
            skip = [pick_sid(), pick_sid()]
        ns = rng.choice(NSS) if rng.random() < 0.8 or not isinstance(room, str) else ns_of(room)
        ops.append(('emit', h, rng.choice(['ev', 'news', 'm']), rng.choice(DATA), ns, room, skip, None))

    def do_ack():
        cands = [e for e in sorted(expect) if expect[e] > 0]
        if not cands:
            return
        eio = rng.choice(cands)
        j = rng.randrange(expect[eio] + (1 if rng.random() < 0.15 else 0))
        ops.append(('ack', eio_host[eio], eio, j, rng.choice(ARGS)))

    def do_disconnect():
        sid = pick_sid(0.15)
        ops.append(('disconnect', host_for(sid), sid, ns_of(sid)))
        c = clients.get(sid)
        if c and c['alive']:
            # the shadow is optimistic: under delayed consumption the client may live a little longer
            c['alive'] = False

    w = dict(k.w)
    if k.delayed:
        w['consume'] = 9.0
    kinds = sorted(w)
    weights = [w[x] for x in kinds]
    for _ in range(rng.choice([2, 3, 3, 4, 5])):
        do_connect()
    while len(ops) < k.n_ops:
        kind = rng.choices(kinds, weights)[0]
        if kind == 'connect':
            if len(clients) < 6:
                do_connect()
        elif kind == 'enter':
            sid = pick_sid()
            ops.append(('enter', host_for(sid), sid, ns_of(sid), room_name()))
        elif kind == 'leave':
            sid = pick_sid()
            room = room_name() if rng.random() < 0.85 or strict else sid
            ops.append(('leave', host_for(sid), sid, ns_of(sid), room))
        elif kind == 'close_room':
            ops.append(('close_room', any_host(), rng.choice(NSS), room_name()))
        elif kind == 'emit':
            do_emit(False)
        elif kind == 'emit_cb':
            do_emit(True)
        elif kind == 'ack':
            do_ack()
        elif kind == 'disconnect':
            do_disconnect()
        elif kind == 'consume':
            ops.append(('consume', any_host()))
    if k.delayed and rng.random() < k.final_drain:
        # let every host catch up at the end (enough consume steps for any backlog)
        backlog = sum(1 for o in ops if o[0] != 'consume')
        for h in range(n_real):
            ops.extend([('consume', h)] * backlog)
    return wos, ops, strict


# ---------------------------------------------------------------- histories with application handlers
# Additional ops: ('cevent', h, eio, ns, event, arg)  the client sends EVENT [event, arg]
#                 ('cdisc', h, eio, ns)               the client sends DISCONNECT for the namespace
#                 ('lose', h, eio, reason)            the transport is lost (all its namespaces go)
# and an application `app` (see drivers/cluster.py::install_app): connect / disconnect / event handlers, as
# functions or as a class-based namespace, that call enter_room / leave_room / rooms / emit / close_room /
# disconnect for their own client or for another sid.
SELF = ('self',)
EVENTS = ['ev', 'go']
REASONS = ['transport close', 'transport error', 'ping timeout']
HARGS = [None, 1, 'x', 'hello', [1, 2], {'a': 1}, 0, True, [], {'k': [1, {'z': None}]}]      # unchanged by a JSON round trip


class HKnobs:
    def __init__(self, **kw):
        self.n_ops = 16
        self.delayed = False
        self.final_drain = 0.5
        self.w = {'connect': 2.0, 'enter': 2.0, 'leave': 1.0, 'close_room': 0.4, 'emit': 1.5, 'cevent': 3.0,
                  'cdisc': 2.0, 'lose': 1.5, 'disconnect': 2.0, 'consume': 0.0}
        self.__dict__.update(kw)


def gen_actions(rng, kind, n_sids=6):
    """The body of one handler.  Disconnect handlers do what applications do there: leave rooms, move the
    client to another room, look at rooms(sid), tell the others."""
    def who():
        return None if rng.random() < 0.7 else 'S%d' % rng.randrange(n_sids)

    def room(allow_none=False):
        r = rng.random()
        if r < 0.15:
            return SELF
        if allow_none and r < 0.3:
            return None
        return rng.choice(ROOMS)

    def one():
        if kind == 'connect':
            w = {'enter': 5, 'rooms': 2, 'emit': 2, 'leave': 1, 'close_room': 0.3, 'disconnect': 0.3}
        elif kind == 'disconnect':
            w = {'leave': 5, 'enter': 3, 'rooms': 4, 'emit': 2, 'close_room': 0.7, 'disconnect': 1}
        else:
            w = {'enter': 3, 'leave': 3, 'rooms': 3, 'emit': 2, 'close_room': 0.7, 'disconnect': 1.5}
        ks = sorted(w)
        a = rng.choices(ks, [w[x] for x in ks])[0]
        if a in ('enter', 'leave'):
            return (a, who(), room())
        if a == 'rooms':
            return ('rooms', who())
        if a == 'emit':
            return ('emit', rng.choice(['note', 'bye']), rng.choice(DATA), room(True), rng.random() < 0.5)
        if a == 'close_room':
            return ('close_room', room())
        return ('disconnect', who())
    n = rng.choice([0, 1, 1, 2] if kind == 'connect' else [1, 2, 2, 3, 4] if kind == 'disconnect' else [1, 2, 3])
    return [one() for _ in range(n)]


def gen_app(rng):
    style, handlers = {}, {}
    for ns in ('/', '/n'):
        if rng.random() < 0.1:
            continue                                        # a namespace without any handler
        style[ns] = rng.choice(['fn', 'cls'])
        t = {}
        if rng.random() < 0.7:
            t['connect'] = gen_actions(rng, 'connect')
        if rng.random() < 0.9:
            t['disconnect'] = gen_actions(rng, 'disconnect')
        for ev in EVENTS:
            if rng.random() < 0.8:
                t[ev] = gen_actions(rng, 'event')
        handlers[ns] = t
    return {'style': style, 'handlers': handlers}


def gen_handler_history(rng, k):
    """(wos, ops, app)"""
    n_real = rng.choice([2, 2, 3])
    n_wo = rng.choice([0, 0, 1])
    wos = [False] * n_real + [True] * n_wo
    app = gen_app(rng)
    ops = []
    next_sid = [0]
    clients = {}            # sid -> dict(eio, ns, host, alive)   (optimistic shadow)
    eio_host = {}           # live transports
    n_eio = [0]

    def live():
        return [s for s, c in clients.items() if c['alive']]

    def any_host():
        return rng.randrange(n_real)

    def pick_sid(p_dead=0.12):
        lv = live()
        dead = [s for s in clients if not clients[s]['alive']]
        if lv and (rng.random() > p_dead or not dead):
            return rng.choice(lv)
        if dead and rng.random() < 0.7:
            return rng.choice(dead)
        return 'S%d' % (next_sid[0] + rng.randrange(3))

    def host_for(sid, p_remote=0.5):
        c = clients.get(sid)
        if c is None or rng.random() < p_remote:
            return any_host()
        return c['host']

    def ns_of(sid):
        c = clients.get(sid)
        if c is None or rng.random() < 0.05:
            return rng.choice(NSS)
        return None if c['ns'] == '/' and rng.random() < 0.7 else c['ns']

    def do_connect():
        if eio_host and rng.random() < 0.35:
            eio = rng.choice(sorted(eio_host))
            h = eio_host[eio]
        else:
            eio = 'e%d' % n_eio[0]
            n_eio[0] += 1
            h = any_host()
        ns = rng.choice(NSS)
        eio_host[eio] = h
        dup = any(c['alive'] and c['eio'] == eio and c['ns'] == nsn(ns) for c in clients.values())
        sid = 'S%d' % next_sid[0]
        next_sid[0] += 1                                  # generate_id() is called even for a refused duplicate
        if not dup:
            clients[sid] = {'eio': eio, 'ns': nsn(ns), 'host': h, 'alive': True}
        ops.append(('connect', h, eio, ns))

    def pick_conn():
        """(host, eio, ns) of a live client, sometimes of one that is gone or never existed"""
        lv = live()
        if lv and rng.random() < 0.9:
            c = clients[rng.choice(lv)]
        elif clients:
            c = clients[rng.choice(sorted(clients))]
        else:
            return any_host(), 'e0', None
        ns = None if c['ns'] == '/' and rng.random() < 0.7 else c['ns']
        if rng.random() < 0.05:
            ns = rng.choice(NSS)
        return c['host'], c['eio'], ns

    def kill(pred):
        for c in clients.values():
            if c['alive'] and pred(c):
                c['alive'] = False

    w = dict(k.w)
    if k.delayed:
        w['consume'] = 7.0
    kinds = sorted(w)
    weights = [w[x] for x in kinds]
    for _ in range(rng.choice([2, 3, 3, 4])):
        do_connect()
    # directed prefix (half of the histories): some clients are put in rooms first, so that the handlers'
    # leave_room / rooms / emit have something to act on
    if rng.random() < 0.5:
        for sid in live():
            if rng.random() < 0.7:
                ops.append(('enter', host_for(sid), sid, ns_of(sid), rng.choice(ROOMS)))
    while len(ops) < k.n_ops:
        kind = rng.choices(kinds, weights)[0]
        if kind == 'connect':
            if len(clients) < 6:
                do_connect()
        elif kind == 'enter':
            sid = pick_sid()
            ops.append(('enter', host_for(sid), sid, ns_of(sid), rng.choice(ROOMS)))
        elif kind == 'leave':
            sid = pick_sid()
            ops.append(('leave', host_for(sid), sid, ns_of(sid), rng.choice(ROOMS)))
        elif kind == 'close_room':
            ops.append(('close_room', any_host(), rng.choice(NSS), rng.choice(ROOMS)))
        elif kind == 'emit':
            h = rng.randrange(n_real + n_wo)
            r = rng.random()
            room = None if r < 0.2 else rng.choice(ROOMS) if r < 0.7 else pick_sid()
            skip = None if rng.random() < 0.7 else pick_sid()
            ops.append(('emit', h, rng.choice(['news', 'm']), rng.choice(DATA), rng.choice(NSS), room, skip, None))
        elif kind == 'cevent':
            h, eio, ns = pick_conn()
            ops.append(('cevent', h, eio, ns, rng.choice(EVENTS + ['nohandler'] if rng.random() < 0.1 else EVENTS),
                        rng.choice(HARGS)))
        elif kind == 'cdisc':
            h, eio, ns = pick_conn()
            ops.append(('cdisc', h, eio, ns))
            kill(lambda c: c['eio'] == eio and c['ns'] == nsn(ns))
        elif kind == 'lose':
            if not eio_host:
                continue
            eio = rng.choice(sorted(eio_host))
            ops.append(('lose', eio_host.pop(eio), eio, rng.choice(REASONS)))
            kill(lambda c: c['eio'] == eio)
        elif kind == 'disconnect':
            sid = pick_sid(0.15)
            ops.append(('disconnect', host_for(sid), sid, ns_of(sid)))
            kill(lambda c: c is clients.get(sid))
        elif kind == 'consume':
            ops.append(('consume', any_host()))
    if k.delayed and rng.random() < k.final_drain:
        backlog = 3 * sum(1 for o in ops if o[0] != 'consume')
        for h in range(n_real):
            ops.extend([('consume', h)] * backlog)
    return wos, ops, app
