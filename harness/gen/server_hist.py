"""Generator of server histories (cfg + op list) for the Server.v vocabulary.
A shadow of the expected sids is kept so that most operations hit live clients."""
import json

from vt import common  # noqa: F401
from gen import values

NSS = ['/', '/chat', '/a']
ROOMS = ['r1', 'r2', 'lobby', 7, 'S0', 'S1', 'S2']
REASONS = ['transport close', 'transport error', 'ping timeout', 'client disconnect']


def eio_decode(wire):
    """What engine.io hands to socketio for a MESSAGE with this text / bytes body."""
    from engineio import packet as eio_packet
    if isinstance(wire, (bytes, bytearray)):
        return bytes(wire)
    try:
        return eio_packet.Packet(encoded_packet='4' + wire).data
    except Exception:
        return wire


def frame(t, ns=None, pid=None, data=None, natt=None):
    s = str(t)
    if natt is not None:
        s += '%d-' % natt
    if ns not in (None, '/'):
        s += ns + ','
    if pid is not None:
        s += str(pid)
    if data is not None:
        s += json.dumps(data, separators=(',', ':'))
    return s


def wire(serializer, t, ns=None, pid=None, data=None, natt=None):
    """The engine.io payload a client would send for this packet under the given serializer."""
    if serializer == 'msgpack':
        import msgpack
        d = {'type': t, 'nsp': ns or '/', 'data': _no_surrogates(data)}
        if pid is not None:
            d['id'] = pid
        return msgpack.dumps(d)
    return eio_decode(frame(t, ns, pid, data, natt))


class Knobs:
    def __init__(self, **kw):
        self.n_ops = 25
        self.max_clients = 5
        self.w = {'eio_connect': 2, 'connect': 5, 'client_disconnect': 1.5, 'close': 1.2, 'event': 3, 'ack': 1,
                  'binary': 0.7, 'emit': 4, 'emit_cb': 1, 'enter': 4, 'leave': 2, 'close_room': 1, 'rooms': 2,
                  'disconnect': 1.5, 'session': 2, 'junk': 0.5}
        self.refuse = 0.2
        self.raise_p = 0.0
        self.actions = 0.3
        self.class_ns = 0.3
        self.catchall = 0.2
        self.always_connect = None
        self.namespaces = None          # 'star' | list | None = random
        self.serializer = 'default'
        self.nested_ack = 0.0
        self.self_disconnect = 0.0
        self.__dict__.update(kw)


def gen_behav(rng, kind, k, ns_is_star=False):
    """kind in connect / disconnect / event."""
    b = {'arity': None, 'actions': [], 'outcome': ('ret', None)}
    if kind == 'connect':
        b['arity'] = rng.choice([2, 3, None])
        r = rng.random()
        if r < k.refuse / 2:
            b['outcome'] = ('ret', False)
        elif r < k.refuse:
            b['outcome'] = ('refuse', rng.choice([[], ['no way'], ['denied', {'code': 7}], ['a', 1, 2], [42], ['no', b'xx'], ['quota', 0], ['x', None],
                                                  ['x', False], ['x', ''], ['x', []], ['x', {}], [0], ['', 1], ['a', None, None]]))
        elif r < k.refuse + k.raise_p:
            b['outcome'] = ('raise', rng.choice(['ValueError', 'KeyError', 'TypeError', 'OtherError']))
        else:
            b['outcome'] = ('ret', rng.choice([None, True, 0, 'ok']))
    elif kind == 'disconnect':
        b['arity'] = rng.choice([1, 2, 2, None])
        if rng.random() < k.raise_p:
            b['outcome'] = ('raise', rng.choice(['ValueError', 'KeyError', 'TypeError', 'OtherError']))
    else:
        b['arity'] = rng.choice([None, None, 1, 2, 3])
        r = rng.random()
        if r < k.raise_p:
            b['outcome'] = ('raise', rng.choice(['ValueError', 'KeyError', 'TypeError', 'OtherError']))
        else:
            b['outcome'] = ('ret', rng.choice([None, 1, 'x', [1, 2], {'a': b'\x01'}, (1, 'two'), b'bin', True, False, (),
                                               values.gen_json(rng, 2), (b'bin', 'meta'), ('ok', {'blob': b'y'}),
                                               (1, [b'a', b'b'], None)]))
    if rng.random() < k.actions and not ns_is_star:
        for _ in range(rng.randrange(1, 3)):
            a = rng.choice(['enter', 'leave', 'emit_self', 'emit_room', 'save', 'get'])
            if a in ('enter', 'leave'):
                b['actions'].append((a, rng.choice(ROOMS[:4])))
            elif a == 'emit_self':
                b['actions'].append((a, 'note', rng.choice([None, 'hi', [1], (1, 2)])))
            elif a == 'emit_room':
                b['actions'].append((a, 'bcast', rng.choice(['x', {'k': 1}]), rng.choice(ROOMS[:3] + [None]), rng.random() < 0.5))
            elif a == 'save':
                b['actions'].append((a, {'user': rng.choice(['u1', 'u2']), 'n': rng.randrange(5)}))
            else:
                b['actions'].append((a,))
    return b


def gen_cfg(rng, k):
    cfg = {'handlers': {}, 'ns_handlers': {}, 'behav': {}, 'serializer': k.serializer}
    cfg['always_connect'] = rng.random() < 0.3 if k.always_connect is None else k.always_connect
    if k.namespaces is None:
        cfg['namespaces'] = rng.choice([None, ['/'], ['/', '/chat'], ['/', '/chat', '/a']])
    else:
        cfg['namespaces'] = None if k.namespaces == 'star' else k.namespaces
    hid = [0]

    def new(kind, star=False):
        hid[0] += 1
        cfg['behav'][hid[0]] = gen_behav(rng, kind, k, star)
        return hid[0]
    for ns in NSS:
        if rng.random() < k.class_ns:
            m = {}
            for ev, kind in (('connect', 'connect'), ('disconnect', 'disconnect'), ('ev', 'event'), ('msg', 'event')):
                if rng.random() < 0.7:
                    m[ev] = new(kind)
            cfg['ns_handlers'][ns] = m
        if rng.random() < 0.75:
            t = {}
            for ev, kind in (('connect', 'connect'), ('disconnect', 'disconnect'), ('ev', 'event'), ('msg', 'event'),
                             ('other', 'event')):
                if rng.random() < 0.6:
                    t[ev] = new(kind)
            if rng.random() < k.catchall:
                t['*'] = new('event')
            if t:
                cfg['handlers'][ns] = t
    if rng.random() < k.catchall:
        t = {}
        if rng.random() < 0.5:
            t['ev'] = new('event', True)
        if rng.random() < 0.5:
            t['*'] = new('event', True)
        if rng.random() < 0.3:
            t['connect'] = new('connect', True)
        if t:
            cfg['handlers']['*'] = t
    if rng.random() < k.catchall / 2:
        cfg['ns_handlers']['*'] = {'ev': new('event', True)}
    return cfg


def served(cfg, ns):
    return ns in cfg['handlers'] or ns in cfg['ns_handlers'] or cfg['namespaces'] is None or ns in cfg['namespaces']


class Shadow:
    """Generator-side guess of which sids exist (only used to aim operations)."""

    def __init__(self, cfg):
        self.cfg = cfg
        self.eios = []
        self.next_eio = 0
        self.next_sid = 0
        self.sids = {}      # (eio, ns) -> sid
        self.cb = 0

    def live_sids(self):
        return [(e, ns, s) for (e, ns), s in self.sids.items()]


def gen_history(rng, k=None, cfg=None):
    k = k or Knobs()
    cfg = cfg or gen_cfg(rng, k)
    sh = Shadow(cfg)
    ops = []
    kinds = list(k.w)
    weights = [k.w[x] for x in kinds]
    # always start with a couple of transports and connects so that histories are not trivial
    script = ['eio_connect', 'connect', 'eio_connect', 'connect']
    while len(ops) < k.n_ops:
        kind = script.pop(0) if script else rng.choices(kinds, weights)[0]
        op = gen_op(rng, k, sh, kind)
        if op is not None:
            ops.extend(op)
    if k.serializer == 'msgpack':
        ops = [tuple(_no_surrogates(x) for x in o) for o in ops]      # msgpack cannot pack lone surrogates
        for b in cfg['behav'].values():
            b['outcome'] = _no_surrogates(b['outcome'])
            b['actions'] = _no_surrogates(b['actions'])
    return cfg, ops


def _no_surrogates(v):
    if isinstance(v, str):
        return ''.join('?' if 0xD800 <= ord(ch) <= 0xDFFF else ch for ch in v)
    if isinstance(v, int) and not isinstance(v, bool) and not -2 ** 63 <= v < 2 ** 63:
        return v % (2 ** 31)            # msgpack integers are 64-bit
    if isinstance(v, list):
        return [_no_surrogates(x) for x in v]
    if isinstance(v, tuple):
        return tuple(_no_surrogates(x) for x in v)
    if isinstance(v, dict):
        return {_no_surrogates(a): _no_surrogates(b) for a, b in v.items()}
    return v


def pick_sid(rng, sh, p_unknown=0.1):
    ls = sh.live_sids()
    if ls and rng.random() > p_unknown:
        return rng.choice(ls)
    return (rng.choice(sh.eios) if sh.eios else 'e0', rng.choice(NSS), 'S%d' % rng.randrange(0, sh.next_sid + 2))


def gen_op(rng, k, sh, kind):
    cfg = sh.cfg
    if kind == 'eio_connect':
        if len(sh.eios) >= k.max_clients:
            return None
        e = 'e%d' % sh.next_eio
        sh.next_eio += 1
        sh.eios.append(e)
        return [('eio_connect', e, {'REMOTE_ADDR': e})]
    if not sh.eios:
        return None
    if kind == 'connect':
        e = rng.choice(sh.eios)
        ns = rng.choice(NSS + ['/', '/nope'])
        auth = rng.choice([None, None, {}, {'token': 't'}, {'user': 'bob', 'n': 1}, 'str-auth', [1]])
        if served(cfg, ns):
            sid = 'S%d' % sh.next_sid
            sh.next_sid += 1
            if (e, ns) not in sh.sids:
                sh.sids[(e, ns)] = sid
        return [('msg', e, wire(k.serializer, 0, ns, None, auth))]
    if kind == 'client_disconnect':
        e, ns, sid = pick_sid(rng, sh)
        sh.sids.pop((e, ns), None)
        return [('msg', e, wire(k.serializer, 1, ns))]
    if kind == 'close':
        e = rng.choice(sh.eios)
        sh.eios.remove(e)
        for key in [x for x in sh.sids if x[0] == e]:
            del sh.sids[key]
        return [('close', e, rng.choice(REASONS))]
    if kind == 'event':
        e, ns, sid = pick_sid(rng, sh)
        ev = rng.choice(['ev', 'ev', 'msg', 'other', 'nobody', 'connect' if rng.random() < 0.05 else 'ev'])
        args = [values.gen_json(rng, 2, bytes_ok=False) for _ in range(rng.randrange(0, 3))]
        pid = rng.choice([None, None, 0, 1, 2, 7, rng.randrange(1000)])
        kind_ = 'msg_sd' if rng.random() < k.self_disconnect else 'msg'
        return [(kind_, e, wire(k.serializer, 2, ns, pid, [ev] + args))]
    if kind == 'binary' and k.serializer == 'msgpack':
        e, ns, sid = pick_sid(rng, sh)      # bytes travel inline
        return [('msg', e, wire('msgpack', 2, ns, rng.choice([None, 3, 0]), ['ev', b'\x00\xff', {'b': b'x'}]))]
    if kind == 'junk' and k.serializer == 'msgpack':
        import msgpack
        e = rng.choice(sh.eios)
        good = msgpack.dumps({'type': 2, 'nsp': '/', 'data': ['ev', 1], 'id': 4})
        other = msgpack.dumps({'type': 2, 'nsp': '/chat', 'data': ['msg', 'x']})
        return [('msg', e, rng.choice([good[:-2], good + b'\x01', good + other, b'\xc1', b'', bytes([rng.randrange(256) for _ in range(6)]),
                                       msgpack.dumps([1, 2]), msgpack.dumps(7), msgpack.dumps('2["ev"]'), msgpack.dumps({'nsp': '/'}),
                                       msgpack.dumps({'type': 2}), msgpack.dumps({'type': 9, 'nsp': '/', 'data': None}),
                                       msgpack.dumps({'type': 4, 'nsp': '/', 'data': 'x'}), msgpack.dumps({'type': 5, 'nsp': '/', 'data': ['ev']}),
                                       msgpack.dumps({'type': 2, 'nsp': '/', 'data': None}), msgpack.dumps({'type': 2, 'nsp': '/', 'data': {'a': 1}}),
                                       msgpack.dumps({'type': True, 'nsp': '/'}), '2["ev"]', msgpack.dumps({'type': 3, 'nsp': '/', 'data': None, 'id': 1})]))]
    if kind == 'binary':
        e, ns, sid = pick_sid(rng, sh)
        n = rng.choice([1, 1, 2])
        pid = rng.choice([None, 3, 0])
        ack = rng.random() < 0.3
        data = ([] if ack else ['ev']) + [{'_placeholder': True, 'num': i} for i in range(n)] + ['tail']
        out = [('msg', e, eio_decode(frame(6 if ack else 5, ns, pid if not ack else rng.choice([1, 2, 0]), data, natt=n)))]
        cut = n if rng.random() < 0.8 else rng.randrange(0, n)
        for i in range(cut):
            out.append(('msg', e, bytes([i, 255 - i])))
        return out
    if kind == 'ack':
        e, ns, sid = pick_sid(rng, sh)
        pid = rng.choice([0, 1, 1, 2, 3, 5, None])
        data = rng.choice([[], ['ok'], [1, 2], [{'a': 1}], None, 'str', {'k': 'v'}])
        kind_ = 'msg_nested' if rng.random() < k.nested_ack else 'msg'
        return [(kind_, e, wire(k.serializer, 3, ns, pid, data))]
    if kind in ('emit', 'emit_cb'):
        e, ns, sid = pick_sid(rng, sh)
        tgt = rng.random()
        if kind == 'emit_cb' or tgt < 0.2:
            to = sid
        elif tgt < 0.45:
            to = None
        elif tgt < 0.8:
            to = rng.choice(ROOMS)
        else:
            to = rng.sample(ROOMS, rng.randrange(1, 4))
            if rng.random() < 0.3:
                to = tuple(to)
        skip = rng.choice([None, None, None, sid, [sid], [s for _, _, s in sh.live_sids()][:2], []])
        data = rng.choice([None, 'hello', 5, [1, 2], (1, 'b'), {'k': [1, b'\x00\x01']}, b'raw', (), values.gen_json(rng, 2)])
        cb = None
        if kind == 'emit_cb':
            sh.cb += 1
            cb = sh.cb
        use_room_kw = rng.random() < 0.3
        nsarg = rng.choice([ns, ns, None if ns == '/' else ns])
        return [('emit', rng.choice(['news', 'msg', 'up-date']), data, None if use_room_kw else to,
                 to if use_room_kw else None, skip, nsarg, cb)]
    if kind == 'enter':
        e, ns, sid = pick_sid(rng, sh)
        return [('enter', sid, rng.choice(ROOMS), rng.choice([ns, ns, None if ns == '/' else ns]))]
    if kind == 'leave':
        e, ns, sid = pick_sid(rng, sh)
        return [('leave', sid, rng.choice(ROOMS), ns)]
    if kind == 'close_room':
        return [('close_room', rng.choice(ROOMS), rng.choice(NSS))]
    if kind == 'rooms':
        e, ns, sid = pick_sid(rng, sh)
        return [('rooms', sid, ns)]
    if kind == 'disconnect':
        e, ns, sid = pick_sid(rng, sh)
        sh.sids.pop((e, ns), None)
        return [('disconnect', sid, rng.choice([ns, ns, None if ns == '/' else ns]))]
    if kind == 'session':
        e, ns, sid = pick_sid(rng, sh)
        r = rng.random()
        if r < 0.35:
            return [('save_session', sid, {'user': rng.choice(['ann', 'bob']), 'k': rng.randrange(9)}, ns)]
        if r < 0.6:
            return [('get_session', sid, ns)]
        if r < 0.68:
            return [('session_nested', sid, ns, rng.choice(['user', 'a']), rng.randrange(5), rng.choice(['cart', 'b']), [rng.randrange(5)])]
        if r < 0.73:
            return [('session_span', sid, ns, rng.choice(['user', 'a']), rng.randrange(5), rng.choice(['cart', 'b']), [rng.randrange(5)],
                     rng.choice(['k', 'c']), rng.choice([0, 'v', {}]))]
        if r < 0.8:
            return [('session_replace', sid, ns, rng.choice([{}, {'k': rng.randrange(9)}, {'user': 'zed'}]))]
        return [('session_set', sid, ns, rng.choice(['user', 'cart', 'k']), rng.choice([1, 'v', [1, 2]]))]
    if kind == 'junk':
        e = rng.choice(sh.eios)
        w_ = rng.choice(['', 'x', '9', '4"err"', '2', '2[]', '2{}', '2"ev"', '2[["ev"]]', '2[1]', '2[null,1]', 'true', 'false',
                           '1.0', '2.0', '[1]', '{"a":1}', '"2[\\"ev\\"]"', '50-["ev"]', '31', '3', '0/nope,', '2/chat',
                           '212345678901234567890["ev"]', '51-["ev",{"_placeholder":true,"num":5}]', b'\x00stray',
                           '2[{"a":1}]', '7', '٢["ev"]', '0{"a":1}', '0/chat,"x"', '21-["ev"]'])
        return [('msg', e, eio_decode(w_))]
    return None
