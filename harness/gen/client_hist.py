"""Generator of client histories (cfg + op list) for the Client.v vocabulary.

A shadow of the SERVER's view (which namespaces it accepted, which ids the client used) is kept
so that most operations are meaningful: events and ACKs hit connected namespaces and outstanding
ids, emits go to connected namespaces, refusals / losses / reconnects happen at chosen places.
Server packets stay inside the protocol domain (per namespace one CONNECT or CONNECT_ERROR, then
at most one DISCONNECT) except where a knob asks for an out-of-domain packet, which is counted.
"""
from vt import common  # noqa: F401
from gen import values
from gen.server_hist import eio_decode, frame

NSS = ['/', '/chat', '/a']
EVENTS = ['ev', 'msg', 'other', 'nobody']


class Knobs:
    def __init__(self, **kw):
        self.n_ops = 26
        self.w = {'event': 3, 'binary': 1, 'ack': 2, 'emit': 2, 'emit_cb': 2, 'send': 0.5, 'call': 1.5,
                  'server_disc': 0.8, 'disconnect': 0.45, 'loss': 0.45, 'server_close': 0.3, 'reconnect': 0.25,
                  'bad_ns': 0.7, 'late': 1.0, 'junk': 0.25, 'second_disc': 0.08, 'late_refuse': 0.0, 'nested': 0.0, 'ack_nested': 0.0}
        self.p_wait = 0.75
        self.p_eio_fail = 0.07
        self.p_refuse = 0.10          # per requested namespace, inside the window
        self.p_silent = 0.04          # namespace not answered inside the window
        self.p_always_connect = 0.04  # CONNECT immediately followed by DISCONNECT inside the window
        self.p_window_event = 0.06
        self.p_root_refuse_nowait = 0.0
        self.class_ns = 0.3
        self.catchall = 0.25
        self.raise_p = 0.04           # event handlers only
        self.legacy_sid = 0.06        # CONNECT without a sid
        self.__dict__.update(kw)


# ---------------------------------------------------------------------------------------
# configuration
# ---------------------------------------------------------------------------------------
RET_VALUES = [None, 1, 'x', [1, 2], {'a': b'\x01'}, (1, 'two'), b'bin', True, False, (), 0, '', {'k': [1, {'z': None}]}]


def gen_behav(rng, kind, k, star=False):
    b = {'arity': None, 'outcome': ('ret', None)}
    extra = 1 if star else 0          # handlers of the '*' namespace receive the namespace first
    if kind == 'connect':
        b['arity'] = rng.choice([0 + extra, 0 + extra, None])
        b['outcome'] = ('ret', rng.choice([None, None, 'ignored']))
    elif kind == 'connect_error':
        b['arity'] = rng.choice([None, None, 1 + extra])
    elif kind == 'disconnect':
        b['arity'] = rng.choice([1 + extra, 1 + extra, 0 + extra, None])
    else:
        b['arity'] = rng.choice([None, None, None, 0, 1, 2, 3])
        if rng.random() < k.raise_p:
            b['outcome'] = ('raise', rng.choice(['ValueError', 'KeyError', 'TypeError', 'OtherError']))
        else:
            b['outcome'] = ('ret', rng.choice(RET_VALUES + [values.gen_json(rng, 2)]))
    return b


def gen_cfg(rng, k):
    cfg = {'handlers': {}, 'ns_handlers': {}, 'behav': {}}
    hid = [0]

    def new(kind, star=False):
        hid[0] += 1
        cfg['behav'][hid[0]] = gen_behav(rng, kind, k, star)
        return hid[0]
    kinds = (('connect', 'connect'), ('connect_error', 'connect_error'), ('disconnect', 'disconnect'),
             ('ev', 'event'), ('msg', 'event'), ('other', 'event'))
    for ns in NSS:
        if rng.random() < k.class_ns:
            m = {}
            for ev, kind in kinds[:5]:
                if rng.random() < 0.7:
                    m[ev] = new(kind)
            cfg['ns_handlers'][ns] = m
        if rng.random() < 0.8:
            t = {}
            for ev, kind in kinds:
                if rng.random() < 0.65:
                    t[ev] = new(kind)
            if rng.random() < k.catchall:
                t['*'] = new('event')
            if t:
                cfg['handlers'][ns] = t
    if rng.random() < k.catchall:
        t = {}
        for ev, kind in (('ev', 'event'), ('*', 'event'), ('connect', 'connect'), ('disconnect', 'disconnect'),
                         ('connect_error', 'connect_error')):
            if rng.random() < 0.4:
                t[ev] = new(kind, star=(kind != 'event'))
        if t:
            cfg['handlers']['*'] = t
    if rng.random() < k.catchall / 2:
        m = {}
        for ev, kind in (('ev', 'event'), ('disconnect', 'disconnect'), ('connect', 'connect')):
            if rng.random() < 0.5:
                m[ev] = new(kind, star=(kind != 'event'))
        cfg['ns_handlers']['*'] = m
    return cfg


def derived(cfg):
    s = [n for n in list(cfg['handlers']) + [m for m in cfg['ns_handlers'] if m not in cfg['handlers']] if n != '*']
    return s or ['/']


# ---------------------------------------------------------------------------------------
# shadow of the server's view
# ---------------------------------------------------------------------------------------
class Shadow:
    def __init__(self, cfg):
        self.cfg = cfg
        self.live = False
        self.acc = {}           # ns -> sid
        self.req = []
        self.pending = []       # requested, not yet answered (wait=False)
        self.ended = []         # namespaces the server ended on this transport
        self.next_sid = 0
        self.cb = 0
        self.ids = {}           # ns -> ids the client has outstanding (guess)
        self.next_id = {}       # ns -> next id the client will use (guess)
        self.old_ids = []       # (ns, id) issued on previous transports
        self.binary_open = 0    # attachments the client still waits for
        self.stats = {}

    def note(self, k):
        self.stats[k] = self.stats.get(k, 0) + 1

    def down(self):
        for ns, l in self.ids.items():
            self.old_ids += [(ns, i) for i in l]
        for ns, n in self.next_id.items():
            self.old_ids += [(ns, i) for i in range(1, n)][-2:]
        self.live, self.acc, self.pending, self.ids, self.next_id, self.binary_open = False, {}, [], {}, {}, 0
        self.ended = []

    def issue(self, ns):
        i = self.next_id.get(ns, 1)
        self.next_id[ns] = i + 1
        self.ids.setdefault(ns, []).append(i)
        return i


def msg(wire):
    return ('msg', eio_decode(wire))


def connect_frame(rng, sh, k, ns):
    if rng.random() < k.legacy_sid:
        sh.note('connect-without-sid')
        return frame(0, ns, None, rng.choice([None, {}]))
    sid = 'S%d' % sh.next_sid
    sh.next_sid += 1
    return frame(0, ns, None, {'sid': sid})


def refusal_frame(rng, ns):
    return frame(4, ns, None, rng.choice([{'message': 'Unable to connect'}, {'message': 'no', 'data': {'code': 7}},
                                          'denied', {'message': 'x', 'data': [1, 2]}]))


def gen_connect(rng, k, sh, force=None):
    """A CConnect with its window; updates the shadow to the server's view afterwards."""
    cfg = sh.cfg
    force = force or {}
    d = derived(cfg)
    if len(d) <= 1 and rng.random() < 0.25:
        nss, req = None, d
    else:
        req = rng.sample(NSS, rng.choice([1, 1, 2, 2, 3]))
        if rng.random() < 0.05:
            req = ['/nope']
        nss = list(req)
    wait = force.get('wait', rng.random() < k.p_wait)
    eio_fails = force.get('eio_fails', rng.random() < k.p_eio_fail)
    auth = rng.choice([None, None, {}, {'token': 't'}, {'user': 'bob', 'n': 1}, 'str-auth', [1], 0, {'k': [1.5, None]}])
    window = []
    acc = {}
    clean = True
    sh.down()
    sh.req = list(req)
    if eio_fails:
        sh.note('eio-fails')
        return ('connect', nss, auth, rng.random() < 0.3, wait, True, [], rng.random() < 0.3)
    if wait:
        order = list(req)
        rng.shuffle(order)
        for ns in order:
            r = rng.random()
            mode = force.get(ns)
            if mode is None:
                if r < k.p_refuse:
                    mode = 'refuse'
                elif r < k.p_refuse + k.p_silent:
                    mode = 'silent'
                elif r < k.p_refuse + k.p_silent + k.p_always_connect:
                    mode = 'accept-disconnect'
                else:
                    mode = 'accept'
            if mode == 'refuse':
                window.append(refusal_frame(rng, ns))
                clean = False
                sh.note('refusal-in-window')
                if ns == '/':
                    acc = {}
            elif mode == 'silent':
                clean = False
                sh.note('silent-in-window')
            elif mode == 'accept-disconnect':
                window.append(connect_frame(rng, sh, k, ns))
                window.append(frame(1, ns, None, rng.choice([None, {'message': 'refused late'}])))
                clean = False
                sh.note('disconnect-in-window')
            else:
                window.append(connect_frame(rng, sh, k, ns))
                acc[ns] = True
                if rng.random() < k.p_window_event:
                    window.append(frame(2, ns, rng.choice([None, 4]), ['ev', 1]))
                    sh.note('event-in-window')
        if clean and set(acc) == set(req):
            sh.live, sh.acc = True, dict.fromkeys(req, True)
        else:
            if acc and set(acc) != set(req):
                sh.note('partial-acceptance')
            sh.live = False
    else:
        sh.live, sh.pending = True, list(req)
    return ('connect', nss, auth, rng.random() < 0.3, wait, False, [eio_decode(w) for w in window], rng.random() < 0.3)


def pick_ns(rng, sh, p_other=0.12):
    if sh.acc and rng.random() > p_other:
        return rng.choice(sorted(sh.acc))
    return rng.choice(NSS + ['/nope'])


def gen_data(rng, bytes_ok=True):
    return rng.choice([None, 'hello', 5, [1, 2], (1, 'b'), {'k': [1, b'\x00\x01']} if bytes_ok else {'k': [1]},
                       b'raw' if bytes_ok else 'raw', (), values.gen_json(rng, 2, bytes_ok=False), 0, ''])


JUNK = ['', 'x', '9', '4', '4"err"', '2', '2[]', '2{}', '2"ev"', '2[["ev"]]', '2[1]', '2[null,1]', 'true', 'false',
        '1.0', '2.0', '[1]', '{"a":1}', '"2[\\"ev\\"]"', '31', '3', '0/nope,', '2/chat', '0"str"', '0[1]', '0/a,5', '0/a,0',
        '212345678901234567890["ev"]', '51-["ev",{"_placeholder":true,"num":5}]', b'\x00stray', '2[{"a":1}]', '7',
        '٢["ev"]', '3/a,1', '3/a,1"ab"', '3/chat,2{"k":1}', '6', '61-/a,1[{"_placeholder":true,"num":0}]',
        '2/a,5["connect"]', '4/chat,[1,2]', '21-["ev"]', '2["ev",{"_placeholder":true,"num":0}]']


def gen_ops(rng, k, sh, kind):
    """Ops for one generator step (None = not applicable now)."""
    if kind == 'reconnect':
        # connect() while connected ('Already connected') or a fresh connection
        return [gen_connect(rng, k, sh)] if not sh.live else [('connect', [rng.choice(NSS)], None, False, True, False, [], False)]
    if kind == 'late':
        # wait=False: the server's answers arrive after connect() returned
        if not (sh.live and sh.pending):
            return None
        ns = sh.pending.pop(0)
        if rng.random() < 0.2 + k.p_root_refuse_nowait * (ns == '/'):
            sh.note('refusal-after-return')
            if ns == '/':
                sh.acc = {}
            return [msg(refusal_frame(rng, ns))]
        sh.acc[ns] = True
        return [msg(connect_frame(rng, sh, k, ns))]
    if kind == 'event':
        ns = pick_ns(rng, sh)
        ev = rng.choice(EVENTS + ['ev', 'ev'])
        args = [values.gen_json(rng, 2, bytes_ok=False) for _ in range(rng.randrange(0, 3))]
        pid = rng.choice([None, None, 0, 1, 2, 7, rng.randrange(1000)])
        return [msg(frame(2, ns, pid, [ev] + args))]
    if kind == 'nested':
        # re-entrant delivery (Client/ClientX.v): while the handler of an event runs, the next frame arrives
        if not (sh.live and sh.acc) or sh.binary_open:
            return None
        ns = rng.choice(sorted(sh.acc))
        others = [n for n in sorted(sh.acc) if n != ns] or [ns]
        r = rng.random()
        follow = []
        if r < 0.4:
            inner = frame(2, rng.choice(others), rng.choice([None, 3, 12]), [rng.choice(['ev', 'msg', 'other'])] +
                          [values.gen_json(rng, 1, bytes_ok=False) for _ in range(rng.randrange(0, 2))])
            sh.note('nested-event')
        elif r < 0.75:
            with_ids = sorted(n for n, l in sh.ids.items() if l)
            if with_ids and rng.random() < 0.8:
                n2 = rng.choice(with_ids)
                pid = rng.choice(sh.ids[n2])
                sh.ids[n2].remove(pid)
                sh.note('nested-ack-correct')
            else:
                n2, pid = rng.choice(others), rng.choice([0, 1, 9])
                sh.note('nested-ack-unknown')
            inner = frame(3, n2, pid, rng.choice([[], ['ok'], [1, {'a': 2}]]))
        else:
            n2 = rng.choice(others)
            inner = frame(5, n2, rng.choice([None, 8]), ['ev', {'_placeholder': True, 'num': 0}], natt=1)
            if rng.random() < 0.8:
                follow = [('msg', b'\x07\x08')]
            else:
                sh.binary_open = 1
                sh.note('binary-left-open')
            sh.note('nested-binary-header')
        ev = rng.choice(['ev', 'ev', 'msg'])
        pid = rng.choice([None, 4, 4, 21])
        if rng.random() < 0.6:
            n = rng.choice([1, 1, 2])
            data = [ev] + [{'_placeholder': True, 'num': i} for i in range(n)] + ['tail']
            out = [msg(frame(5, ns, pid, data, natt=n))]
            for i in range(n - 1):
                out.append(('msg', bytes([i, 200 + i])))
            out.append(('msg_nested', bytes([n, 100]), eio_decode(inner)))
            sh.note('nested-in-binary-event')
        else:
            out = [('msg_nested', eio_decode(frame(2, ns, pid, [ev, rng.choice([1, 'a', [2]])])), eio_decode(inner))]
            sh.note('nested-in-text-event')
        return out + follow
    if kind == 'ack_nested':
        # an ACK / BINARY_ACK whose callback re-delivers the same frame once before it returns (a duplicate ACK
        # handled while the first invocation is still running)
        if not (sh.live and sh.acc) or sh.binary_open:
            return None
        with_ids = sorted(n for n, l in sh.ids.items() if l)
        r = rng.random()
        if with_ids and r < 0.7:
            ns = rng.choice(with_ids)
            pid = rng.choice(sh.ids[ns])
            sh.ids[ns].remove(pid)
            sh.note('ack-nested-correct')
        elif r < 0.85 and sh.next_id:
            ns = rng.choice(sorted(sh.next_id))
            pid = rng.randrange(1, sh.next_id[ns] + 1)
            if pid in sh.ids.get(ns, []):
                sh.ids[ns].remove(pid)
            sh.note('ack-nested-repeated-or-next')
        else:
            ns, pid = rng.choice(sorted(sh.acc)), rng.choice([0, 9, 77])
            sh.note('ack-nested-unknown')
        if rng.random() < 0.35:
            sh.note('ack-nested-binary')
            return [msg(frame(6, ns, pid, [{'_placeholder': True, 'num': 0}, 'tail'], natt=1)), ('ack_nested', b'\x09\x08')]
        return [('ack_nested', eio_decode(frame(3, ns, pid, rng.choice([[], ['ok'], [1, {'a': 2}], [[1]]]))))]
    if kind == 'binary':
        ns = pick_ns(rng, sh)
        n = rng.choice([1, 1, 2])
        ack = rng.random() < 0.4
        if ack:
            pid = rng.choice(sh.ids.get(ns) or [1]) if rng.random() < 0.7 else rng.choice([0, 1, 2, 9])
            if pid in sh.ids.get(ns, []):
                sh.ids[ns].remove(pid)
        else:
            pid = rng.choice([None, 3, 0])
        data = ([] if ack else ['ev']) + [{'_placeholder': True, 'num': i} for i in range(n)] + ['tail']
        out = [msg(frame(6 if ack else 5, ns, pid, data, natt=n))]
        cut = n if rng.random() < 0.75 else rng.randrange(0, n)
        for i in range(cut):
            out.append(('msg', bytes([i, 255 - i])))
        if cut < n:
            sh.note('binary-left-open')
            sh.binary_open = n - cut
            if rng.random() < 0.6:
                out.append((rng.choice(['loss', 'server_close', 'disconnect']),))
                sh.note('transport-end-mid-binary')
                if any(sh.ids.values()):
                    sh.note('transport-end-with-callbacks')
                sh.down()
        return out
    if kind == 'ack':
        ns = pick_ns(rng, sh)
        with_ids = sorted(n for n, l in sh.ids.items() if l)
        if with_ids and rng.random() < 0.75:
            ns = rng.choice(with_ids)
        r = rng.random()
        if not sh.ids.get(ns):
            r = 0.5 + r / 2
        if r < 0.5:
            pid = rng.choice(sh.ids[ns])
            sh.ids[ns].remove(pid)
            sh.note('ack-correct')
            out = [pid]
            if rng.random() < 0.25:
                out.append(pid)
                sh.note('ack-repeated')
        elif r < 0.62:
            pid, out = 0, [0]
            sh.note('ack-id-0')
        elif r < 0.74:
            other = [(n2, i) for n2, l in sh.ids.items() if n2 != ns for i in l if i not in sh.ids.get(ns, [])]
            if other:
                n2, pid = rng.choice(other)
                sh.note('ack-other-namespace')
            else:
                pid = rng.choice([5, 9, 77])
                sh.note('ack-never-issued')
            out = [pid]
        elif r < 0.84 and sh.old_ids:
            ns, pid = rng.choice(sh.old_ids)
            if pid in sh.ids.get(ns, []):
                sh.ids[ns].remove(pid)
            out = [pid]
            sh.note('ack-previous-connection')
        else:
            pid = rng.choice([None, 9, 77, sh.next_id.get(ns, 1)])
            out = [pid]
            sh.note('ack-never-issued')
        data = rng.choice([[], ['ok'], [1, 2], [{'a': 1}], [[1, 2]], None, 'str', {'k': 'v'}, [None]])
        return [msg(frame(3, ns, p, data)) for p in out]
    if kind in ('emit', 'emit_cb', 'send'):
        ns = pick_ns(rng, sh, 0.05)
        cb = None
        if kind == 'emit_cb' or (kind == 'send' and rng.random() < 0.5):
            sh.cb += 1
            cb = sh.cb
            if sh.live and ns in sh.acc:
                sh.issue(ns)
        nsarg = None if ns == '/' and rng.random() < 0.5 else ns
        if kind == 'send':
            return [('send', gen_data(rng), nsarg, cb)]
        return [('emit', rng.choice(['news', 'msg', 'up-date']), gen_data(rng), nsarg, cb)]
    if kind == 'call':
        ns = pick_ns(rng, sh, 0.05)
        reply = rng.choice([None, [], ['r'], [1, 'two'], [{'a': [1, 2]}], [None], [[1, 2]], [0], ['a', 'b', 'c']])
        if sh.live and ns in sh.acc:
            i = sh.issue(ns)
            if reply is not None and not sh.binary_open:
                sh.ids[ns].remove(i)
            else:
                sh.note('call-timeout')
        nsarg = None if ns == '/' and rng.random() < 0.5 else ns
        return [('call', rng.choice(['q', 'sum']), gen_data(rng), nsarg, reply)]
    if kind == 'bad_ns':
        cand = [n for n in NSS + ['/nope'] if n not in sh.acc]
        if not cand:
            return None
        ns = rng.choice(cand)
        sh.note('emit-unconnected')
        r = rng.random()
        if r < 0.5:
            return [('emit', 'news', gen_data(rng), ns, None)]
        if r < 0.7:
            sh.cb += 1
            return [('emit', 'news', gen_data(rng), ns, sh.cb)]
        if r < 0.85:
            return [('send', gen_data(rng), ns, None)]
        return [('call', 'q', None, ns, ['r'])]
    if kind == 'server_disc':
        if not (sh.live and sh.acc):
            return None
        ns = rng.choice(sorted(sh.acc))
        del sh.acc[ns]
        sh.ended.append(ns)
        sh.ids.pop(ns, None) if False else None
        sh.note('server-disconnect-namespace')
        out = [msg(frame(1, ns, None, rng.choice([None, None, {'message': 'bye'}])))]
        if not sh.acc and not sh.pending:
            sh.note('server-disconnect-last')
            sh.down()
        return out
    if kind == 'second_disc':
        if not (sh.live and sh.ended and sh.acc):
            return None
        sh.note('OUT-OF-DOMAIN second-DISCONNECT')
        return [msg(frame(1, rng.choice(sh.ended)))]
    if kind == 'late_refuse':
        # OUT OF DOMAIN: CONNECT_ERROR for a namespace that was already accepted
        if not (sh.live and len(sh.acc) > 1):
            return None
        ns = rng.choice(sorted(n for n in sh.acc if n != '/') or ['/a'])
        if ns not in sh.acc:
            return None
        del sh.acc[ns]
        sh.note('OUT-OF-DOMAIN refusal-after-accept')
        return [msg(refusal_frame(rng, ns))]
    if kind in ('disconnect', 'loss', 'server_close'):
        if sh.live:
            sh.note('end-' + kind)
            if any(sh.ids.values()):
                sh.note('transport-end-with-callbacks')
        sh.down()
        return [(kind,)]
    if kind == 'junk':
        sh.note('junk')
        wire = rng.choice(JUNK)
        t, ns = packet_kind(wire)
        if sh.live and t in (0, 4) and ns in sh.acc:
            # a second CONNECT / a CONNECT_ERROR for a namespace that is currently accepted: outside the protocol,
            # the checker stops judging this connection here
            sh.note('OUT-OF-DOMAIN connect-or-refusal-for-accepted-namespace')
        return [msg(wire)]
    return None


def gen_history(rng, k=None, cfg=None):
    k = k or Knobs()
    cfg = cfg or gen_cfg(rng, k)
    sh = Shadow(cfg)
    ops = []
    kinds = list(k.w)
    weights = [k.w[x] for x in kinds]
    while len(ops) < k.n_ops:
        if not sh.live:
            r = rng.random()
            if r < 0.78 or not ops:
                new = [gen_connect(rng, k, sh)]
            elif r < 0.90:
                new = gen_ops(rng, k, sh, rng.choice(['bad_ns', 'bad_ns', 'ack', 'event', 'junk']))
            else:
                new = gen_ops(rng, k, sh, rng.choice(['disconnect', 'loss', 'server_close']))
        else:
            kind = 'late' if sh.pending and rng.random() < 0.7 else rng.choices(kinds, weights)[0]
            new = gen_ops(rng, k, sh, kind)
        if new:
            ops.extend(new)
    return cfg, ops, sh.stats


def gen_malformed(rng, k=None):
    """One accepted connection, then a stream dominated by malformed / unexpected frames."""
    k = k or Knobs()
    cfg = gen_cfg(rng, k)
    sh = Shadow(cfg)
    ops = [gen_connect(rng, k, sh, force={'wait': True, 'eio_fails': False, '/': 'accept', '/chat': 'accept', '/a': 'accept'})]
    while len(ops) < k.n_ops:
        r = rng.random()
        if r < 0.6:
            new = gen_ops(rng, k, sh, 'junk')
        elif not sh.live:
            new = [gen_connect(rng, k, sh)]
        else:
            new = gen_ops(rng, k, sh, rng.choice(['event', 'ack', 'emit_cb', 'binary', 'call', 'loss']))
        if new:
            ops.extend(new)
    return cfg, ops, sh.stats


# ---------------------------------------------------------------------------------------
# structural scans used by the property modules
# ---------------------------------------------------------------------------------------
def packet_kind(payload):
    """(type digit, namespace) of a text frame, best effort (for classification only)."""
    if not isinstance(payload, str) or not payload[:1].isdigit():
        return None, None
    t = int(payload[0])
    body = payload[1:]
    if t in (5, 6) and '-' in body and body.split('-', 1)[0].isdigit():
        body = body.split('-', 1)[1]
    ns = '/'
    if body.startswith('/'):
        ns = body.split(',', 1)[0]
    return t, ns


def window_has_disconnect_after_connect(op):
    seen = set()
    for p in op[6]:
        t, ns = packet_kind(p)
        if t == 0:
            seen.add(ns)
        elif t == 1 and ns in seen:
            return True
    return False


def window_partial(op):
    """Some requested namespace accepted and some not accepted, inside the window."""
    acc, req = set(), None
    for p in op[6]:
        t, ns = packet_kind(p)
        if t == 0:
            acc.add(ns)
        elif t == 4:
            acc.discard(ns)
            if ns == '/':
                acc.clear()
    req = set(op[1]) if op[1] is not None else None
    return bool(acc) and (req is None or acc != req)
