"""ns2coq - fail-closed translation of the `trigger_event` methods of the four namespace base
classes (namespace.py: Namespace, ClientNamespace; async_namespace.py: AsyncNamespace,
AsyncClientNamespace) to Gallina, for C13 ("class-based namespaces receive the event in the
method named on_<event>" - of THE object the event was routed to).

Same dumb, untyped scheme as py2coq.py (which it uses as a library); the whitelist is larger
because these methods CALL application code:

  def / async def f(self, a, ..., *rest)   plain positional parameters and one *vararg
  statements   everything of py2coq + try / except <Name | dotted name> (no `as`, no else, no
               finally) + a bare `raise` inside a handler
  expressions  everything of py2coq + e + e, e[:<int>] / e[<int>:] / e[<int>:<int>],
               e is True, `await e` (the awaited call runs to completion in place),
               hasattr(e, e), getattr(e, e) with a computed name,
               asyncio.iscoroutinefunction(e)          -> oracle parameter ext_iscoroutinefunction
               <local name | getattr(e, e)>(e, *e, ...)  -> oracle parameter ext_call: the CALL of an
                                                          application callable (callee value and
                                                          argument tuple are explicit in the term)
  Every other call (in particular self.<method>(...)) is outside the whitelist.

Exceptions: `except TypeError` etc. select on the model's exception classes; an exception
class the model does not have (asyncio.CancelledError) can never be the class of a modelled
exception, so its handler is translated (fail-closed) but never selected.

Output: coq/Routing/Gen_namespace.v, coq/Routing/Gen_async_namespace.v; on an 'ERROR' the
output file of that source and its .vo are removed (proofs depending on it fail closed).
"""
import ast
import os

from vt import common
from vt.coqio import cstr
from translator import py2coq
from translator.py2coq import Unsupported, vname

HEADER = '(* GENERATED on every run by harness/translator/ns2coq.py from %s -- do not edit *)\n' \
         'From VT Require Import Routing.PyRuntimeNs.\n\n'

# (source file relative to REPO, output relative to coq/, [(class, [methods])])
TARGETS = [
    ('src/socketio/namespace.py', 'Routing/Gen_namespace.v',
     [('Namespace', ['trigger_event']), ('ClientNamespace', ['trigger_event'])]),
    ('src/socketio/async_namespace.py', 'Routing/Gen_async_namespace.v',
     [('AsyncNamespace', ['trigger_event']), ('AsyncClientNamespace', ['trigger_event'])]),
]

# exception classes of the model (Base/PyVal.v exn); others can never match a modelled exception
MODEL_EXN = {'ValueError': 'ValueError', 'TypeError': 'TypeError', 'KeyError': 'KeyError',
             'IndexError': 'IndexError', 'AttributeError': 'AttributeError', 'RuntimeError': 'RuntimeError'}
OUTSIDE_EXN = {'asyncio.CancelledError'}
ORACLES = '(ext_call : pv -> pv -> Res pv) (ext_iscoroutinefunction : pv -> Res pv)'


def dotted(e):
    if isinstance(e, ast.Name):
        return e.id
    if isinstance(e, ast.Attribute):
        d = dotted(e.value)
        return None if d is None else d + '.' + e.attr
    return None


class DispatchTranslator(py2coq.FunctionTranslator):
    def __init__(self, cls_name, fn):
        super().__init__(cls_name, fn)
        self.wrap = []          # innermost try / except: `return e` yields a completion
        self.exc = []           # innermost handler: the binder of the caught exception
        self.fresh = 0

    # ---------------- expressions
    def expr(self, e, env):
        if isinstance(e, ast.Await):
            return self.expr(e.value, env)
        if isinstance(e, ast.Name) and e.id == 'self' and isinstance(e.ctx, ast.Load):
            return '(Ok self)'
        if isinstance(e, ast.BinOp) and isinstance(e.op, ast.Add):
            return '(py_add %s %s)' % (self.expr(e.left, env), self.expr(e.right, env))
        if isinstance(e, ast.Compare) and len(e.ops) == 1 and isinstance(e.ops[0], ast.Is) and \
                isinstance(e.comparators[0], ast.Constant) and e.comparators[0].value is True:
            return '(py_is_true %s)' % self.expr(e.left, env)
        if isinstance(e, ast.Subscript) and isinstance(e.slice, ast.Slice):
            if not isinstance(e.ctx, ast.Load) or e.slice.step is not None:
                raise Unsupported(e, 'slice with a step / in store context')
            return '(py_slice %s %s %s)' % (self.expr(e.value, env), self.bound(e.slice.lower),
                                            self.bound(e.slice.upper))
        if isinstance(e, ast.Call):
            return self.call(e, env)
        return super().expr(e, env)

    @staticmethod
    def bound(b):
        if b is None:
            return 'None'
        if isinstance(b, ast.UnaryOp) and isinstance(b.op, ast.USub) and isinstance(b.operand, ast.Constant) \
                and type(b.operand.value) is int:
            return '(Some (%d)%%Z)' % -b.operand.value
        if isinstance(b, ast.Constant) and type(b.value) is int:
            return '(Some (%d)%%Z)' % b.value
        raise Unsupported(b, 'slice bound that is not an integer constant')

    def call(self, e, env):
        if e.keywords:
            raise Unsupported(e, 'call with keyword arguments')
        name = dotted(e.func)
        plain = [a for a in e.args if not isinstance(a, ast.Starred)]
        if name in ('hasattr', 'getattr') and name not in env:
            if len(e.args) != 2 or len(plain) != 2:
                raise Unsupported(e, '%s with other than two plain arguments' % name)
            f = 'py_hasattr' if name == 'hasattr' else 'py_getattr_dyn'
            return '(%s %s_attrs %s %s)' % (f, self.cls, self.expr(e.args[0], env), self.expr(e.args[1], env))
        if name == 'asyncio.iscoroutinefunction':
            if len(e.args) != 1 or len(plain) != 1:
                raise Unsupported(e, 'asyncio.iscoroutinefunction with other than one plain argument')
            return '(py_call1 ext_iscoroutinefunction %s)' % self.expr(e.args[0], env)
        # the call of an application callable: a local variable, or the result of getattr(...)
        callee = e.func
        is_local = isinstance(callee, ast.Name) and callee.id in env
        is_getattr = isinstance(callee, ast.Call) and dotted(callee.func) == 'getattr' and 'getattr' not in env
        if not (is_local or is_getattr):
            raise Unsupported(e, 'call of %s: only hasattr, getattr, asyncio.iscoroutinefunction, and calls of a '
                                 'local variable or of a getattr(...) result are in the whitelist'
                              % (name or type(callee).__name__))
        parts = []
        for a in e.args:
            if isinstance(a, ast.Starred):
                parts.append('(true, %s)' % self.expr(a.value, env))
            else:
                parts.append('(false, %s)' % self.expr(a, env))
        return '(py_call ext_call %s [%s])' % (self.expr(callee, env), '; '.join(parts))

    # ---------------- statements
    def assigned_on_completion(self, stmts, env):
        """Locals bound on EVERY path that falls through `stmts` (None = no path falls through)."""
        cur = set(env)
        for s in stmts:
            if isinstance(s, ast.Assign) and len(s.targets) == 1 and isinstance(s.targets[0], ast.Name):
                cur = cur | {s.targets[0].id}
            elif isinstance(s, (ast.Return, ast.Raise)):
                return None
            elif isinstance(s, ast.If):
                a = self.assigned_on_completion(s.body, cur)
                b = self.assigned_on_completion(s.orelse, cur)
                if a is None and b is None:
                    return None
                cur = b if a is None else a if b is None else (a & b)
            elif isinstance(s, ast.Try):
                paths = [self.assigned_on_completion(s.body, cur)] + \
                        [self.assigned_on_completion(h.body, cur) for h in s.handlers]
                paths = [p for p in paths if p is not None]
                if not paths:
                    return None
                out = paths[0]
                for p in paths[1:]:
                    out = out & p
                cur = out
        return cur

    def live_after(self, s, env):
        """(names threaded out of the compound statement s, their Gallina tuple, pattern, type)."""
        after = self.assigned_on_completion([s], env)
        live = sorted(v for v in self.assigned([s]) if after is not None and v in after)
        if len(live) == 0:
            return live, 'tt', '_', 'unit'
        if len(live) == 1:
            return live, vname(live[0]), vname(live[0]), 'pv'
        tup = '(%s)' % ', '.join(vname(v) for v in live)
        return live, tup, "'" + tup, '(%s)' % ' * '.join('pv' for _ in live)

    def ret(self, term):
        return self.wrap[-1](term) if self.wrap else term

    def block(self, stmts, env, k, ind):
        pad = '  ' * ind
        if not stmts:
            return k(env, ind)
        s, rest = stmts[0], stmts[1:]
        if isinstance(s, ast.Return):
            if rest:
                raise Unsupported(rest[0], 'statement after return')
            return pad + self.ret(self.expr(s.value, env) if s.value is not None else '(Ok PNone)')
        if isinstance(s, ast.Raise):
            if s.exc is not None or s.cause is not None or not self.exc:
                raise Unsupported(s, 'raise other than a bare re-raise inside an except handler')
            if rest:
                raise Unsupported(rest[0], 'statement after raise')
            return pad + '(Err %s)' % self.exc[-1]
        if isinstance(s, ast.If):
            cond = self.expr(s.test, env)
            live, tup, pat, _ty = self.live_after(s, env)
            if self.has_return([s]) or self.assigned_on_completion([s], env) is None:
                def cont(env2, ind2):
                    return self.block(rest, env2, k, ind2)
                return ('%sc <- py_truthy %s ;;\n%sif c then (\n%s\n%s) else (\n%s\n%s)' % (
                    pad, cond, pad, self.block(s.body, env, cont, ind + 1), pad,
                    self.block(s.orelse, env, cont, ind + 1), pad))

            def join(env2, ind2):
                return '  ' * ind2 + 'Ok ' + tup
            return ('%sc <- py_truthy %s ;;\n%s%s <- (if c then (\n%s\n%s) else (\n%s\n%s)) ;;\n%s' % (
                pad, cond, pad, pat, self.block(s.body, env, join, ind + 1), pad,
                self.block(s.orelse, env, join, ind + 1), pad,
                self.block(rest, env | set(live), k, ind)))
        if isinstance(s, ast.Try):
            return self.try_stmt(s, rest, env, k, ind)
        if isinstance(s, ast.Expr) and isinstance(s.value, ast.Constant) and isinstance(s.value.value, str):
            return self.block(rest, env, k, ind)
        if isinstance(s, ast.Pass):
            return self.block(rest, env, k, ind)
        if isinstance(s, ast.Assign):
            if len(s.targets) != 1 or not isinstance(s.targets[0], ast.Name):
                raise Unsupported(s, 'assignment to something other than one local name')
            name = s.targets[0].id
            if name == 'self':
                raise Unsupported(s, 'assignment to self')
            return '%s%s <- %s ;;\n%s' % (pad, vname(name), self.expr(s.value, env),
                                          self.block(rest, env | {name}, k, ind))
        raise Unsupported(s, 'statement %s' % type(s).__name__)

    def try_stmt(self, s, rest, env, k, ind):
        pad = '  ' * ind
        if s.orelse or s.finalbody or not s.handlers:
            raise Unsupported(s, 'try with else / finally / without handlers')
        live, tup, pat, ty = self.live_after(s, env)
        self.fresh += 1
        exc, comp = 'exc%d' % self.fresh, 'cmp%d' % self.fresh

        def join(env2, ind2):
            return '  ' * ind2 + 'Ok (Fall %s)' % tup
        self.wrap.append(lambda term: '(r <- %s ;; Ok (Ret r))' % term)
        body = self.block(s.body, env, join, ind + 2)
        arms = []
        for h in s.handlers:
            if h.name is not None:
                raise Unsupported(h, 'except ... as name')
            cname = dotted(h.type) if h.type is not None else None
            if cname in MODEL_EXN:
                test = 'exn_eqb %s %s' % (exc, MODEL_EXN[cname])
            elif cname in OUTSIDE_EXN:
                test = 'false (* %s is not an exception class of the model *)' % cname
            else:
                raise Unsupported(h, 'except clause for %s' % (cname or 'everything / an expression'))
            self.exc.append(exc)
            arms.append((test, self.block(h.body, env, join, ind + 3)))
            self.exc.pop()
        self.wrap.pop()
        handler = '%s    None' % pad
        for test, term in reversed(arms):
            handler = '%s    if %s then Some (\n%s\n%s    ) else\n%s' % (pad, test, term, pad, handler)
        after = self.block(rest, env | set(live), k, ind + 1)
        return ('%s%s <- py_try (A := %s) (\n%s\n%s  ) (fun %s =>\n%s) ;;\n'
                '%smatch %s with\n%s| Ret r => %s\n%s| Fall %s =>\n%s\n%send' % (
                    pad, comp, ty, body, pad, exc, handler,
                    pad, comp, pad, self.ret('(Ok r)'), pad, pat.lstrip("'"), after, pad))

    def translate(self):
        fn = self.fn
        if not isinstance(fn, (ast.FunctionDef, ast.AsyncFunctionDef)):
            raise Unsupported(fn, 'not a def')
        a = fn.args
        if a.kwarg or a.kwonlyargs or a.defaults or a.kw_defaults or a.posonlyargs:
            raise Unsupported(fn, 'parameters other than plain positional ones and one *vararg')
        if fn.decorator_list:
            raise Unsupported(fn, 'decorated function')
        params = [p.arg for p in a.args] + ([a.vararg.arg] if a.vararg else [])
        if not params or params[0] != 'self':
            raise Unsupported(fn, 'first parameter is not self')
        if len(set(params)) != len(params):
            raise Unsupported(fn, 'duplicate parameter')
        env = frozenset(params[1:])

        def fall_off(env2, ind2):
            return '  ' * ind2 + '(Ok PNone)'
        body = self.block(list(fn.body), env, fall_off, 1)
        binders = ' '.join(['self'] + [vname(p) for p in params[1:]])
        return 'Definition %s_%s %s (%s : pv) : Res pv :=\n%s.\n' % (self.cls, fn.name, ORACLES, binders, body)


def translate_file(source, classes, origin='<string>'):
    tree = ast.parse(source)
    out = [HEADER % origin]
    for cls_name, methods in classes:
        cls = [n for n in tree.body if isinstance(n, ast.ClassDef) and n.name == cls_name]
        if len(cls) != 1:
            raise Unsupported(tree, 'class %s not found exactly once' % cls_name)
        cls = cls[0]
        # hasattr / getattr see the instance dictionary first, then the class: the model object carries
        # its bound methods in its dictionary, no class attribute is consulted
        out.append('Definition %s_attrs : list (str * pv) := [].\n\n' % cls_name)
        for m in methods:
            found = [n for n in cls.body if isinstance(n, (ast.FunctionDef, ast.AsyncFunctionDef)) and n.name == m]
            if len(found) != 1:
                raise Unsupported(cls, 'method %s.%s not defined exactly once' % (cls_name, m))
            try:
                out.append(DispatchTranslator(cls_name, found[0]).translate() + '\n')
            except Unsupported as e:
                raise Unsupported(found[0], '%s.%s: %s' % (cls_name, m, e)) from None
    return ''.join(out)


def regenerate(targets=None):
    """Regenerate every target from vt.common.REPO's working tree.  Returns messages; one
    starting with 'ERROR' = construct outside the whitelist (broken obligation of C13)."""
    msgs = []
    for src, out, classes in (targets or TARGETS):
        spath = os.path.join(common.REPO, src)
        opath = os.path.join(common.COQ, out)
        try:
            text = translate_file(open(spath).read(), classes, origin=src)
        except Unsupported as e:
            py2coq.remove_output(opath)
            msgs.append('ERROR ns2coq %s: outside the translator whitelist: %s' % (src, e))
            continue
        except (OSError, SyntaxError) as e:
            py2coq.remove_output(opath)
            msgs.append('ERROR ns2coq %s: %s: %s' % (src, type(e).__name__, e))
            continue
        os.makedirs(os.path.dirname(opath), exist_ok=True)
        old = open(opath).read() if os.path.exists(opath) else None
        if old != text:
            with open(opath, 'w') as f:
                f.write(text)
        msgs.append('ns2coq: %s -> %s (%s%d classes)' % (src, out, 'unchanged, ' if old == text else '', len(classes)))
    return msgs


def is_current():
    """The Gen_*namespace.v files in coq/ are the translation of the tree under test."""
    for src, out, classes in TARGETS:
        opath = os.path.join(common.COQ, out)
        try:
            text = translate_file(open(os.path.join(common.REPO, src)).read(), classes, origin=src)
        except Exception:
            if os.path.exists(opath):
                return False
            continue
        vo = opath[:-2] + '.vo'
        if not os.path.exists(opath) or open(opath).read() != text:
            return False
        if not os.path.exists(vo) or os.path.getmtime(vo) < os.path.getmtime(opath):
            return False
    return True


if __name__ == '__main__':
    for m in regenerate():
        print(m)
