"""Registry of the source->Coq translators.  Each module listed here provides
`regenerate() -> list of str` (messages; one starting with 'ERROR' marks a construct
outside the translator's whitelist = a broken proof obligation).  Modules that do
not exist yet are skipped."""
import importlib

MODULES = ['translator.py2coq', 'translator.fwd2coq', 'translator.admin2coq', 'translator.ns2coq']
# which properties' theorems are stated over the text a translator generates
DEPENDENTS = {'translator.py2coq': {'C13', 'C18'}, 'translator.fwd2coq': {'C17'}, 'translator.admin2coq': {'C18'},
              'translator.ns2coq': {'C13'}}


def regenerate(cid=None):
    """Regenerate every translated file.  Errors are reported only when `cid` is None or depends
    on the translator that failed (a construct outside one translator's whitelist is a broken
    obligation of the properties proved over its output, not of the others)."""
    msgs = []
    for name in MODULES:
        mine = cid is None or cid in DEPENDENTS.get(name, set())
        try:
            mod = importlib.import_module(name)
        except ModuleNotFoundError as e:
            if e.name == name:
                continue
            msgs.append(('ERROR' if mine else 'note') + ' importing %s: %s' % (name, e))
            continue
        try:
            out = mod.regenerate()
        except Exception as e:      # fail closed
            out = ['ERROR %s: %s' % (name, e)]
        msgs.extend(m if mine or not m.startswith('ERROR') else 'note (other property): ' + m for m in out)
    return msgs
