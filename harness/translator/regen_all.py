"""Registry of the source->Coq translators.  Each module listed here provides
`regenerate() -> list of str` (messages; one starting with 'ERROR' marks a construct
outside the translator's whitelist = a broken proof obligation).  Modules that do
not exist yet are skipped."""
import importlib

MODULES = ['translator.py2coq', 'translator.fwd2coq', 'translator.admin2coq']


def regenerate():
    msgs = []
    for name in MODULES:
        try:
            mod = importlib.import_module(name)
        except ModuleNotFoundError as e:
            if e.name == name:
                continue
            msgs.append('ERROR importing %s: %s' % (name, e))
            continue
        try:
            msgs.extend(mod.regenerate())
        except Exception as e:      # fail closed
            msgs.append('ERROR %s: %s' % (name, e))
    return msgs
