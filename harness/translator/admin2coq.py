"""admin2coq - fail-closed translator for the C18 anchors (DESIGN.md section 5).

Targets (both admin.py / InstrumentedServer and async_admin.py / InstrumentedAsyncServer):

  admin_connect   translated as a whole into `Res pv` over Routing/PyRuntime.v (reused through
                  translator.py2coq, imported as a library) + Admin/AdminRuntime.v.  The
                  authentication decision is ordinary whitelisted Python; the part that
                  follows it (the nested `def config`, `self.sio.start_background_task(...)`,
                  `self.<attr> = self.sio.eio.create_event()`) only consists of calls to
                  services of the server object, which become calls of the oracle `o_ext`.
  instrument      translated in "effect list" mode into `Res (list pv)`: the `if`s are
                  translated, every `self.sio.on(<event>, self.<method>, namespace=<e>)`
                  becomes an `on` item, every attribute store becomes a `set` item, every
                  `self.sio.eio.on(...)` a `call` item.  Nothing else is allowed.

Extensions of the py2coq whitelist (everything else still raises Unsupported):
  async def; `isinstance(e, dict)` / `isinstance(e, list)`; `self.<attr>(args)` (call of a
  configured callable -> oracle `o_call`, a coroutine function called without await yields a
  coroutine object); `await self.<attr>(args)`; `asyncio.iscoroutinefunction(e)`;
  `raise <Exc>(<constants>)` for the known exception table, where ConnectionRefusedError must
  be the name imported from `.exceptions`; nested `def` (the function object only; calling a
  local function is NOT whitelisted); expression statements and `self.<attr> = ...` whose
  value is a call `self.sio.<...>(<locals>)` (oracle `o_ext`; a later read of that attribute
  is rejected); `{}`; `asyncio.iscoroutine(e)`; `await <local>`; `try: ... except Exception: ...` with one
  handler made of `self.sio.logger.<m>(<constants>)` calls and `<local> = <constant>` assignments that
  cover every local the body assigns (no return / raise / nested def inside).

`regenerate()` writes coq/Admin/Gen_admin.v; on any construct outside the whitelist it returns a
message starting with 'ERROR', and removes Gen_admin.v and its .vo so that every proof over it
fails closed.  The generated text ends with a digest identifier (see fwd2coq / notes/C17.md):
a Gen_admin.vo that was compiled from other text is detected and recompilation is forced.
"""
import ast
import hashlib
import os
import sys

if __name__ == '__main__':
    sys.path.insert(0, os.path.dirname(os.path.dirname(os.path.abspath(__file__))))

from vt import common  # noqa: E402
from vt.coqio import cstr  # noqa: E402
from translator import py2coq  # noqa: E402
from translator.py2coq import FunctionTranslator, Unsupported, vname  # noqa: E402

OUT = 'Admin/Gen_admin.v'
SOURCES = [('src/socketio/admin.py', 'InstrumentedServer'),
           ('src/socketio/async_admin.py', 'InstrumentedAsyncServer')]

HEADER = ('(* GENERATED on every run by harness/translator/admin2coq.py from %s -- do not edit *)\n'
          'From VT Require Import Admin.AdminRuntime.\n\n')

EXN = {'ConnectionRefusedError': 'ConnectionRefused', 'ValueError': 'ValueError', 'TypeError': 'TypeError',
       'KeyError': 'KeyError', 'IndexError': 'IndexError', 'AttributeError': 'AttributeError',
       'RuntimeError': 'RuntimeError'}


def chain(e):
    """a.b.c -> ['a', 'b', 'c'] for a pure Name/Attribute chain, else None."""
    out = []
    while isinstance(e, ast.Attribute):
        out.append(e.attr)
        e = e.value
    if isinstance(e, ast.Name):
        out.append(e.id)
        return list(reversed(out))
    return None


class AdminFn(FunctionTranslator):
    def __init__(self, cls_name, fn, module_info):
        super().__init__(cls_name, fn)
        self.info = module_info
        self.stored = set()
        self.refusal_args = None
        self.ext_calls = []
        self.n_await = 0

    # ---------------- expressions
    def args_list(self, call, env):
        if call.keywords:
            raise Unsupported(call, 'keyword arguments in a call')
        out = []
        for a in call.args:
            if isinstance(a, ast.Starred):
                raise Unsupported(call, 'starred argument in a call')
            out.append(self.expr(a, env))
        return '[%s]' % '; '.join(out)

    def call(self, e, env, awaited):
        f = e.func
        ch = chain(f)
        # isinstance(x, dict|list)
        if isinstance(f, ast.Name) and f.id == 'isinstance' and f.id not in env:
            if awaited or e.keywords or len(e.args) != 2 or not isinstance(e.args[1], ast.Name) \
                    or e.args[1].id not in ('dict', 'list') or e.args[1].id in env:
                raise Unsupported(e, 'isinstance with something other than (e, dict) / (e, list)')
            return '(py_isinstance_%s %s)' % (e.args[1].id, self.expr(e.args[0], env))
        # asyncio.iscoroutinefunction(x)
        if ch == ['asyncio', 'iscoroutinefunction']:
            if awaited or 'asyncio' not in self.info['imports'] or 'asyncio' in env:
                raise Unsupported(e, 'asyncio.iscoroutinefunction: asyncio is not the imported module, or awaited')
            if e.keywords or len(e.args) != 1:
                raise Unsupported(e, 'asyncio.iscoroutinefunction with other than one argument')
            return '(py_iscoroutinefunction o %s)' % self.expr(e.args[0], env)
        # asyncio.iscoroutine(x)
        if ch == ['asyncio', 'iscoroutine']:
            if awaited or 'asyncio' not in self.info['imports'] or 'asyncio' in env:
                raise Unsupported(e, 'asyncio.iscoroutine: asyncio is not the imported module, or awaited')
            if e.keywords or len(e.args) != 1:
                raise Unsupported(e, 'asyncio.iscoroutine with other than one argument')
            return '(py_iscoroutine o %s)' % self.expr(e.args[0], env)
        if ch and ch[0] == 'self' and 'self' not in env:
            if len(ch) == 2:
                # self.<attr>(...): a configured callable
                fn = 'py_call_await' if awaited else 'py_call'
                return '(%s o %s %s)' % (fn, self.expr(f, env), self.args_list(e, env))
            if len(ch) >= 3 and ch[1] == 'sio':
                # a service of the server object; awaiting it makes no difference to the oracle
                name = '.'.join(ch[1:])
                self.ext_calls.append(name)
                return '(py_ext o %s %s)' % (cstr(name), self.args_list(e, env))
        raise Unsupported(e, 'call of %s' % (ast.unparse(f),))

    def expr(self, e, env):
        if isinstance(e, ast.Await):
            self.n_await += 1
            if isinstance(e.value, ast.Call):
                return self.call(e.value, env, True)
            if isinstance(e.value, ast.Name):
                return '(py_await o %s)' % self.expr(e.value, env)
            raise Unsupported(e, 'await of something other than a call or a local variable')
        if isinstance(e, ast.Call):
            return self.call(e, env, False)
        if isinstance(e, ast.Dict) and not e.keys:
            return 'py_empty_dict'
        if isinstance(e, ast.Attribute) and isinstance(e.value, ast.Name) and e.value.id == 'self' \
                and e.attr in self.stored:
            raise Unsupported(e, 'read of self.%s after it was assigned in this function' % e.attr)
        return super().expr(e, env)

    # ---------------- statements
    @staticmethod
    def has_return(stmts):
        for s in stmts:
            for n in ast.walk(s):
                if isinstance(n, (ast.Return, ast.Raise)):
                    return True
        return False

    def raise_term(self, s, env):
        if s.cause is not None or s.exc is None:
            raise Unsupported(s, 'bare raise / raise ... from')
        exc = s.exc
        args = []
        if isinstance(exc, ast.Call):
            if exc.keywords:
                raise Unsupported(s, 'keyword arguments in a raise')
            for a in exc.args:
                if not (isinstance(a, ast.Constant) and isinstance(a.value, (str, int)) and
                        not isinstance(a.value, bool)):
                    raise Unsupported(s, 'exception argument that is not a str / int constant')
                args.append(a.value)
            exc = exc.func
        if not isinstance(exc, ast.Name) or exc.id in env or exc.id not in EXN:
            raise Unsupported(s, 'raise of something other than a known exception class')
        if exc.id == 'ConnectionRefusedError':
            if self.info['from_exceptions'].get('ConnectionRefusedError') != 'ConnectionRefusedError':
                raise Unsupported(s, 'ConnectionRefusedError is not the name imported from .exceptions '
                                     '(the builtin of that name is not caught by the server)')
            if self.refusal_args is None:
                self.refusal_args = args
        return '(Err %s)' % EXN[exc.id]

    def block(self, stmts, env, k, ind):
        pad = '  ' * ind
        if not stmts:
            return k(env, ind)
        s, rest = stmts[0], stmts[1:]
        if isinstance(s, ast.Raise):
            # like return: ends the path (py2coq duplicates what follows an `if` that contains one)
            return pad + self.raise_term(s, env)
        if isinstance(s, ast.Try):
            return self.try_stmt(s, rest, env, k, ind)
        if isinstance(s, (ast.FunctionDef, ast.AsyncFunctionDef)):
            for n in ast.walk(s):
                if isinstance(n, (ast.Nonlocal, ast.Global)):
                    raise Unsupported(n, 'nonlocal / global inside a nested function')
            if s.decorator_list:
                raise Unsupported(s, 'decorated nested function')
            if s.name == 'self':
                raise Unsupported(s, 'nested function named self')
            return '%s%s <- py_local_function %s ;;\n%s' % (
                pad, vname(s.name), cstr(s.name), self.block(rest, env | {s.name}, k, ind))
        if isinstance(s, ast.Expr) and isinstance(s.value, (ast.Call, ast.Await)):
            v = s.value.value if isinstance(s.value, ast.Await) else s.value
            ch = chain(v.func) if isinstance(v, ast.Call) else None
            if not (ch and len(ch) >= 3 and ch[0] == 'self' and ch[1] == 'sio'):
                raise Unsupported(s, 'expression statement that is not a call self.sio.<...>(...)')
            return '%s_ <- %s ;;\n%s' % (pad, self.expr(s.value, env), self.block(rest, env, k, ind))
        if isinstance(s, ast.Assign) and len(s.targets) == 1 and isinstance(s.targets[0], ast.Attribute):
            t = s.targets[0]
            if not (isinstance(t.value, ast.Name) and t.value.id == 'self' and 'self' not in env):
                raise Unsupported(s, 'assignment to an attribute of something other than self')
            v = s.value.value if isinstance(s.value, ast.Await) else s.value
            ch = chain(v.func) if isinstance(v, ast.Call) else None
            if not (ch and len(ch) >= 3 and ch[0] == 'self' and ch[1] == 'sio'):
                raise Unsupported(s, 'self.%s = <something other than a call self.sio.<...>(...)>' % t.attr)
            if t.attr in ('auth', 'read_only', 'mode', 'admin_namespace', 'sio'):
                raise Unsupported(s, 'assignment to the configuration attribute self.%s' % t.attr)
            term = self.expr(s.value, env)
            self.stored.add(t.attr)
            return '%s_ <- py_ext o %s [%s] ;;\n%s' % (pad, cstr('setattr:' + t.attr), term,
                                                       self.block(rest, env, k, ind))
        return super().block(stmts, env, k, ind)

    def try_stmt(self, s, rest, env, k, ind):
        """try: <assignments / ifs> except Exception: <log calls; flag = const>.
        Exactly one handler, type `Exception`, no name, no else / finally; no return / raise inside.
        The handler must assign every local the body assigns (so that a partially executed body is
        not observable); locals are threaded like through an `if`."""
        pad = '  ' * ind
        if s.orelse or s.finalbody or len(s.handlers) != 1:
            raise Unsupported(s, 'try with else / finally / several handlers')
        h = s.handlers[0]
        if not (isinstance(h.type, ast.Name) and h.type.id == 'Exception' and 'Exception' not in env) or h.name:
            raise Unsupported(s, 'handler other than a bare `except Exception:`')
        if self.info.get('rebinds_exception'):
            raise Unsupported(s, 'the name Exception is rebound in the module')
        if self.has_return([s]):
            raise Unsupported(s, 'return / raise inside a try statement')
        for n in ast.walk(s):
            if isinstance(n, (ast.FunctionDef, ast.AsyncFunctionDef, ast.Lambda, ast.Try)) and n is not s:
                raise Unsupported(n, 'nested function / try inside a try statement')
        body_assigned = self.assigned(s.body)
        top_handler = set()
        for x in h.body:
            if isinstance(x, ast.Assign) and len(x.targets) == 1 and isinstance(x.targets[0], ast.Name):
                if not isinstance(x.value, ast.Constant):
                    raise Unsupported(x, 'handler assigns something other than a constant')
                top_handler.add(x.targets[0].id)
            elif isinstance(x, ast.Expr) and isinstance(x.value, ast.Call):
                ch = chain(x.value.func)
                if not (ch and len(ch) == 4 and ch[:3] == ['self', 'sio', 'logger']):
                    raise Unsupported(x, 'handler statement that is not self.sio.logger.<m>(...)')
            else:
                raise Unsupported(x, 'handler statement %s' % type(x).__name__)
        if not body_assigned <= top_handler:
            raise Unsupported(s, 'the handler does not assign every local the body assigns: %s'
                              % sorted(body_assigned - top_handler))
        live = sorted(v for v in (body_assigned | top_handler) if v in env)
        if body_assigned - set(env):
            raise Unsupported(s, 'the try body introduces a new local: %s' % sorted(body_assigned - set(env)))
        if len(live) == 0:
            tup, pat = 'tt', '_'
        elif len(live) == 1:
            tup, pat = vname(live[0]), vname(live[0])
        else:
            tup = '(%s)' % ', '.join(vname(v) for v in live)
            pat = "'" + tup

        def join(env2, ind2):
            return '  ' * ind2 + 'Ok ' + tup
        return ('%s%s <- py_try (\n%s\n%s) (\n%s\n%s) ;;\n%s' % (
            pad, pat, self.block(list(s.body), env, join, ind + 1), pad,
            self.block(list(h.body), env, join, ind + 1), pad,
            self.block(rest, env, k, ind)))

    def translate(self):
        fn = self.fn
        if not isinstance(fn, (ast.FunctionDef, ast.AsyncFunctionDef)):
            raise Unsupported(fn, 'not a def')
        a = fn.args
        if a.vararg or a.kwarg or a.kwonlyargs or a.defaults or a.kw_defaults or a.posonlyargs:
            raise Unsupported(fn, 'parameters other than plain positional ones')
        if fn.decorator_list:
            raise Unsupported(fn, 'decorated function')
        params = [p.arg for p in a.args]
        if not params or params[0] != 'self':
            raise Unsupported(fn, 'first parameter is not self')
        if len(set(params)) != len(params) or 'o' in params:
            raise Unsupported(fn, 'duplicate parameter')
        env = frozenset(params[1:])

        def fall_off(env2, ind2):
            return '  ' * ind2 + '(Ok PNone)'
        body = self.block(list(fn.body), env, fall_off, 1)
        binders = ' '.join(['self'] + [vname(p) for p in params[1:]])
        return 'Definition %s_%s (o : oracle) (%s : pv) : Res pv :=\n%s.\n' % (self.cls, fn.name, binders, body)


class InstrumentFn:
    """Effect-list translation of instrument()."""
    REG_WORDS = ('on', 'event', 'register_namespace', 'handlers', 'namespace_handlers')

    def __init__(self, cls_name, fn, module_info):
        self.cls = cls_name
        self.fn = fn
        self.ex = AdminFn(cls_name, fn, module_info)
        self.roots = {'self'}

    def no_registration_inside(self, node):
        for n in ast.walk(node):
            if isinstance(n, ast.Attribute) and n.attr in self.REG_WORDS:
                raise Unsupported(n, 'mention of .%s inside a statement that is not a plain registration' % n.attr)
            if isinstance(n, (ast.Lambda, ast.NamedExpr, ast.Await, ast.Yield, ast.YieldFrom)):
                raise Unsupported(n, 'lambda / walrus / await inside a patching statement')

    def item(self, s):
        """Gallina term of type Res pv for one simple statement, or None to skip it."""
        env = frozenset()
        if isinstance(s, ast.Expr) and isinstance(s.value, ast.Call):
            c = s.value
            ch = chain(c.func)
            if ch == ['self', 'sio', 'on']:
                if len(c.args) != 2 or len(c.keywords) != 1 or c.keywords[0].arg != 'namespace':
                    raise Unsupported(s, 'self.sio.on(...) not of the form (event, handler, namespace=...)')
                ev, h = c.args
                if not (isinstance(ev, ast.Constant) and isinstance(ev.value, str)):
                    raise Unsupported(s, 'event name that is not a str constant')
                hc = chain(h)
                if not (hc and len(hc) == 2 and hc[0] == 'self'):
                    raise Unsupported(s, 'handler that is not self.<method>')
                return '(item_on (Ok (PStr %s)) (py_method %s) %s)' % (
                    cstr(ev.value), cstr(hc[1]), self.ex.expr(c.keywords[0].value, env))
            if ch == ['self', 'sio', 'eio', 'on']:
                for a in c.args:
                    if not (isinstance(a, ast.Constant) or (chain(a) and chain(a)[0] == 'self')):
                        raise Unsupported(s, 'argument of self.sio.eio.on that is neither a constant nor self.<...>')
                if c.keywords:
                    raise Unsupported(s, 'keyword argument in self.sio.eio.on')
                return '(item_call %s [%s])' % (cstr('sio.eio.on'), '; '.join(cstr(ast.unparse(a)) for a in c.args))
            raise Unsupported(s, 'call statement %s' % ast.unparse(c.func))
        if isinstance(s, ast.Assign):
            if len(s.targets) != 1:
                raise Unsupported(s, 'multiple assignment')
            ch = chain(s.targets[0])
            if not (ch and len(ch) >= 2 and ch[0] in self.roots):
                raise Unsupported(s, 'assignment target that is not an attribute of self / an imported class')
            if ch[0] == 'self' and len(ch) == 2:
                raise Unsupported(s, 'assignment to self.%s inside instrument()' % ch[1])
            for part in ch[1:]:
                if part in self.REG_WORDS:
                    raise Unsupported(s, 'assignment to .%s' % part)
            self.no_registration_inside(s.value)
            return '(item_set %s %s)' % (cstr('.'.join(ch)), cstr(ast.unparse(s.value)))
        if isinstance(s, ast.ImportFrom):
            for al in s.names:
                nm = al.asname or al.name
                if nm in ('self', 'o'):
                    raise Unsupported(s, 'import binding %s' % nm)
                self.roots.add(nm)
            return None
        if isinstance(s, ast.Pass) or (isinstance(s, ast.Expr) and isinstance(s.value, ast.Constant)
                                       and isinstance(s.value.value, str)):
            return None
        raise Unsupported(s, 'statement %s' % type(s).__name__)

    def block(self, stmts, ind):
        pad = '  ' * ind
        if not stmts:
            return pad + 'Ok []'
        s, rest = stmts[0], stmts[1:]
        if isinstance(s, ast.If):
            for n in ast.walk(s):
                if isinstance(n, (ast.Return, ast.Raise)):
                    raise Unsupported(n, 'return / raise inside instrument()')
            return ('%sc <- py_truthy %s ;;\n%sa <- (if c then (\n%s\n%s) else (\n%s\n%s)) ;;\n%sr <- (\n%s\n%s) ;;\n%sOk (a ++ r)' % (
                pad, self.ex.expr(s.test, frozenset()), pad, self.block(s.body, ind + 1), pad,
                self.block(s.orelse, ind + 1), pad, pad, self.block(rest, ind + 1), pad, pad))
        it = self.item(s)
        if it is None:
            return self.block(rest, ind)
        return '%sx <- %s ;;\n%sr <- (\n%s\n%s) ;;\n%sOk (x :: r)' % (pad, it, pad, self.block(rest, ind + 1), pad, pad)

    def translate(self):
        fn = self.fn
        if not isinstance(fn, ast.FunctionDef) or fn.decorator_list:
            raise Unsupported(fn, 'instrument is not a plain undecorated def')
        a = fn.args
        if [p.arg for p in a.args] != ['self'] or a.vararg or a.kwarg or a.kwonlyargs or a.posonlyargs:
            raise Unsupported(fn, 'instrument has parameters other than self')
        if self.ex.ext_calls or self.ex.n_await:
            raise Unsupported(fn, 'call inside a condition of instrument()')
        body = self.block(list(fn.body), 1)
        if self.ex.ext_calls or self.ex.n_await:
            raise Unsupported(fn, 'call inside a condition of instrument()')
        return 'Definition %s_instrument (self : pv) : Res (list pv) :=\n%s.\n' % (self.cls, body)


def module_info(tree):
    info = {'imports': set(), 'from_exceptions': {}}
    for n in tree.body:
        if isinstance(n, ast.Import):
            for al in n.names:
                if al.asname is None:
                    info['imports'].add(al.name)
        if isinstance(n, ast.ImportFrom) and n.level == 1 and n.module == 'exceptions':
            for al in n.names:
                info['from_exceptions'][al.asname or al.name] = al.name
    # a later module-level rebinding of these names would invalidate the reading
    for n in tree.body:
        if isinstance(n, (ast.Assign, ast.FunctionDef, ast.ClassDef, ast.AsyncFunctionDef)):
            names = [n.name] if hasattr(n, 'name') else [t.id for t in n.targets if isinstance(t, ast.Name)]
            for nm in names:
                if nm in ('asyncio', 'isinstance', 'dict', 'list', 'Exception') or nm in info['from_exceptions'] or nm in EXN:
                    raise Unsupported(n, 'module-level rebinding of %s' % nm)
    return info


def the_method(cls, name):
    found = [n for n in cls.body if isinstance(n, (ast.FunctionDef, ast.AsyncFunctionDef)) and n.name == name]
    if len(found) != 1:
        raise Unsupported(cls, 'method %s.%s not defined exactly once' % (cls.name, name))
    for n in cls.body:
        if isinstance(n, ast.Assign):
            for t in n.targets:
                if isinstance(t, ast.Name) and t.id == name:
                    raise Unsupported(n, 'class-level rebinding of %s' % name)
    return found[0]


def translate_source(source, cls_name):
    tree = ast.parse(source)
    info = module_info(tree)
    cls = [n for n in tree.body if isinstance(n, ast.ClassDef) and n.name == cls_name]
    if len(cls) != 1:
        raise Unsupported(tree, 'class %s not found exactly once' % cls_name)
    cls = cls[0]
    if cls.bases or cls.decorator_list:
        raise Unsupported(cls, 'class %s has bases / decorators' % cls_name)
    # class attributes = the methods (bound-method objects are opaque, identified by name);
    # instance attributes win, as in Python
    meths = [n.name for n in cls.body if isinstance(n, (ast.FunctionDef, ast.AsyncFunctionDef))]
    for n in cls.body:
        if not isinstance(n, (ast.FunctionDef, ast.AsyncFunctionDef)) and not (
                isinstance(n, ast.Expr) and isinstance(n.value, ast.Constant)):
            raise Unsupported(n, 'class body statement %s' % type(n).__name__)
    out = ['Definition %s_attrs : list (str * pv) :=\n  [%s].\n\n' % (
        cls_name, ';\n   '.join('(%s, PStr %s)' % (cstr(m), cstr(cls_name + '.' + m)) for m in meths))]
    try:
        f = AdminFn(cls_name, the_method(cls, 'admin_connect'), info)
        out.append(f.translate() + '\n')
    except Unsupported as e:
        raise Unsupported(cls, '%s.admin_connect: %s' % (cls_name, e)) from None
    if f.refusal_args is None:
        raise Unsupported(cls, '%s.admin_connect never raises ConnectionRefusedError' % cls_name)
    out.append('Definition %s_admin_connect_refusal : list pv := [%s].\n' % (
        cls_name, '; '.join('PStr %s' % cstr(a) if isinstance(a, str) else 'PInt (%d)%%Z' % a for a in f.refusal_args)))
    out.append('Definition %s_admin_connect_is_async : bool := %s.\n' % (
        cls_name, 'true' if isinstance(f.fn, ast.AsyncFunctionDef) else 'false'))
    out.append('Definition %s_admin_connect_ext_calls : list str := [%s].\n\n' % (
        cls_name, '; '.join(cstr(x) for x in dict.fromkeys(f.ext_calls))))
    try:
        out.append(InstrumentFn(cls_name, the_method(cls, 'instrument'), info).translate() + '\n')
    except Unsupported as e:
        raise Unsupported(cls, '%s.instrument: %s' % (cls_name, e)) from None
    return ''.join(out)


def translate():
    parts = []
    for src, cls in SOURCES:
        spath = os.path.join(common.REPO, src)
        parts.append(translate_source(open(spath).read(), cls))
    text = HEADER % ', '.join(s for s, _ in SOURCES) + ''.join(parts)
    text += 'Definition %s : unit := tt.\n' % digest_ident(text)
    return text


def digest_ident(text):
    return 'gen_admin_digest_' + hashlib.sha1(text.encode()).hexdigest()[:16]


def vo_is_fresh(text=None):
    path = os.path.join(common.COQ, OUT)
    vo = path + 'o'
    if not os.path.exists(vo):
        return True
    if text is None:
        if not os.path.exists(path):
            return False
        text = open(path).read()
    lines = [ln for ln in text.split('\n') if ln.startswith('Definition gen_admin_digest_')]
    if not lines:
        return False
    with open(vo, 'rb') as f:
        return lines[-1].split()[1].encode() in f.read()


def regenerate():
    path = os.path.join(common.COQ, OUT)
    try:
        text = translate()
    except Unsupported as e:
        py2coq.remove_output(path)
        return ['ERROR admin2coq: outside the translator whitelist: %s' % e]
    except (OSError, SyntaxError) as e:
        py2coq.remove_output(path)
        return ['ERROR admin2coq: %s: %s' % (type(e).__name__, e)]
    os.makedirs(os.path.dirname(path), exist_ok=True)
    old = open(path).read() if os.path.exists(path) else None
    if old != text:
        tmp = path + '.tmp%d' % os.getpid()
        with open(tmp, 'w') as f:
            f.write(text)
        os.replace(tmp, path)
        state = 'rewritten'
    else:
        state = 'unchanged'
    if not vo_is_fresh(text):
        os.utime(path, None)
        state += ', stale Gen_admin.vo found: recompilation forced'
    return ['admin2coq: admin_connect + instrument of %s -> %s (%s)' % (
        ', '.join(c for _, c in SOURCES), OUT, state)]


if __name__ == '__main__':
    for m in regenerate():
        print(m)
