"""py2coq - fail-closed translator from a small whitelist of Python (ast) to Gallina.

DESIGN.md section 5.  The translation is deliberately dumb and untyped: every Python
expression becomes a term of type `Res pv` over the dynamic runtime
coq/Routing/PyRuntime.v, statements are sequenced with the Res bind, an `if` threads the
local variables it assigns as a tuple (or, when a branch returns, duplicates the rest of
the block into both branches).  No type inference, no simplification, no knowledge of
socketio.  Anything outside the whitelist raises `Unsupported`; `regenerate()` then
reports a message starting with 'ERROR' and leaves NO output file for that target file
(stale outputs and their .vo are removed), so the proofs that depend on it fail closed.

Whitelist
  def f(self, a, b, ...)          plain positional parameters only
  statements   x = e | if/elif/else | return e | pass | docstring
  expressions  local names, None/True/False/int/str constants, self.<attr>,
               e[e], e in e, e not in e, e is None, e is not None, e == e, e != e,
               and / or / not, e if c else e, tuple displays with *starred parts
  class attributes (only the requested ones): list/tuple displays of str constants
"""
import ast
import os

from vt import common
from vt.coqio import cstr

HEADER = '(* GENERATED on every run by harness/translator/py2coq.py from %s -- do not edit *)\n' \
         'From VT Require Import Routing.PyRuntime.\n\n'

# (source file relative to REPO, output relative to coq/, class, class attributes, methods)
TARGETS = [
    ('src/socketio/base_server.py', 'Routing/Gen_base_server.v', 'BaseServer',
     ['reserved_events'], ['_get_event_handler', '_get_namespace_handler']),
    ('src/socketio/base_client.py', 'Routing/Gen_base_client.v', 'BaseClient',
     ['reserved_events'], ['_get_event_handler', '_get_namespace_handler']),
]


class Unsupported(Exception):
    def __init__(self, node, what):
        self.lineno = getattr(node, 'lineno', 0)
        super().__init__('line %s: %s' % (self.lineno, what))


def vname(name):
    """Python local -> Gallina binder.  The prefix keeps locals apart from every
    runtime / stdlib identifier (none of which starts with v_)."""
    return 'v_' + name


class FunctionTranslator:
    def __init__(self, cls_name, fn):
        self.cls = cls_name
        self.fn = fn

    # ---------------- expressions: Python expr -> Gallina term of type Res pv
    def expr(self, e, env):
        if isinstance(e, ast.Name):
            if not isinstance(e.ctx, ast.Load):
                raise Unsupported(e, 'name in store/del context inside an expression')
            if e.id in env:
                return '(Ok %s)' % vname(e.id)
            raise Unsupported(e, 'name %r is not a local variable that is bound on every path' % e.id)
        if isinstance(e, ast.Constant):
            v = e.value
            if v is None:
                return '(Ok PNone)'
            if v is True:
                return '(Ok (PBool true))'
            if v is False:
                return '(Ok (PBool false))'
            if isinstance(v, int):
                return '(Ok (PInt (%d)%%Z))' % v
            if isinstance(v, str):
                return '(Ok (PStr %s))' % cstr(v)
            raise Unsupported(e, 'constant of type %s' % type(v).__name__)
        if isinstance(e, ast.Attribute):
            if isinstance(e.value, ast.Name) and e.value.id == 'self' and isinstance(e.ctx, ast.Load):
                return '(py_getattr %s_attrs (Ok self) %s)' % (self.cls, cstr(e.attr))
            raise Unsupported(e, 'attribute access other than self.<name>')
        if isinstance(e, ast.Subscript):
            if not isinstance(e.ctx, ast.Load):
                raise Unsupported(e, 'subscript in store/del context')
            if isinstance(e.slice, (ast.Slice, ast.Tuple)):
                raise Unsupported(e, 'slice / tuple subscript')
            return '(py_getitem %s %s)' % (self.expr(e.value, env), self.expr(e.slice, env))
        if isinstance(e, ast.Compare):
            if len(e.ops) != 1:
                raise Unsupported(e, 'chained comparison')
            op, a, b = e.ops[0], e.left, e.comparators[0]
            if isinstance(op, ast.In):
                return '(py_in %s %s)' % (self.expr(a, env), self.expr(b, env))
            if isinstance(op, ast.NotIn):
                return '(py_not_in %s %s)' % (self.expr(a, env), self.expr(b, env))
            if isinstance(op, (ast.Is, ast.IsNot)):
                if not (isinstance(b, ast.Constant) and b.value is None):
                    raise Unsupported(e, '`is` with something other than None')
                f = 'py_is_none' if isinstance(op, ast.Is) else 'py_is_not_none'
                return '(%s %s)' % (f, self.expr(a, env))
            if isinstance(op, ast.Eq):
                return '(py_eq_op %s %s)' % (self.expr(a, env), self.expr(b, env))
            if isinstance(op, ast.NotEq):
                return '(py_ne_op %s %s)' % (self.expr(a, env), self.expr(b, env))
            raise Unsupported(e, 'comparison operator %s' % type(op).__name__)
        if isinstance(e, ast.BoolOp):
            f = 'py_and' if isinstance(e.op, ast.And) else 'py_or'
            terms = [self.expr(v, env) for v in e.values]
            out = terms[-1]
            for t in reversed(terms[:-1]):
                out = '(%s %s %s)' % (f, t, out)
            return out
        if isinstance(e, ast.UnaryOp) and isinstance(e.op, ast.Not):
            return '(py_not %s)' % self.expr(e.operand, env)
        if isinstance(e, ast.IfExp):
            return '(c <- py_truthy %s ;; if c then %s else %s)' % (
                self.expr(e.test, env), self.expr(e.body, env), self.expr(e.orelse, env))
        if isinstance(e, ast.Tuple):
            if not isinstance(e.ctx, ast.Load):
                raise Unsupported(e, 'tuple in store context')
            parts = []
            for x in e.elts:
                if isinstance(x, ast.Starred):
                    parts.append('(true, %s)' % self.expr(x.value, env))
                else:
                    parts.append('(false, %s)' % self.expr(x, env))
            return '(py_tuple_star [%s])' % '; '.join(parts)
        raise Unsupported(e, 'expression %s' % type(e).__name__)

    # ---------------- statements
    @staticmethod
    def has_return(stmts):
        for s in stmts:
            for n in ast.walk(s):
                if isinstance(n, ast.Return):
                    return True
        return False

    @staticmethod
    def assigned(stmts):
        out = set()
        for s in stmts:
            for n in ast.walk(s):
                if isinstance(n, ast.Assign):
                    for t in n.targets:
                        if isinstance(t, ast.Name):
                            out.add(t.id)
        return out

    def block(self, stmts, env, k, ind):
        """Translate `stmts` followed by the continuation `k(env) -> term`.
        `env` is the frozenset of locals bound on every path reaching this point."""
        pad = '  ' * ind
        if not stmts:
            return k(env, ind)
        s, rest = stmts[0], stmts[1:]
        if isinstance(s, ast.Expr) and isinstance(s.value, ast.Constant) and isinstance(s.value.value, str):
            return self.block(rest, env, k, ind)        # docstring
        if isinstance(s, ast.Pass):
            return self.block(rest, env, k, ind)
        if isinstance(s, ast.Assign):
            if len(s.targets) != 1 or not isinstance(s.targets[0], ast.Name):
                raise Unsupported(s, 'assignment to something other than one local name')
            name = s.targets[0].id
            if name == 'self':
                raise Unsupported(s, 'assignment to self')
            return '%s%s <- %s ;;\n%s' % (pad, vname(name), self.expr(s.value, env),
                                          self.block(rest, env | {name}, k, ind))
        if isinstance(s, ast.Return):
            if rest:
                raise Unsupported(rest[0], 'statement after return')
            return pad + (self.expr(s.value, env) if s.value is not None else '(Ok PNone)')
        if isinstance(s, ast.If):
            cond = self.expr(s.test, env)
            if self.has_return([s]):
                # a branch returns: the rest of the block is duplicated into both branches
                def cont(env2, ind2):
                    return self.block(rest, env2, k, ind2)
                return ('%sc <- py_truthy %s ;;\n%sif c then (\n%s\n%s) else (\n%s\n%s)' % (
                    pad, cond, pad, self.block(s.body, env, cont, ind + 1), pad,
                    self.block(s.orelse, env, cont, ind + 1), pad))
            # no return inside: thread the locals the branches (re)assign
            live = sorted(v for v in self.assigned([s]) if v in env)
            if len(live) == 0:
                tup, pat = 'tt', '_'
            elif len(live) == 1:
                tup, pat = vname(live[0]), vname(live[0])
            else:
                tup = '(%s)' % ', '.join(vname(v) for v in live)
                pat = "'" + tup

            def join(env2, ind2):
                return '  ' * ind2 + 'Ok ' + tup
            return ('%sc <- py_truthy %s ;;\n%s%s <- (if c then (\n%s\n%s) else (\n%s\n%s)) ;;\n%s' % (
                pad, cond, pad, pat, self.block(s.body, env, join, ind + 1), pad,
                self.block(s.orelse, env, join, ind + 1), pad,
                self.block(rest, env, k, ind)))
        raise Unsupported(s, 'statement %s' % type(s).__name__)

    def translate(self):
        fn = self.fn
        if not isinstance(fn, ast.FunctionDef):
            raise Unsupported(fn, 'not a plain def')
        a = fn.args
        if a.vararg or a.kwarg or a.kwonlyargs or a.defaults or a.kw_defaults or a.posonlyargs:
            raise Unsupported(fn, 'parameters other than plain positional ones')
        if fn.decorator_list:
            raise Unsupported(fn, 'decorated function')
        params = [p.arg for p in a.args]
        if not params or params[0] != 'self':
            raise Unsupported(fn, 'first parameter is not self')
        if len(set(params)) != len(params):
            raise Unsupported(fn, 'duplicate parameter')
        env = frozenset(params[1:])

        def fall_off(env2, ind2):
            return '  ' * ind2 + '(Ok PNone)'
        body = self.block(list(fn.body), env, fall_off, 1)
        binders = ' '.join(['self'] + [vname(p) for p in params[1:]])
        return 'Definition %s_%s (%s : pv) : Res pv :=\n%s.\n' % (self.cls, fn.name, binders, body)


def const_term(node):
    """Class attribute value: list / tuple display of str constants."""
    if isinstance(node, (ast.List, ast.Tuple)):
        items = []
        for x in node.elts:
            if not (isinstance(x, ast.Constant) and isinstance(x.value, str)):
                raise Unsupported(x, 'class attribute element that is not a str constant')
            items.append('PStr %s' % cstr(x.value))
        return '%s [%s]' % ('PList' if isinstance(node, ast.List) else 'PTuple', '; '.join(items))
    raise Unsupported(node, 'class attribute that is not a list/tuple display')


def translate_class(source, cls_name, attrs, methods, origin='<string>'):
    """Gallina text for the requested class attributes and methods of one class."""
    tree = ast.parse(source)
    cls = [n for n in tree.body if isinstance(n, ast.ClassDef) and n.name == cls_name]
    if len(cls) != 1:
        raise Unsupported(tree, 'class %s not found exactly once' % cls_name)
    cls = cls[0]
    out = [HEADER % origin]
    pairs = []
    for attr in attrs:
        found = [n for n in cls.body if isinstance(n, ast.Assign) and len(n.targets) == 1 and
                 isinstance(n.targets[0], ast.Name) and n.targets[0].id == attr]
        if len(found) != 1:
            raise Unsupported(cls, 'class attribute %s.%s not assigned exactly once' % (cls_name, attr))
        out.append('Definition %s_%s : pv := %s.\n' % (cls_name, attr, const_term(found[0].value)))
        pairs.append('(%s, %s_%s)' % (cstr(attr), cls_name, attr))
    out.append('Definition %s_attrs : list (str * pv) := [%s].\n\n' % (cls_name, '; '.join(pairs)))
    for m in methods:
        found = [n for n in cls.body if isinstance(n, (ast.FunctionDef, ast.AsyncFunctionDef)) and n.name == m]
        if len(found) != 1:
            raise Unsupported(cls, 'method %s.%s not defined exactly once' % (cls_name, m))
        try:
            out.append(FunctionTranslator(cls_name, found[0]).translate() + '\n')
        except Unsupported as e:
            raise Unsupported(found[0], '%s.%s: %s' % (cls_name, m, e)) from None
    return ''.join(out)


def remove_output(path):
    base = path[:-2]
    d, b = os.path.split(base)
    for p in (path, base + '.vo', base + '.vos', base + '.vok', base + '.glob',
              os.path.join(d, '.' + b + '.aux')):
        if os.path.exists(p):
            os.remove(p)


def regenerate(targets=None):
    """Regenerate every target from vt.common.REPO's working tree.  Returns messages;
    one starting with 'ERROR' = construct outside the whitelist (broken obligation)."""
    msgs = []
    for src, out, cls, attrs, methods in (targets or TARGETS):
        spath = os.path.join(common.REPO, src)
        opath = os.path.join(common.COQ, out)
        try:
            text = translate_class(open(spath).read(), cls, attrs, methods, origin=src)
        except Unsupported as e:
            remove_output(opath)
            msgs.append('ERROR py2coq %s: outside the translator whitelist: %s' % (src, e))
            continue
        except (OSError, SyntaxError) as e:
            remove_output(opath)
            msgs.append('ERROR py2coq %s: %s: %s' % (src, type(e).__name__, e))
            continue
        os.makedirs(os.path.dirname(opath), exist_ok=True)
        old = open(opath).read() if os.path.exists(opath) else None
        if old != text:
            with open(opath, 'w') as f:
                f.write(text)
        msgs.append('py2coq: %s -> %s (%s%d methods)' % (src, out, 'unchanged, ' if old == text else '', len(methods)))
    return msgs


if __name__ == '__main__':
    for m in regenerate():
        print(m)
