"""fwd2coq - fail-closed translator for C17 (class-based namespace helpers).

On every run it regenerates coq/Forward/Gen_forward.v from the working tree of the
repository under test (vt.common.REPO):

* for every helper (class x method) of Namespace, ClientNamespace, AsyncNamespace,
  AsyncClientNamespace (inheritance resolved through the class bases, e.g. `rooms` lives in
  BaseServerNamespace): its parameter list and its body as DATA of type `Forward.helper`
  (`Return (Call target method positional keywords)`, `Await` recorded);
* for every underlying method of Server / AsyncServer / Client / AsyncClient (inheritance
  resolved, e.g. `rooms` lives in BaseServer): its signature as `Forward.method`.

Deliberately dumb: no knowledge of what the helpers are supposed to do.  Whitelist:

  def / async def without decorators, parameters `self, a, b=<const>, ...` only
  body = [docstring] + exactly one `return [await] self.server.<m>(...)` or
         `return [await] self.client.<m>(...)`
  arguments: plain positional expressions and `kw=expression` (no * / **)
  expression: a helper parameter | a constant (None, bool, int, float, str) |
              self.namespace | e1 or e2 [or ...]

Anything else yields a message starting with 'ERROR' and the helper is emitted with the body
`Unsupported` (for which the Coq checker answers false), so the theorem about that helper
stops compiling and the dynamic part of the check still runs.

Besides the helpers, one `Life.nsclass` per helper class describes everything that decides what
`self.namespace` evaluates to during the life of an object (coq/Forward/Life.v):

* `k_ctor`: the `self.<a> = <e>` statements of `__init__`, `super().__init__(...)` inlined;
* `k_plain`: `namespace` is a plain instance attribute - no class of the MRO binds that name at
  class level (property, descriptor, method, class attribute), defines `__getattr__`,
  `__getattribute__`, `__setattr__`, `__delattr__`, `__slots__`, is decorated or has a metaclass;
  no method of those classes stores into `self.namespace` outside `__init__`; nothing in the whole
  package stores into `<anything but self>.namespace`, calls setattr/delattr/vars or touches
  `__dict__`;
* `k_attach`: the attribute writes of `_set_server` / `_set_client`;
* `k_register`, `k_key`: what `register_namespace` writes to the object and the key it files it under;
* `k_dispatch`: every attribute store (other than to the server/client itself) in the dispatch
  path `_trigger_event`, `_get_event_handler`, `_get_namespace_handler` (server / client side)
  and `trigger_event` (namespace side); a call in those functions outside a small whitelist is
  an ERROR as well (it could write to the object).
Whatever cannot be described becomes an ERROR message plus a description the Coq checker
rejects (`k_plain = false` or a `WUnsupported` write into `namespace`).
"""
import ast
import hashlib
import math
import os
import sys

if __name__ == '__main__':      # allow `python harness/translator/fwd2coq.py`
    sys.path.insert(0, os.path.dirname(os.path.dirname(os.path.abspath(__file__))))
from vt import common, coqio  # noqa: E402

SERVER_METHODS = ['emit', 'send', 'call', 'enter_room', 'leave_room', 'close_room', 'rooms',
                  'get_session', 'save_session', 'session', 'disconnect']
CLIENT_METHODS = ['emit', 'send', 'call', 'disconnect']

# (helper class, its file, attribute holding the registered object, class of that object,
#  its file, methods).  This table IS the property's claim about who delegates to whom.
TABLE = [
    ('Namespace', 'namespace.py', 'server', 'Server', 'server.py', SERVER_METHODS),
    ('ClientNamespace', 'namespace.py', 'client', 'Client', 'client.py', CLIENT_METHODS),
    ('AsyncNamespace', 'async_namespace.py', 'server', 'AsyncServer', 'async_server.py', SERVER_METHODS),
    ('AsyncClientNamespace', 'async_namespace.py', 'client', 'AsyncClient', 'async_client.py', CLIENT_METHODS),
]

OUT = os.path.join('Forward', 'Gen_forward.v')


class Unsupported(Exception):
    pass


def src_dir():
    return os.path.join(common.REPO, 'src', 'socketio')


class Modules:
    def __init__(self):
        self.cache = {}

    def get(self, fname):
        if fname not in self.cache:
            path = os.path.join(src_dir(), fname)
            with open(path) as f:
                self.cache[fname] = ast.parse(f.read(), filename=path)
        return self.cache[fname]

    def imports(self, fname):
        """alias -> file for `from . import mod [as alias]`."""
        out = {}
        for node in self.get(fname).body:
            if isinstance(node, ast.ImportFrom) and (
                    (node.level == 1 and node.module is None) or
                    (node.level == 0 and node.module == 'socketio')):
                for a in node.names:
                    if os.path.exists(os.path.join(src_dir(), a.name + '.py')):
                        out[a.asname or a.name] = a.name + '.py'
        return out

    def find_class(self, fname, cname):
        found = [n for n in self.get(fname).body if isinstance(n, ast.ClassDef) and n.name == cname]
        if len(found) != 1:
            raise Unsupported('class %s: %d definitions in %s' % (cname, len(found), fname))
        if found[0].decorator_list:
            raise Unsupported('class %s is decorated' % cname)
        return found[0]

    def find_method(self, fname, cname, mname, depth=0):
        """(defining class, FunctionDef) following the bases left to right."""
        if depth > 6:
            raise Unsupported('inheritance chain too deep at %s' % cname)
        cls = self.find_class(fname, cname)
        defs = []
        for node in cls.body:
            if isinstance(node, (ast.FunctionDef, ast.AsyncFunctionDef)) and node.name == mname:
                defs.append(node)
            elif isinstance(node, (ast.Assign, ast.AnnAssign, ast.AugAssign)):
                tg = node.targets if isinstance(node, ast.Assign) else [node.target]
                for t in tg:
                    if any(isinstance(n, ast.Name) and n.id == mname for n in ast.walk(t)):
                        raise Unsupported('%s.%s is (re)bound by a class-level assignment' % (cname, mname))
            elif isinstance(node, (ast.FunctionDef, ast.AsyncFunctionDef, ast.Expr, ast.Pass)):
                pass
            elif isinstance(node, ast.ClassDef):
                if node.name == mname:
                    raise Unsupported('%s.%s is a nested class' % (cname, mname))
            else:
                # loops / conditionals / imports at class level could define the name
                for n in ast.walk(node):
                    if isinstance(n, (ast.FunctionDef, ast.AsyncFunctionDef, ast.Name, ast.alias)) and \
                            (getattr(n, 'name', None) == mname or getattr(n, 'id', None) == mname or
                             getattr(n, 'asname', None) == mname):
                        raise Unsupported('%s.%s may be defined by a class-level %s' % (
                            cname, mname, type(node).__name__))
        if len(defs) > 1:
            raise Unsupported('%s.%s defined %d times' % (cname, mname, len(defs)))
        if defs:
            return cname, defs[0]
        if cls.keywords:
            raise Unsupported('class %s has class keywords (metaclass?)' % cname)
        imps = self.imports(fname)
        for b in cls.bases:
            if isinstance(b, ast.Name):
                bf, bc = fname, b.id
            elif isinstance(b, ast.Attribute) and isinstance(b.value, ast.Name) and b.value.id in imps:
                bf, bc = imps[b.value.id], b.attr
            else:
                raise Unsupported('base class of %s not resolvable: %s' % (cname, ast.unparse(b)))
            if bc == 'object':
                continue
            try:
                return self.find_method(bf, bc, mname, depth + 1)
            except LookupError:
                continue
        raise LookupError('%s.%s not found' % (cname, mname))


def const_value(node):
    """ast node -> Python constant accepted as a default / literal."""
    if isinstance(node, ast.UnaryOp) and isinstance(node.op, ast.USub) and \
            isinstance(node.operand, ast.Constant) and type(node.operand.value) in (int, float):
        v = -node.operand.value
    elif isinstance(node, ast.Constant):
        v = node.value
    else:
        raise Unsupported('not a constant: %s' % ast.unparse(node))
    if v is None or type(v) in (bool, int, str):
        return v
    if type(v) is float and math.isfinite(v):
        return v
    raise Unsupported('constant of unsupported type: %r' % (v,))


def signature_of(fn, where):
    """[(name, has_default, default)] without self."""
    a = fn.args
    if fn.decorator_list:
        raise Unsupported('%s is decorated (%s)' % (where, ', '.join(ast.unparse(d) for d in fn.decorator_list)))
    if a.posonlyargs or a.kwonlyargs or a.vararg or a.kwarg or a.kw_defaults:
        raise Unsupported('%s has positional-only / keyword-only / * / ** parameters' % where)
    if not a.args or a.args[0].arg != 'self':
        raise Unsupported('%s: first parameter is not self' % where)
    params = a.args[1:]
    if len(a.defaults) > len(params):
        raise Unsupported('%s: self has a default' % where)
    names = [p.arg for p in params]
    if len(set(names)) != len(names) or 'self' in names:
        raise Unsupported('%s: duplicate parameter names' % where)
    nreq = len(params) - len(a.defaults)
    out = []
    for i, p in enumerate(params):
        if i < nreq:
            out.append((p.arg, False, None))
        else:
            out.append((p.arg, True, const_value(a.defaults[i - nreq])))
    return out


def tr_expr(node, params):
    if isinstance(node, ast.Name) and isinstance(node.ctx, ast.Load):
        if node.id in params:
            return 'EParam %s' % coqio.cstr(node.id)
        raise Unsupported('name %r is not a parameter of the helper' % node.id)
    if isinstance(node, (ast.Constant, ast.UnaryOp)):
        return 'EConst %s' % coqio.pv(const_value(node))
    if isinstance(node, ast.Attribute) and isinstance(node.value, ast.Name) and \
            node.value.id == 'self' and node.attr == 'namespace' and isinstance(node.ctx, ast.Load):
        return 'ESelfNamespace'
    if isinstance(node, ast.BoolOp) and isinstance(node.op, ast.Or) and len(node.values) >= 2:
        parts = [tr_expr(v, params) for v in node.values]
        term = parts[-1]
        for p in reversed(parts[:-1]):
            term = 'EOr (%s) (%s)' % (p, term)
        return term
    raise Unsupported('expression outside the whitelist: %s' % ast.unparse(node))


def tr_body(fn, sig, attr, where):
    """Gallina term of type stmt."""
    params = [n for n, _, _ in sig]
    body = list(fn.body)
    if body and isinstance(body[0], ast.Expr) and isinstance(body[0].value, ast.Constant) and \
            isinstance(body[0].value.value, str):
        body = body[1:]
    if len(body) != 1:
        raise Unsupported('%s: body has %d statements besides the docstring (expected one return)' % (
            where, len(body)))
    st = body[0]
    if not isinstance(st, ast.Return) or st.value is None:
        raise Unsupported('%s: body is not `return <call>`: %s' % (where, ast.unparse(st)[:80]))
    node = st.value
    awaits = 0
    while isinstance(node, ast.Await):
        awaits += 1
        node = node.value
    if awaits and not isinstance(fn, ast.AsyncFunctionDef):
        raise Unsupported('%s: await outside async def' % where)
    if not isinstance(node, ast.Call):
        raise Unsupported('%s: returned expression is not a call: %s' % (where, ast.unparse(node)[:80]))
    f = node.func
    if not (isinstance(f, ast.Attribute) and isinstance(f.value, ast.Attribute) and
            isinstance(f.value.value, ast.Name) and f.value.value.id == 'self' and
            f.value.attr in ('server', 'client')):
        raise Unsupported('%s: callee is not self.server.<m> / self.client.<m>: %s' % (where, ast.unparse(f)))
    if 'self' in params:
        raise Unsupported('%s: parameter named self' % where)
    pos = []
    for a in node.args:
        if isinstance(a, ast.Starred):
            raise Unsupported('%s: *args in the call' % where)
        pos.append(tr_expr(a, params))
    kws = []
    for k in node.keywords:
        if k.arg is None:
            raise Unsupported('%s: **kwargs in the call' % where)
        kws.append('(%s, %s)' % (coqio.cstr(k.arg), tr_expr(k.value, params)))
    term = 'Call %s %s %s %s' % ('TServer' if f.value.attr == 'server' else 'TClient', coqio.cstr(f.attr),
                                 coqio.clist(pos), coqio.clist(kws))
    for _ in range(awaits):
        term = 'Await (%s)' % term
    return 'Return (%s)' % term


def sig_term(sig):
    return coqio.clist(['(%s, %s)' % (coqio.cstr(n), 'Some %s' % coqio.pv(d) if has else 'None')
                        for n, has, d in sig])


# ---------------------------------------------------------------------------------------------
# the life of a namespace object: what decides the value of self.namespace
# ---------------------------------------------------------------------------------------------
HOOKS = ('__getattr__', '__getattribute__', '__setattr__', '__delattr__', '__slots__', '__dict__',
         '__init_subclass__', '__new__', '__class__')
DISPATCH_UNDER = ('_trigger_event', '_get_event_handler', '_get_namespace_handler')
DISPATCH_HELPER = ('trigger_event',)


def mro_classes(mods, fname, cname, depth=0, seen=None):
    """[(file, ClassDef)] of the class and all its bases (every base must be resolvable)."""
    if depth > 6:
        raise Unsupported('inheritance chain too deep at %s' % cname)
    seen = [] if seen is None else seen
    cls = mods.find_class(fname, cname)
    if cls.keywords:
        raise Unsupported('class %s has class keywords (metaclass?)' % cname)
    if (fname, cname) not in [(f, c.name) for f, c in seen]:
        seen.append((fname, cls))
    imps = mods.imports(fname)
    for b in cls.bases:
        if isinstance(b, ast.Name):
            bf, bc = fname, b.id
        elif isinstance(b, ast.Attribute) and isinstance(b.value, ast.Name) and b.value.id in imps:
            bf, bc = imps[b.value.id], b.attr
        else:
            raise Unsupported('base class of %s not resolvable: %s' % (cname, ast.unparse(b)))
        if bc == 'object':
            continue
        mro_classes(mods, bf, bc, depth + 1, seen)
    return seen


def is_self_attr(node, attr=None):
    return isinstance(node, ast.Attribute) and isinstance(node.value, ast.Name) and \
        node.value.id == 'self' and (attr is None or node.attr == attr)


def plain_namespace_attr(mods, hfile, hcls):
    """Reasons (list of str) why `namespace` is NOT a plain instance attribute of hcls; [] = plain."""
    why = []
    for fname, cls in mro_classes(mods, hfile, hcls):
        for node in cls.body:
            if isinstance(node, (ast.FunctionDef, ast.AsyncFunctionDef)):
                if node.name == 'namespace':
                    why.append('class %s defines `namespace` at class level (%s%s)' % (
                        cls.name, 'def', ''.join(' @' + ast.unparse(d) for d in node.decorator_list)))
                if node.name in HOOKS:
                    why.append('class %s defines %s' % (cls.name, node.name))
                for n in ast.walk(node):
                    if isinstance(n, ast.Attribute) and n.attr == 'namespace' and \
                            isinstance(n.ctx, (ast.Store, ast.Del)) and \
                            not (node.name == '__init__' and is_self_attr(n)):
                        why.append('%s.%s stores into `%s`' % (cls.name, node.name, ast.unparse(n)))
            elif isinstance(node, ast.Expr) and isinstance(node.value, ast.Constant):
                pass
            elif isinstance(node, ast.Pass):
                pass
            else:
                names = set()
                for n in ast.walk(node):
                    for a in ('id', 'name', 'asname', 'attr', 'arg'):
                        v = getattr(n, a, None)
                        if isinstance(v, str):
                            names.add(v)
                if isinstance(node, (ast.Assign, ast.AnnAssign, ast.AugAssign)) and \
                        'namespace' not in names and not names & set(HOOKS):
                    continue        # a class attribute with another name
                why.append('class %s: class-level %s may bind `namespace` or an attribute hook: %s' % (
                    cls.name, type(node).__name__, ast.unparse(node)[:60]))
    # the whole package: stores into <x>.namespace from outside, reflective attribute writes
    for f in sorted(os.listdir(src_dir())):
        if not f.endswith('.py'):
            continue
        try:
            tree = mods.get(f)
        except SyntaxError as e:
            why.append('%s does not parse: %s' % (f, e))
            continue
        for n in ast.walk(tree):
            if isinstance(n, ast.Attribute) and n.attr == 'namespace' and \
                    isinstance(n.ctx, (ast.Store, ast.Del)) and not is_self_attr(n):
                why.append('%s:%d stores into `%s`' % (f, n.lineno, ast.unparse(n)))
            elif isinstance(n, ast.Call) and isinstance(n.func, ast.Name) and \
                    n.func.id in ('setattr', 'delattr', 'vars'):
                a = n.args[1] if len(n.args) > 1 else None
                if n.func.id == 'vars' or not (isinstance(a, ast.Constant) and isinstance(a.value, str) and
                                               a.value != 'namespace' and not a.value.startswith('__')):
                    why.append('%s:%d reflective attribute write `%s`' % (f, n.lineno, ast.unparse(n)[:60]))
            elif isinstance(n, ast.Attribute) and n.attr in ('__dict__', '__setattr__', '__delattr__'):
                why.append('%s:%d uses %s' % (f, n.lineno, n.attr))
    return why


def wexpr_term(value, ns_param):
    """Gallina wexpr of the right-hand side of an attribute store outside the helpers."""
    if value is None:
        return 'WUnsupported'
    if isinstance(value, ast.Name) and ns_param and value.id == ns_param:
        return 'WEventNs'
    try:
        return 'WConst %s' % coqio.pv(const_value(value))
    except Unsupported:
        return 'WUnsupported'


def attr_stores(fn):
    """[(Attribute node with Store/Del context, assigned value or None)] anywhere in fn."""
    out, done = [], set()
    for n in ast.walk(fn):
        if isinstance(n, ast.Assign):
            for t in n.targets:
                if isinstance(t, ast.Attribute):
                    out.append((t, n.value))
                    done.add(id(t))
    for n in ast.walk(fn):
        if isinstance(n, ast.Attribute) and isinstance(n.ctx, (ast.Store, ast.Del)) and id(n) not in done:
            out.append((n, None))
    return out


def arg_names(fn):
    a = fn.args
    return [x.arg for x in a.posonlyargs + a.args + a.kwonlyargs] + \
        ([a.vararg.arg] if a.vararg else []) + ([a.kwarg.arg] if a.kwarg else [])


def rebinds(fn, name):
    return any(isinstance(n, ast.Name) and n.id == name and isinstance(n.ctx, (ast.Store, ast.Del))
               for n in ast.walk(fn))


def call_whitelisted(call):
    f = call.func
    if isinstance(f, ast.Name):
        return f.id in ('handler', 'hasattr', 'getattr')
    if isinstance(f, ast.Attribute) and isinstance(f.value, ast.Name):
        return (f.value.id, f.attr) in (('self', '_get_event_handler'), ('self', '_get_namespace_handler'),
                                        ('handler', 'trigger_event'), ('asyncio', 'iscoroutinefunction'))
    if isinstance(f, ast.Call) and isinstance(f.func, ast.Name) and f.func.id == 'getattr':
        return True
    return False


def scan_writes(fn, where, self_is_object, ns_param, msgs, check_calls):
    """Attribute stores of fn that may hit the namespace object, as [(attr, wexpr term)]."""
    out = []
    if ns_param and (ns_param not in arg_names(fn) or rebinds(fn, ns_param)):
        ns_param = None
    for node, value in attr_stores(fn):
        if is_self_attr(node) and not self_is_object:
            continue        # the server / client writes one of its own attributes
        w = wexpr_term(value, ns_param)
        base_ok = isinstance(node.value, ast.Name)
        if not base_ok:
            msgs.append('ERROR fwd2coq: %s: attribute store with a computed target `%s`' % (
                where, ast.unparse(node)))
            out.append(('namespace', 'WUnsupported'))
        out.append((node.attr, w))
        if w == 'WUnsupported':
            msgs.append('ERROR fwd2coq: %s: value stored into `%s` is outside the whitelist' % (
                where, ast.unparse(node)))
    if check_calls:
        for n in ast.walk(fn):
            if isinstance(n, ast.Call) and not call_whitelisted(n):
                msgs.append('ERROR fwd2coq: %s: call `%s` is outside the dispatch-path whitelist (it could '
                            'write to the namespace object)' % (where, ast.unparse(n)[:70]))
                out.append(('namespace', 'WUnsupported'))
    return out


def tr_ctor(mods, fname, cname, msgs, depth=0):
    """(signature, [(attr, expr term)]) of cname.__init__ with super().__init__ inlined."""
    owner, fn = mods.find_method(fname, cname, '__init__')
    ofile = [f for f, c in mro_classes(mods, fname, cname) if c.name == owner][0]
    where = '%s.__init__' % owner
    if isinstance(fn, ast.AsyncFunctionDef):
        raise Unsupported('%s is async' % where)
    sig = signature_of(fn, where)
    params = [n for n, _, _ in sig]
    body = list(fn.body)
    if body and isinstance(body[0], ast.Expr) and isinstance(body[0].value, ast.Constant) and \
            isinstance(body[0].value.value, str):
        body = body[1:]
    writes = []
    for st in body:
        if isinstance(st, ast.Assign) and len(st.targets) == 1 and is_self_attr(st.targets[0]):
            writes.append((st.targets[0].attr, tr_expr(st.value, params)))
            continue
        c = st.value if isinstance(st, ast.Expr) else None
        if isinstance(c, ast.Call) and isinstance(c.func, ast.Attribute) and c.func.attr == '__init__' and \
                isinstance(c.func.value, ast.Call) and isinstance(c.func.value.func, ast.Name) and \
                c.func.value.func.id == 'super' and not c.func.value.args and not c.func.value.keywords:
            if depth > 4:
                raise Unsupported('%s: constructor chain too deep' % where)
            cls = mods.find_class(ofile, owner)
            if len(cls.bases) != 1:
                raise Unsupported('%s: super() with %d bases' % (where, len(cls.bases)))
            b = cls.bases[0]
            imps = mods.imports(ofile)
            if isinstance(b, ast.Name):
                bf, bc = ofile, b.id
            elif isinstance(b, ast.Attribute) and isinstance(b.value, ast.Name) and b.value.id in imps:
                bf, bc = imps[b.value.id], b.attr
            else:
                raise Unsupported('%s: base not resolvable' % where)
            psig, pwrites = tr_ctor(mods, bf, bc, msgs, depth + 1)
            pnames = [n for n, _, _ in psig]
            given = {}
            for i, a in enumerate(c.args):
                if isinstance(a, ast.Starred) or i >= len(pnames):
                    raise Unsupported('%s: super().__init__ arguments' % where)
                given[pnames[i]] = a
            for kw in c.keywords:
                if kw.arg is None or kw.arg not in pnames or kw.arg in given:
                    raise Unsupported('%s: super().__init__ arguments' % where)
                given[kw.arg] = kw.value
            for pn in pnames:
                a = given.get(pn)
                if not (isinstance(a, ast.Name) and a.id == pn and pn in params):
                    raise Unsupported('%s: super().__init__ must pass every parameter on under its own name '
                                      '(%s)' % (where, pn))
            writes.extend(pwrites)
            continue
        raise Unsupported('%s: statement outside the whitelist: %s' % (where, ast.unparse(st)[:70]))
    return sig, writes


def tr_class(mods, hcls, hfile, attr, ucls, ufile, msgs):
    """Gallina term of type Life.nsclass for one helper class, plus a summary for the harness."""
    where = 'class %s' % hcls
    plain, ctor_sig, ctor, attach, register, dispatch, key = False, [], [], [], [], [], 'KUnsupported'
    try:
        why = plain_namespace_attr(mods, hfile, hcls)
        for w in why:
            msgs.append('ERROR fwd2coq: %s: `namespace` is not a plain instance attribute: %s' % (where, w))
        plain = not why
    except (Unsupported, LookupError, OSError, SyntaxError) as e:
        msgs.append('ERROR fwd2coq: %s: %s' % (where, e))
    try:
        ctor_sig, ctor = tr_ctor(mods, hfile, hcls, msgs)
    except (Unsupported, LookupError, OSError, SyntaxError) as e:
        msgs.append('ERROR fwd2coq: %s constructor: %s' % (where, e))
        ctor_sig, ctor = [], []
    # _set_server / _set_client
    setter = '_set_' + attr
    try:
        _o, fn = mods.find_method(hfile, hcls, setter)
        names = arg_names(fn)
        if len(names) != 2 or names[0] != 'self' or fn.decorator_list:
            raise Unsupported('%s.%s: unexpected signature' % (hcls, setter))
        for node, value in attr_stores(fn):
            if is_self_attr(node) and isinstance(value, ast.Name) and value.id == names[1]:
                attach.append((node.attr, 'WOpaque'))       # self.server = server
                continue
            w = wexpr_term(value, None)
            if w == 'WUnsupported' or not is_self_attr(node):
                msgs.append('ERROR fwd2coq: %s.%s: store `%s` is outside the whitelist' % (
                    hcls, setter, ast.unparse(node)))
                attach.append(('namespace', 'WUnsupported'))
            attach.append((node.attr, w))
        for n in ast.walk(fn):
            if isinstance(n, ast.Call):
                raise Unsupported('%s.%s contains a call' % (hcls, setter))
    except (Unsupported, LookupError, OSError, SyntaxError) as e:
        msgs.append('ERROR fwd2coq: %s: %s' % (where, e))
        attach.append(('namespace', 'WUnsupported'))
    # register_namespace on the server / client class
    try:
        _o, fn = mods.find_method(ufile, ucls, 'register_namespace')
        names = arg_names(fn)
        if len(names) != 2 or names[0] != 'self' or fn.decorator_list:
            raise Unsupported('%s.register_namespace: unexpected signature' % ucls)
        hp = names[1]
        if rebinds(fn, hp):
            raise Unsupported('%s.register_namespace rebinds %s' % (ucls, hp))
        register = scan_writes(fn, '%s.register_namespace' % ucls, False, None, msgs, False)
        sets, filed = 0, []
        for n in ast.walk(fn):
            if isinstance(n, ast.Call):
                f = n.func
                if isinstance(f, ast.Attribute) and isinstance(f.value, ast.Name) and f.value.id == hp and \
                        f.attr == setter:
                    sets += 1
                elif isinstance(f, ast.Name) and f.id == 'isinstance':
                    pass
                elif isinstance(f, ast.Name) and f.id == 'ValueError':
                    pass
                elif isinstance(f, ast.Attribute) and f.attr == 'is_asyncio_based' and \
                        isinstance(f.value, ast.Name) and f.value.id in ('self', hp):
                    pass
                else:
                    raise Unsupported('%s.register_namespace: call `%s` outside the whitelist' % (
                        ucls, ast.unparse(n)[:60]))
            if isinstance(n, ast.Subscript) and isinstance(n.ctx, (ast.Store, ast.Del)):
                filed.append(n)
        if sets != 1:
            raise Unsupported('%s.register_namespace calls %s.%s %d times' % (ucls, hp, setter, sets))
        ok_key = False
        if len(filed) == 1 and is_self_attr(filed[0].value, 'namespace_handlers'):
            sl = filed[0].slice
            assigns = [n for n in ast.walk(fn) if isinstance(n, ast.Assign) and filed[0] in n.targets]
            if isinstance(sl, ast.Attribute) and isinstance(sl.value, ast.Name) and sl.value.id == hp and \
                    sl.attr == 'namespace' and len(assigns) == 1 and len(assigns[0].targets) == 1 and \
                    isinstance(assigns[0].value, ast.Name) and assigns[0].value.id == hp:
                ok_key = True
        if not ok_key:
            raise Unsupported('%s.register_namespace does not file the object as '
                              'self.namespace_handlers[%s.namespace] = %s' % (ucls, hp, hp))
        key = 'KSelfNamespace'
    except (Unsupported, LookupError, OSError, SyntaxError) as e:
        msgs.append('ERROR fwd2coq: %s: %s' % (where, e))
        key = 'KUnsupported'
    # the dispatch path
    for cfile, cname, fnames, self_is_object in ((ufile, ucls, DISPATCH_UNDER, False),
                                                 (hfile, hcls, DISPATCH_HELPER, True)):
        for fname_ in fnames:
            try:
                _o, fn = mods.find_method(cfile, cname, fname_)
                if fn.decorator_list:
                    raise Unsupported('%s.%s is decorated' % (cname, fname_))
                dispatch.extend(scan_writes(fn, '%s.%s' % (cname, fname_), self_is_object, 'namespace',
                                            msgs, True))
            except (Unsupported, LookupError, OSError, SyntaxError) as e:
                msgs.append('ERROR fwd2coq: %s: dispatch path: %s' % (where, e))
                dispatch.append(('namespace', 'WUnsupported'))

    def wl(ws):
        return coqio.clist(['(%s, %s)' % (coqio.cstr(a), w) for a, w in ws])
    term = ('mkNsClass %s\n    %s\n    %s\n    %s %s %s %s\n    %s' % (
        coqio.cstr(hcls), sig_term(ctor_sig),
        coqio.clist(['(%s, %s)' % (coqio.cstr(a), e) for a, e in ctor]),
        coqio.cbool(plain), wl(attach), wl(register), key, wl(dispatch)))
    info = {'helper_class': hcls, 'k': 'k_' + hcls, 'pairs': 'pairs_' + hcls, 'ctor_sig': ctor_sig,
            'plain': plain, 'attach': attach, 'register': register, 'key': key, 'dispatch': dispatch,
            'ctor': ctor}
    return term, info


def class_descriptions():
    """What translate() says about the four classes (for the harness)."""
    mods, msgs, out = Modules(), [], []
    for hcls, hfile, attr, ucls, ufile, _methods in TABLE:
        out.append(tr_class(mods, hcls, hfile, attr, ucls, ufile, msgs)[1])
    return out


def translate():
    """-> (text of Gen_forward.v, messages, description for the harness)."""
    mods = Modules()
    msgs = []
    defs = []
    pairs = []
    desc = []
    files = set()
    for hcls, hfile, attr, ucls, ufile, methods in TABLE:
        for m in methods:
            hname = 'h_%s_%s' % (hcls, m)
            uname = 'm_%s_%s' % (ucls, m)
            # ---- underlying method ----
            try:
                uowner, ufn = mods.find_method(ufile, ucls, m)
                usig = signature_of(ufn, '%s.%s' % (ucls, m))
                uasync = isinstance(ufn, ast.AsyncFunctionDef)
            except (Unsupported, LookupError, OSError, SyntaxError) as e:
                msgs.append('ERROR fwd2coq: underlying %s.%s: %s' % (ucls, m, e))
                uowner, usig, uasync = ucls, [], False
            defs.append('Definition %s : method :=\n  mkMethod %s %s %s %s %s\n    %s.' % (
                uname, coqio.cstr(ucls), coqio.cstr(uowner), 'TServer' if attr == 'server' else 'TClient',
                coqio.cstr(m), coqio.cbool(uasync), sig_term(usig)))
            # ---- helper ----
            howner, hsig, hasync, body = hcls, [], False, 'Unsupported'
            try:
                howner, hfn = mods.find_method(hfile, hcls, m)
                hasync = isinstance(hfn, ast.AsyncFunctionDef)
                hsig = signature_of(hfn, '%s.%s' % (hcls, m))
                body = tr_body(hfn, hsig, attr, '%s.%s' % (hcls, m))
            except (Unsupported, LookupError, OSError, SyntaxError) as e:
                msgs.append('ERROR fwd2coq: helper %s.%s: %s' % (hcls, m, e))
                body = 'Unsupported'
            defs.append('Definition %s : helper :=\n  mkHelper %s %s %s %s\n    %s\n    (%s).' % (
                hname, coqio.cstr(hcls), coqio.cstr(howner), coqio.cstr(m), coqio.cbool(hasync),
                sig_term(hsig), body))
            pairs.append('(%s, %s)' % (hname, uname))
            desc.append({'helper_class': hcls, 'method': m, 'attr': attr, 'under_class': ucls,
                         'h': hname, 'u': uname, 'helper_owner': howner, 'under_owner': uowner,
                         'hsig': hsig, 'usig': usig, 'h_async': hasync, 'u_async': uasync,
                         'translated': body != 'Unsupported'})
    kdefs = []
    for hcls, hfile, attr, ucls, ufile, methods in TABLE:
        term, _info = tr_class(mods, hcls, hfile, attr, ucls, ufile, msgs)
        kdefs.append('Definition k_%s : nsclass :=\n  %s.' % (hcls, term))
        kdefs.append('Definition pairs_%s : list (helper * method) :=\n  [ %s ].' % (
            hcls, '\n  ; '.join('(h_%s_%s, m_%s_%s)' % (hcls, m, ucls, m) for m in methods)))
    main = set(x for row in TABLE for x in (row[1], row[4])) | {'base_namespace.py', 'base_server.py',
                                                                'base_client.py'}
    files = sorted(os.path.join('src', 'socketio', f) for f in mods.cache if f in main)
    text = ('(* GENERATED by harness/translator/fwd2coq.py - do not edit, not under version control.\n'
            '   Source: %s (and every module of src/socketio, scanned for stores into `.namespace`) *)\n'
            'From VT Require Import Base.PyVal Forward.Forward Forward.Life.\n\n' % ', '.join(files))
    text += '\n'.join(defs) + '\n\n'
    text += 'Definition all_pairs : list (helper * method) :=\n  [ %s ].\n\n' % '\n  ; '.join(pairs)
    text += '\n'.join(kdefs) + '\n'
    text += 'Definition all_classes : list (nsclass * list (helper * method)) :=\n  [ %s ].\n' % '\n  ; '.join(
        '(k_%s, pairs_%s)' % (row[0], row[0]) for row in TABLE)
    # the digest of the text is part of an identifier, so that a compiled Gen_forward.vo can be
    # matched against the text it was compiled from (see vo_is_fresh)
    text += 'Definition %s : unit := tt.\n' % digest_ident(text)
    return text, msgs, desc


def digest_ident(text):
    return 'gen_digest_' + hashlib.sha1(text.encode()).hexdigest()[:16]


def vo_is_fresh(text=None):
    """True when coq/Forward/Gen_forward.vo is absent or was compiled from the current text of
    Gen_forward.v.  (Another process regenerating from a different VERIF_REPO while coqc runs can
    leave a .vo that is newer than the .v but compiled from other text; make cannot see that.)"""
    path = os.path.join(common.COQ, OUT)
    vo = path + 'o'
    if not os.path.exists(vo):
        return True
    if text is None:
        text = open(path).read()
    lines = [ln for ln in text.split('\n') if ln.startswith('Definition gen_digest_')]
    if not lines:
        return False
    ident = lines[-1].split()[1]
    with open(vo, 'rb') as f:
        return ident.encode() in f.read()


def regenerate():
    try:
        text, msgs, desc = translate()
    except Exception as e:      # fail closed
        return ['ERROR fwd2coq: %s: %s' % (type(e).__name__, e)]
    path = os.path.join(common.COQ, OUT)
    os.makedirs(os.path.dirname(path), exist_ok=True)
    old = open(path).read() if os.path.exists(path) else None
    if old != text:
        tmp = path + '.tmp%d' % os.getpid()
        with open(tmp, 'w') as f:
            f.write(text)
        os.replace(tmp, path)
        state = 'rewritten'
    else:
        state = 'unchanged'
    if not vo_is_fresh(text):
        os.utime(path, None)        # force make to recompile the stale .vo
        state += ', stale Gen_forward.vo found: recompilation forced'
    msgs.append('fwd2coq: %d helpers + %d method signatures from %s -> %s (%s)' % (
        len(desc), len(desc), src_dir(), OUT, state))
    return msgs


if __name__ == '__main__':
    for m in regenerate():
        print(m)
