"""fwd2coq - fail-closed translator for C17 (class-based namespace helpers).

On every run it regenerates coq/Forward/Gen_forward.v from the working tree of the
repository under test (vt.common.REPO):

* for every helper (class x method) of Namespace, ClientNamespace, AsyncNamespace,
  AsyncClientNamespace (inheritance resolved through the class bases, e.g. `rooms` lives in
  BaseServerNamespace): its parameter list and its body as DATA of type `Forward.helper`
  (`Return (Call target method positional keywords)`, `Await` recorded);
* for every underlying method of Server / AsyncServer / Client / AsyncClient (inheritance
  resolved, e.g. `rooms` lives in BaseServer): its signature as `Forward.method`.

Deliberately dumb: no knowledge of what the helpers are supposed to do.  Whitelist:

  def / async def without decorators, parameters `self, a, b=<const>, ...` only
  body = [docstring] + exactly one `return [await] self.server.<m>(...)` or
         `return [await] self.client.<m>(...)`
  arguments: plain positional expressions and `kw=expression` (no * / **)
  expression: a helper parameter | a constant (None, bool, int, float, str) |
              self.namespace | e1 or e2 [or ...]

Anything else yields a message starting with 'ERROR' and the helper is emitted with the body
`Unsupported` (for which the Coq checker answers false), so the theorem about that helper
stops compiling and the dynamic part of the check still runs.
"""
import ast
import hashlib
import math
import os
import sys

if __name__ == '__main__':      # allow `python harness/translator/fwd2coq.py`
    sys.path.insert(0, os.path.dirname(os.path.dirname(os.path.abspath(__file__))))
from vt import common, coqio  # noqa: E402

SERVER_METHODS = ['emit', 'send', 'call', 'enter_room', 'leave_room', 'close_room', 'rooms',
                  'get_session', 'save_session', 'session', 'disconnect']
CLIENT_METHODS = ['emit', 'send', 'call', 'disconnect']

# (helper class, its file, attribute holding the registered object, class of that object,
#  its file, methods).  This table IS the property's claim about who delegates to whom.
TABLE = [
    ('Namespace', 'namespace.py', 'server', 'Server', 'server.py', SERVER_METHODS),
    ('ClientNamespace', 'namespace.py', 'client', 'Client', 'client.py', CLIENT_METHODS),
    ('AsyncNamespace', 'async_namespace.py', 'server', 'AsyncServer', 'async_server.py', SERVER_METHODS),
    ('AsyncClientNamespace', 'async_namespace.py', 'client', 'AsyncClient', 'async_client.py', CLIENT_METHODS),
]

OUT = os.path.join('Forward', 'Gen_forward.v')


class Unsupported(Exception):
    pass


def src_dir():
    return os.path.join(common.REPO, 'src', 'socketio')


class Modules:
    def __init__(self):
        self.cache = {}

    def get(self, fname):
        if fname not in self.cache:
            path = os.path.join(src_dir(), fname)
            with open(path) as f:
                self.cache[fname] = ast.parse(f.read(), filename=path)
        return self.cache[fname]

    def imports(self, fname):
        """alias -> file for `from . import mod [as alias]`."""
        out = {}
        for node in self.get(fname).body:
            if isinstance(node, ast.ImportFrom) and (
                    (node.level == 1 and node.module is None) or
                    (node.level == 0 and node.module == 'socketio')):
                for a in node.names:
                    if os.path.exists(os.path.join(src_dir(), a.name + '.py')):
                        out[a.asname or a.name] = a.name + '.py'
        return out

    def find_class(self, fname, cname):
        found = [n for n in self.get(fname).body if isinstance(n, ast.ClassDef) and n.name == cname]
        if len(found) != 1:
            raise Unsupported('class %s: %d definitions in %s' % (cname, len(found), fname))
        if found[0].decorator_list:
            raise Unsupported('class %s is decorated' % cname)
        return found[0]

    def find_method(self, fname, cname, mname, depth=0):
        """(defining class, FunctionDef) following the bases left to right."""
        if depth > 6:
            raise Unsupported('inheritance chain too deep at %s' % cname)
        cls = self.find_class(fname, cname)
        defs = []
        for node in cls.body:
            if isinstance(node, (ast.FunctionDef, ast.AsyncFunctionDef)) and node.name == mname:
                defs.append(node)
            elif isinstance(node, (ast.Assign, ast.AnnAssign, ast.AugAssign)):
                tg = node.targets if isinstance(node, ast.Assign) else [node.target]
                for t in tg:
                    if any(isinstance(n, ast.Name) and n.id == mname for n in ast.walk(t)):
                        raise Unsupported('%s.%s is (re)bound by a class-level assignment' % (cname, mname))
            elif isinstance(node, (ast.FunctionDef, ast.AsyncFunctionDef, ast.Expr, ast.Pass)):
                pass
            elif isinstance(node, ast.ClassDef):
                if node.name == mname:
                    raise Unsupported('%s.%s is a nested class' % (cname, mname))
            else:
                # loops / conditionals / imports at class level could define the name
                for n in ast.walk(node):
                    if isinstance(n, (ast.FunctionDef, ast.AsyncFunctionDef, ast.Name, ast.alias)) and \
                            (getattr(n, 'name', None) == mname or getattr(n, 'id', None) == mname or
                             getattr(n, 'asname', None) == mname):
                        raise Unsupported('%s.%s may be defined by a class-level %s' % (
                            cname, mname, type(node).__name__))
        if len(defs) > 1:
            raise Unsupported('%s.%s defined %d times' % (cname, mname, len(defs)))
        if defs:
            return cname, defs[0]
        if cls.keywords:
            raise Unsupported('class %s has class keywords (metaclass?)' % cname)
        imps = self.imports(fname)
        for b in cls.bases:
            if isinstance(b, ast.Name):
                bf, bc = fname, b.id
            elif isinstance(b, ast.Attribute) and isinstance(b.value, ast.Name) and b.value.id in imps:
                bf, bc = imps[b.value.id], b.attr
            else:
                raise Unsupported('base class of %s not resolvable: %s' % (cname, ast.unparse(b)))
            if bc == 'object':
                continue
            try:
                return self.find_method(bf, bc, mname, depth + 1)
            except LookupError:
                continue
        raise LookupError('%s.%s not found' % (cname, mname))


def const_value(node):
    """ast node -> Python constant accepted as a default / literal."""
    if isinstance(node, ast.UnaryOp) and isinstance(node.op, ast.USub) and \
            isinstance(node.operand, ast.Constant) and type(node.operand.value) in (int, float):
        v = -node.operand.value
    elif isinstance(node, ast.Constant):
        v = node.value
    else:
        raise Unsupported('not a constant: %s' % ast.unparse(node))
    if v is None or type(v) in (bool, int, str):
        return v
    if type(v) is float and math.isfinite(v):
        return v
    raise Unsupported('constant of unsupported type: %r' % (v,))


def signature_of(fn, where):
    """[(name, has_default, default)] without self."""
    a = fn.args
    if fn.decorator_list:
        raise Unsupported('%s is decorated (%s)' % (where, ', '.join(ast.unparse(d) for d in fn.decorator_list)))
    if a.posonlyargs or a.kwonlyargs or a.vararg or a.kwarg or a.kw_defaults:
        raise Unsupported('%s has positional-only / keyword-only / * / ** parameters' % where)
    if not a.args or a.args[0].arg != 'self':
        raise Unsupported('%s: first parameter is not self' % where)
    params = a.args[1:]
    if len(a.defaults) > len(params):
        raise Unsupported('%s: self has a default' % where)
    names = [p.arg for p in params]
    if len(set(names)) != len(names) or 'self' in names:
        raise Unsupported('%s: duplicate parameter names' % where)
    nreq = len(params) - len(a.defaults)
    out = []
    for i, p in enumerate(params):
        if i < nreq:
            out.append((p.arg, False, None))
        else:
            out.append((p.arg, True, const_value(a.defaults[i - nreq])))
    return out


def tr_expr(node, params):
    if isinstance(node, ast.Name) and isinstance(node.ctx, ast.Load):
        if node.id in params:
            return 'EParam %s' % coqio.cstr(node.id)
        raise Unsupported('name %r is not a parameter of the helper' % node.id)
    if isinstance(node, (ast.Constant, ast.UnaryOp)):
        return 'EConst %s' % coqio.pv(const_value(node))
    if isinstance(node, ast.Attribute) and isinstance(node.value, ast.Name) and \
            node.value.id == 'self' and node.attr == 'namespace' and isinstance(node.ctx, ast.Load):
        return 'ESelfNamespace'
    if isinstance(node, ast.BoolOp) and isinstance(node.op, ast.Or) and len(node.values) >= 2:
        parts = [tr_expr(v, params) for v in node.values]
        term = parts[-1]
        for p in reversed(parts[:-1]):
            term = 'EOr (%s) (%s)' % (p, term)
        return term
    raise Unsupported('expression outside the whitelist: %s' % ast.unparse(node))


def tr_body(fn, sig, attr, where):
    """Gallina term of type stmt."""
    params = [n for n, _, _ in sig]
    body = list(fn.body)
    if body and isinstance(body[0], ast.Expr) and isinstance(body[0].value, ast.Constant) and \
            isinstance(body[0].value.value, str):
        body = body[1:]
    if len(body) != 1:
        raise Unsupported('%s: body has %d statements besides the docstring (expected one return)' % (
            where, len(body)))
    st = body[0]
    if not isinstance(st, ast.Return) or st.value is None:
        raise Unsupported('%s: body is not `return <call>`: %s' % (where, ast.unparse(st)[:80]))
    node = st.value
    awaits = 0
    while isinstance(node, ast.Await):
        awaits += 1
        node = node.value
    if awaits and not isinstance(fn, ast.AsyncFunctionDef):
        raise Unsupported('%s: await outside async def' % where)
    if not isinstance(node, ast.Call):
        raise Unsupported('%s: returned expression is not a call: %s' % (where, ast.unparse(node)[:80]))
    f = node.func
    if not (isinstance(f, ast.Attribute) and isinstance(f.value, ast.Attribute) and
            isinstance(f.value.value, ast.Name) and f.value.value.id == 'self' and
            f.value.attr in ('server', 'client')):
        raise Unsupported('%s: callee is not self.server.<m> / self.client.<m>: %s' % (where, ast.unparse(f)))
    if 'self' in params:
        raise Unsupported('%s: parameter named self' % where)
    pos = []
    for a in node.args:
        if isinstance(a, ast.Starred):
            raise Unsupported('%s: *args in the call' % where)
        pos.append(tr_expr(a, params))
    kws = []
    for k in node.keywords:
        if k.arg is None:
            raise Unsupported('%s: **kwargs in the call' % where)
        kws.append('(%s, %s)' % (coqio.cstr(k.arg), tr_expr(k.value, params)))
    term = 'Call %s %s %s %s' % ('TServer' if f.value.attr == 'server' else 'TClient', coqio.cstr(f.attr),
                                 coqio.clist(pos), coqio.clist(kws))
    for _ in range(awaits):
        term = 'Await (%s)' % term
    return 'Return (%s)' % term


def sig_term(sig):
    return coqio.clist(['(%s, %s)' % (coqio.cstr(n), 'Some %s' % coqio.pv(d) if has else 'None')
                        for n, has, d in sig])


def translate():
    """-> (text of Gen_forward.v, messages, description for the harness)."""
    mods = Modules()
    msgs = []
    defs = []
    pairs = []
    desc = []
    files = set()
    for hcls, hfile, attr, ucls, ufile, methods in TABLE:
        for m in methods:
            hname = 'h_%s_%s' % (hcls, m)
            uname = 'm_%s_%s' % (ucls, m)
            # ---- underlying method ----
            try:
                uowner, ufn = mods.find_method(ufile, ucls, m)
                usig = signature_of(ufn, '%s.%s' % (ucls, m))
                uasync = isinstance(ufn, ast.AsyncFunctionDef)
            except (Unsupported, LookupError, OSError, SyntaxError) as e:
                msgs.append('ERROR fwd2coq: underlying %s.%s: %s' % (ucls, m, e))
                uowner, usig, uasync = ucls, [], False
            defs.append('Definition %s : method :=\n  mkMethod %s %s %s %s %s\n    %s.' % (
                uname, coqio.cstr(ucls), coqio.cstr(uowner), 'TServer' if attr == 'server' else 'TClient',
                coqio.cstr(m), coqio.cbool(uasync), sig_term(usig)))
            # ---- helper ----
            howner, hsig, hasync, body = hcls, [], False, 'Unsupported'
            try:
                howner, hfn = mods.find_method(hfile, hcls, m)
                hasync = isinstance(hfn, ast.AsyncFunctionDef)
                hsig = signature_of(hfn, '%s.%s' % (hcls, m))
                body = tr_body(hfn, hsig, attr, '%s.%s' % (hcls, m))
            except (Unsupported, LookupError, OSError, SyntaxError) as e:
                msgs.append('ERROR fwd2coq: helper %s.%s: %s' % (hcls, m, e))
                body = 'Unsupported'
            defs.append('Definition %s : helper :=\n  mkHelper %s %s %s %s\n    %s\n    (%s).' % (
                hname, coqio.cstr(hcls), coqio.cstr(howner), coqio.cstr(m), coqio.cbool(hasync),
                sig_term(hsig), body))
            pairs.append('(%s, %s)' % (hname, uname))
            desc.append({'helper_class': hcls, 'method': m, 'attr': attr, 'under_class': ucls,
                         'h': hname, 'u': uname, 'helper_owner': howner, 'under_owner': uowner,
                         'hsig': hsig, 'usig': usig, 'h_async': hasync, 'u_async': uasync,
                         'translated': body != 'Unsupported'})
    files = sorted(os.path.join('src', 'socketio', f) for f in mods.cache)
    text = ('(* GENERATED by harness/translator/fwd2coq.py - do not edit, not under version control.\n'
            '   Source: %s *)\n'
            'From VT Require Import Base.PyVal Forward.Forward.\n\n' % ', '.join(files))
    text += '\n'.join(defs) + '\n\n'
    text += 'Definition all_pairs : list (helper * method) :=\n  [ %s ].\n' % '\n  ; '.join(pairs)
    # the digest of the text is part of an identifier, so that a compiled Gen_forward.vo can be
    # matched against the text it was compiled from (see vo_is_fresh)
    text += 'Definition %s : unit := tt.\n' % digest_ident(text)
    return text, msgs, desc


def digest_ident(text):
    return 'gen_digest_' + hashlib.sha1(text.encode()).hexdigest()[:16]


def vo_is_fresh(text=None):
    """True when coq/Forward/Gen_forward.vo is absent or was compiled from the current text of
    Gen_forward.v.  (Another process regenerating from a different VERIF_REPO while coqc runs can
    leave a .vo that is newer than the .v but compiled from other text; make cannot see that.)"""
    path = os.path.join(common.COQ, OUT)
    vo = path + 'o'
    if not os.path.exists(vo):
        return True
    if text is None:
        text = open(path).read()
    lines = [ln for ln in text.split('\n') if ln.startswith('Definition gen_digest_')]
    if not lines:
        return False
    ident = lines[-1].split()[1]
    with open(vo, 'rb') as f:
        return ident.encode() in f.read()


def regenerate():
    try:
        text, msgs, desc = translate()
    except Exception as e:      # fail closed
        return ['ERROR fwd2coq: %s: %s' % (type(e).__name__, e)]
    path = os.path.join(common.COQ, OUT)
    os.makedirs(os.path.dirname(path), exist_ok=True)
    old = open(path).read() if os.path.exists(path) else None
    if old != text:
        tmp = path + '.tmp%d' % os.getpid()
        with open(tmp, 'w') as f:
            f.write(text)
        os.replace(tmp, path)
        state = 'rewritten'
    else:
        state = 'unchanged'
    if not vo_is_fresh(text):
        os.utime(path, None)        # force make to recompile the stale .vo
        state += ', stale Gen_forward.vo found: recompilation forced'
    msgs.append('fwd2coq: %d helpers + %d method signatures from %s -> %s (%s)' % (
        len(desc), len(desc), src_dir(), OUT, state))
    return msgs


if __name__ == '__main__':
    for m in regenerate():
        print(m)
