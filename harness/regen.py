#!/venv/bin/python
"""Regenerate every generated Coq file from the interpreter / /repo's working tree
(Base/Unicode.v and the py2coq outputs) and refresh _CoqProject."""
import os
import sys

sys.path.insert(0, os.path.dirname(os.path.abspath(__file__)))
from vt import coqio, gen_unicode  # noqa: E402


def main():
    gen_unicode.generate()
    try:
        from translator import regen_all
    except ImportError:
        regen_all = None
    if regen_all:
        for msg in regen_all.regenerate():
            print(msg)
    coqio.write_coqproject()


if __name__ == '__main__':
    main()
