"""Histories with OVERLAPPING handler tasks (C11).

The shared driver `drivers/srv.py` runs the servers with `async_handlers=False`: an event handler
has returned before the next operation of the history starts, so nothing ever overlaps.  Here the
REAL servers run with the library default `async_handlers=True`:

* asyncio server: `_handle_event` starts the handler as a task (`start_background_task` =
  `asyncio.ensure_future`).  The operations of the history (client messages, transport close,
  server-side API calls) are submitted without waiting for those handler tasks: each operation is
  either awaited in place (the handler tasks it started are NOT awaited) or started as a task of
  its own, followed by 0..k `await asyncio.sleep(0)` turns of the event loop.  Messages of one
  transport stay in order (each waits for the previous message of that transport to have been
  dispatched, as engine.io's reader does); everything else may interleave at every suspension
  point of the real code.  Handlers are coroutines whose scripted actions emit (with and without
  callback, to their own sid, to rooms), enter / leave rooms, save sessions, or just yield.
* threaded server: `start_background_task` is replaced on the instance by a deferred-run queue;
  the driver runs the queued handler calls later, in an order and at points chosen by the
  schedule (handler-atomic interleavings: a deterministic subset of what threads can do).

At chosen points and at the end of the history the event loop (the deferred queue) is drained until
nothing is runnable and the canonical state dump of `ServerDriver.dump()` is taken, together with the
number of FINISHED handler tasks of departed clients that survive `gc.collect()` (asyncio; weak references
registered by wrapping `start_background_task` on the instance, so the count does not depend on where a
reference is kept).  Only these dumps and counts are observed; they are judged by the Coq checker `c11q_eval` (Check/C11Check.v)."""
import asyncio
import gc
import inspect
import weakref

from drivers import srv
from drivers.srv import aw, _copy

YIELD_MAX = 3


class OverlapDriver(srv.ServerDriver):
    def __init__(self, cfg, mode, while_closing=False):
        super().__init__(cfg, mode, coro=True)
        # ServerDriver passes async_handlers=False to the constructor; the attribute is only read by
        # _handle_event / call() (engine.io is given async_handlers=False by BaseServer in every case),
        # so setting it here is the same as constructing the server with the default.
        default = inspect.signature(type(self.sio).__init__).parameters['async_handlers'].default
        if default is not True:
            raise AssertionError('async_handlers is no longer True by default')
        self.sio.async_handlers = True
        self.while_closing = while_closing
        self.deferred = []
        self.running = 0        # scripted handler bodies in flight (suspended or queued)
        self.overlaps = 0       # operations that began while a handler body was in flight
        self.spawned = []       # asyncio: (weak reference to the handler task, transport it works for)
        if mode == 'sync':
            self.sio.start_background_task = self._defer
        else:
            real = self.sio.start_background_task

            def spawn(target, *args, **kwargs):
                task = real(target, *args, **kwargs)
                # _handle_event passes (server, sid, eio_sid, data, namespace, id)
                eio = args[2] if len(args) > 2 and isinstance(args[2], str) else None
                try:
                    self.spawned.append((weakref.ref(task), eio))
                except TypeError:
                    pass
                return task
            self.sio.start_background_task = spawn

    def _body(self, hid, kind):
        inner = super()._body(hid, kind)
        drv = self

        async def body(ns_fixed, args):
            drv.running += 1
            try:
                return await inner(ns_fixed, args)
            finally:
                drv.running -= 1
        return body

    def retained_tasks(self):
        """Finished handler tasks of departed clients that survive a garbage collection, wherever the reference
        is kept (the task keeps its exception, traceback and frames, hence the sid and the payload)."""
        def alive():
            live = set(e for e, s in self.sio.eio.sockets.items() if not s.closed)
            n = 0
            for ref, eio in self.spawned:
                t = ref()
                if t is not None and t.done() and eio not in live:
                    n += 1
            return n
        if alive():
            gc.collect()
        return alive()

    def dump(self):
        d = super().dump()
        d['retained_tasks'] = self.retained_tasks()
        return d

    # ---- threaded server: deferred handler runs ----
    def _defer(self, target, *args, **kwargs):
        self.deferred.append((target, args, kwargs))
        return None

    def run_deferred(self, pick):
        """Run one queued handler call (index pick modulo queue length) to completion."""
        if not self.deferred:
            return False
        target, args, kwargs = self.deferred.pop(pick % len(self.deferred))
        try:
            target(*args, **kwargs)
        except BaseException:       # a thread that dies with a traceback
            pass
        return True

    # ---- additional scripted actions ----
    async def _action(self, a, ns, sid):
        sio = self.sio
        k = a[0]
        if k == 'emit_self_cb':
            await aw(sio.emit(a[1], _copy(a[2]), to=sid, namespace=ns, callback=self.callback(a[3])))
        elif k == 'emit_room_cb':
            await aw(sio.emit(a[1], _copy(a[2]), to=a[3], skip_sid=(sid if a[4] else None), namespace=ns,
                              callback=self.callback(a[5])))
        elif k == 'yield':
            if self.mode == 'async':
                for _ in range(a[1]):
                    await asyncio.sleep(0)
        elif k == 'disconnect_self':
            await aw(sio.disconnect(sid, namespace=ns))
        else:
            await super()._action(a, ns, sid)

    async def submit(self, o, prev=None):
        """One operation of the history, after the previous message of the same transport."""
        if prev is not None and not prev.done():
            await asyncio.wait([prev])
        if o[0] == 'msg':
            s = self.sockets.get(o[1])
            if s is None or s.closed or (s.closing and not self.while_closing):
                return
        if self.running or self.deferred:
            self.overlaps += 1
        await self.op(o)


async def quiesce(limit=200000):
    """Nothing runnable: no unfinished task on three consecutive turns (the done-callbacks of a task that
    has just finished are run one turn later)."""
    me = asyncio.current_task()
    idle = 0
    for _ in range(limit):
        if not any(t is not me and not t.done() for t in asyncio.all_tasks()):
            idle += 1
            if idle >= 3:
                return
        else:
            idle = 0
        await asyncio.sleep(0)
    raise RuntimeError('event loop did not become quiescent')


def gen_schedule(rng, ops, p_task=0.6, p_drain=0.08):
    """Per operation: (how, yields, drain, picks).
    how: 'await' (in place) or 'task'; yields: event-loop turns granted afterwards (asyncio) /
    number of queued handler calls run afterwards (threaded, indices in picks); drain: take a
    quiescent dump after this operation."""
    sched = []
    style = rng.random()
    for o in ops:
        how = 'task' if (o[0] != 'eio_connect' and rng.random() < p_task) else 'await'
        if style < 0.25:
            ny = 0 if o[0] in ('msg', 'close') else rng.randrange(0, 2)
        else:
            ny = rng.choice([0, 0, 1, 1, 2, YIELD_MAX])
        sched.append((how, ny, rng.random() < p_drain, [rng.randrange(8) for _ in range(ny)]))
    return sched


def run_overlap(cfg, ops, mode, sched, while_closing=False):
    """Returns (list of quiescent dumps, the last one being the final state; number of operations that began
    while a handler body was suspended or queued)."""
    if mode == 'sync':
        return _run_sync(cfg, ops, sched)

    async def main():
        asyncio.get_running_loop().set_exception_handler(lambda loop, ctx: None)
        d = OverlapDriver(cfg, 'async', while_closing)
        dumps, last, keep = [], {}, []
        for o, (how, ny, drain, _) in zip(ops, sched):
            prev = last.get(o[1]) if o[0] == 'msg' else None
            if how == 'task':
                t = asyncio.ensure_future(d.submit(o, prev))
                keep.append(t)
                if o[0] == 'msg':
                    last[o[1]] = t
            else:
                await d.submit(o, prev)
            for _ in range(ny):
                await asyncio.sleep(0)
            if drain:
                await quiesce()
                dumps.append(d.dump())
        await quiesce()
        dumps.append(d.dump())
        return dumps, d.overlaps
    return asyncio.run(main())


def _run_sync(cfg, ops, sched):
    async def main():
        d = OverlapDriver(cfg, 'sync')
        dumps = []
        for o, (how, ny, drain, picks) in zip(ops, sched):
            await d.submit(o)
            for p in picks[:ny]:
                d.run_deferred(p)
            if drain:
                while d.run_deferred(0):
                    pass
                dumps.append(d.dump())
        k = 0
        while d.run_deferred(k):
            k += 3
        dumps.append(d.dump())
        return dumps, d.overlaps
    return asyncio.run(main())


def qcase_term(dumps):
    from vt.coqio import clist
    return '(mkQ %s %s)' % (clist([srv.c_dump(x) for x in dumps]), clist(['%d%%nat' % x.get('retained_tasks', 0) for x in dumps]))
