"""Drives the REAL socketio.Client / socketio.AsyncClient over a fake engine.io client with
scripted application handlers, and records the effect vocabulary of the Coq model
Client/Client.v (Sent / Call / CbCall / Ret / Raised) plus a canonical dump of the client
state after every operation.

Engine.io client contract reproduced by FakeEio / FakeAsyncEio (engineio 4.x, client.py
connect / send / disconnect / _receive_packet / read loops, base_client.py _reset):

* connect(): ValueError unless state == 'disconnected'; engineio ConnectionError when the
  scenario says the transport fails; otherwise state = 'connected', sid = 'E<n>', the
  'connect' handler runs synchronously (an exception in it -> _reset() + ConnectionError).
* send(data): ignored unless state == 'connected'.
* disconnect(abort=, reason=): if state == 'connected': [CLOSE], state = 'disconnecting',
  'disconnect' handler(reason or CLIENT_DISCONNECT), state = 'disconnected'; always _reset().
* transport error (read loop): if state == 'connected': 'disconnect' handler(TRANSPORT_ERROR)
  while the state is STILL 'connected', then _reset().
* CLOSE packet from the server: disconnect(abort=True, reason=SERVER_DISCONNECT).
* MESSAGE packets are handed to the 'message' handler only while connected; exceptions of
  handlers are contained (the disconnect handler gets engine.io's no-argument TypeError retry).
* create_event(): an event whose wait() never blocks: it first lets the packets the scenario
  scheduled "arrive" (the connect() wait window, the ACK a call() waits for) and then
  reports the flag; a clear flag is a timeout (asyncio: asyncio.TimeoutError, which is what
  asyncio.wait_for raises).
"""
import asyncio
import copy
import inspect
import logging

from vt import common  # noqa: F401  (sets sys.path to <repo>/src)
from vt import coqio
from vt.coqio import pv, cstr, copt, cN, clist, cbool

logging.getLogger('engineio.client').setLevel(logging.CRITICAL)
logging.getLogger('socketio.client').setLevel(logging.CRITICAL)

EXN = {'ValueError': ValueError, 'TypeError': TypeError, 'KeyError': KeyError, 'IndexError': IndexError,
       'RuntimeError': RuntimeError, 'OtherError': ZeroDivisionError, 'AttributeError': AttributeError}


async def aw(x):
    if inspect.isawaitable(x):
        return await x
    return x


def _copy(v):
    return copy.deepcopy(v)


# ---------------------------------------------------------------------------------------
# fake engine.io clients
# ---------------------------------------------------------------------------------------
class _FakeBase:
    def __init__(self, drv):
        self.drv = drv
        self.state = 'disconnected'
        self.sid = None
        self.handlers = {}
        self.count = 0
        self.eio_fails = False
        self.scheduled = []         # payloads that arrive while the client waits on an event
        self.delivered = []         # (payload, json table) for every scheduled payload, in order
        self.call_reply = None      # arguments of the ACK the fake server sends for the next EVENT with an id
        self.contained = []

    def on(self, event, handler=None):
        self.handlers[event] = handler

    def transport(self):
        return 'polling'

    def _reset_now(self):
        self.state = 'disconnected'
        self.sid = None

    def _note_send(self, data):
        """Returns True when the piece is queued on the transport."""
        if self.state != 'connected':
            return False
        self.drv.trace.append(('Sent', data))
        if self.call_reply is not None and isinstance(data, str) and data[:1] in '25':
            from socketio import packet
            p = packet.Packet(encoded_packet=data)
            if p.id is not None:
                ack = packet.Packet(packet.ACK, data=list(self.call_reply), namespace=p.namespace, id=p.id)
                self.scheduled.append(ack.encode())
                self.call_reply = None
        return True


class FakeEvent:
    def __init__(self, eio):
        self.eio = eio
        self.flag = False

    def set(self):
        self.flag = True

    def clear(self):
        self.flag = False

    def is_set(self):
        return self.flag

    def wait(self, timeout=None):
        self.eio.flush()
        return self.flag


class FakeAsyncEvent(FakeEvent):
    async def wait(self):
        await self.eio.flush()
        if self.flag:
            return True
        raise asyncio.TimeoutError()


class FakeEio(_FakeBase):
    def create_event(self, *a, **k):
        return FakeEvent(self)

    def _trigger(self, event, *args):
        h = self.handlers.get(event)
        if h is None:
            return
        try:
            try:
                return h(*args)
            except TypeError:
                if event == 'disconnect' and len(args) == 1:
                    return h()
                raise
        except Exception as e:      # engine.io logs and swallows
            self.contained.append((event, coqio.exn_name(e)))
            if event == 'connect':
                raise

    def connect(self, url, headers=None, transports=None, engineio_path='engine.io'):
        import engineio
        if self.state != 'disconnected':
            raise ValueError('Client is not in a disconnected state')
        if self.eio_fails:
            raise engineio.exceptions.ConnectionError('eio-refused')
        self.state = 'connected'
        self.sid = 'E%d' % self.count
        self.count += 1
        try:
            self._trigger('connect')
        except Exception:
            self._reset_now()
            raise engineio.exceptions.ConnectionError('Connect handler failed') from None

    def send(self, data):
        self._note_send(data)

    def disconnect(self, abort=False, reason=None):
        if self.state == 'connected':
            self.state = 'disconnecting'
            self._trigger('disconnect', reason or 'client disconnect')
            self.state = 'disconnected'
        self._reset_now()

    def receive(self, payload):
        """One MESSAGE from the server."""
        if self.state != 'connected':
            return False
        self._trigger('message', payload)
        return True

    def flush(self):
        while self.scheduled:
            payload = self.scheduled.pop(0)
            self.drv.loads_table = []
            self.receive(payload)
            self.delivered.append((payload, self.drv.loads_table))
            self.drv.loads_table = []

    def lose(self):
        if self.state == 'connected':
            self._trigger('disconnect', 'transport error')
            self._reset_now()

    def server_close(self):
        if self.state == 'connected':
            self.disconnect(abort=True, reason='server disconnect')


class FakeAsyncEio(_FakeBase):
    def create_event(self, *a, **k):
        return FakeAsyncEvent(self)

    async def _trigger(self, event, *args):
        h = self.handlers.get(event)
        if h is None:
            return
        try:
            try:
                return await aw(h(*args))
            except TypeError:
                if event == 'disconnect' and len(args) == 1:
                    return await aw(h())
                raise
        except Exception as e:
            self.contained.append((event, coqio.exn_name(e)))
            if event == 'connect':
                raise

    async def connect(self, url, headers=None, transports=None, engineio_path='engine.io'):
        import engineio
        if self.state != 'disconnected':
            raise ValueError('Client is not in a disconnected state')
        if self.eio_fails:
            raise engineio.exceptions.ConnectionError('eio-refused')
        self.state = 'connected'
        self.sid = 'E%d' % self.count
        self.count += 1
        try:
            await self._trigger('connect')
        except Exception:
            self._reset_now()
            raise engineio.exceptions.ConnectionError('Connect handler failed') from None

    async def send(self, data):
        self._note_send(data)

    async def disconnect(self, abort=False, reason=None):
        if self.state == 'connected':
            self.state = 'disconnecting'
            await self._trigger('disconnect', reason or 'client disconnect')
            self.state = 'disconnected'
        self._reset_now()

    async def receive(self, payload):
        if self.state != 'connected':
            return False
        await self._trigger('message', payload)
        return True

    async def flush(self):
        while self.scheduled:
            payload = self.scheduled.pop(0)
            self.drv.loads_table = []
            await self.receive(payload)
            self.delivered.append((payload, self.drv.loads_table))
            self.drv.loads_table = []

    async def lose(self):
        if self.state == 'connected':
            await self._trigger('disconnect', 'transport error')
            self._reset_now()

    async def server_close(self):
        if self.state == 'connected':
            await self.disconnect(abort=True, reason='server disconnect')


# ---------------------------------------------------------------------------------------
# the driver
# ---------------------------------------------------------------------------------------
class ClientDriver:
    def __init__(self, cfg, mode='sync', coro=False):
        import socketio
        self.cfg = cfg
        self.mode = mode
        self.coro = coro and mode == 'async'
        self.trace = []
        self.loads_table = []
        self.nested = None          # frame the next EVENT handler body delivers before it returns (op 'msg_nested')
        self.ack_again = None       # frame the next ack callback re-delivers once from inside itself (op 'ack_nested')
        self.mid_dump = None
        log = logging.getLogger('verif.null')
        log.addHandler(logging.NullHandler())
        log.propagate = False
        log.setLevel(logging.CRITICAL + 1)
        kw = dict(reconnection=False, handle_sigint=False, logger=log, engineio_logger=log)
        if mode == 'sync':
            self.sio = socketio.Client(**kw)
            self.eio = FakeEio(self)
        else:
            self.sio = socketio.AsyncClient(**kw)
            self.eio = FakeAsyncEio(self)
        sio = self.sio
        sio.eio = self.eio
        # what BaseClient.__init__ does with the real engine.io client
        sio.eio.on('connect', sio._handle_eio_connect)
        sio.eio.on('message', sio._handle_eio_message)
        sio.eio.on('disconnect', sio._handle_eio_disconnect)
        # the oracle table for json.loads is recorded per message
        drv = self
        base = sio.packet_class

        class RecJson:
            @staticmethod
            def dumps(*a, **k):
                return base.json.dumps(*a, **k)

            @staticmethod
            def loads(s, *a, **k):
                try:
                    r = base.json.loads(s, *a, **k)
                except BaseException as e:
                    drv.loads_table.append((s, False, coqio.exn_name(e)))
                    raise
                drv.loads_table.append((s, True, r))
                return r
        sio.packet_class = type('RecPacket', (base,), {'json': RecJson})
        self._install_handlers()

    # ---- scripted handlers ----
    RESERVED = ('connect', 'connect_error', 'disconnect', '__disconnect_final')

    def _make(self, hid, method=False, event='ev'):
        b = self.cfg['behav'][hid]
        drv = self
        is_event = event not in self.RESERVED

        def enter(args):
            """Handler entered: record the call; returns the frame to deliver from inside the body, if armed."""
            drv.trace.append(('Call', hid, tuple(_copy(list(args)))))
            if is_event and drv.nested is not None:
                p, drv.nested = drv.nested, None
                return (p,)
            return None

        def leave():
            out = b['outcome']
            if out[0] == 'ret':
                return _copy(out[1])
            raise EXN[out[1]]('scripted')
        n = b.get('arity')
        if n is None:
            params, tup = '*a', 'a'
        else:
            names = ['a%d' % i for i in range(n)]
            params, tup = ', '.join(names), '(' + ''.join(x + ', ' for x in names) + ')'
        if method:
            params = 'self, ' + params if params else 'self'
        env = {'enter': enter, 'leave': leave, 'drv': drv}
        if self.coro:
            src = ('async def h(%s):\n    p = enter(%s)\n    if p is not None:\n        await drv.eio.receive(p[0])\n'
                   '    return leave()\n' % (params, tup))
        elif self.mode == 'async':
            # a plain function on the asyncio client cannot await the nested delivery (never armed: see run_history)
            src = 'def h(%s):\n    enter(%s)\n    return leave()\n' % (params, tup)
        else:
            src = ('def h(%s):\n    p = enter(%s)\n    if p is not None:\n        drv.eio.receive(p[0])\n'
                   '    return leave()\n' % (params, tup))
        exec(src, env)
        return env['h']

    def _install_handlers(self):
        import socketio
        for ns, tbl in self.cfg.get('handlers', {}).items():
            for ev, hid in tbl.items():
                self.sio.on(ev, self._make(hid, event=ev), namespace=ns)
        base = socketio.ClientNamespace if self.mode == 'sync' else socketio.AsyncClientNamespace
        for ns, methods in self.cfg.get('ns_handlers', {}).items():
            attrs = {}
            for ev, hid in methods.items():
                attrs['on_' + ev] = self._make(hid, method=True, event=ev)
            cls = type('ScriptedNS', (base,), attrs)
            self.sio.register_namespace(cls(ns))

    def callback(self, cb):
        """Ack callback.  When the driver has armed `self.ack_again`, the callback re-delivers that frame from inside
        itself, once: this is how a duplicate ACK that is processed while the first invocation is still running
        (engine.io dispatches every message in its own thread / task) is produced deterministically."""
        drv = self

        def redeliver():
            if drv.ack_again is None:
                return None
            p, drv.ack_again = drv.ack_again, None
            drv.mid_dump = drv.dump()
            drv.trace.append(('NestedStart',))
            return drv.eio.receive(p)
        if self.coro:
            async def f(*args):
                drv.trace.append(('CbCall', cb, tuple(_copy(list(args)))))
                r = redeliver()
                if inspect.isawaitable(r):
                    await r
        else:
            def f(*args):
                drv.trace.append(('CbCall', cb, tuple(_copy(list(args)))))
                r = redeliver()
                if inspect.isawaitable(r):      # plain callback on the asyncio client: never armed (see run_history)
                    r.close()
        return f

    def _auth(self, auth, is_callable):
        if not is_callable:
            return _copy(auth)
        if self.coro:
            async def f():
                return _copy(auth)
        else:
            def f():
                return _copy(auth)
        return f

    # ---- one operation ----
    async def op(self, o):
        """Execute one operation; returns (effects, tables, dump).  `tables` is the json oracle
        table of the operation: for 'msg' one table, for 'connect' one per window message, for
        'call' the table of the reply."""
        self.trace = []
        self.loads_table = []
        sio, eio = self.sio, self.eio
        eio.scheduled, eio.delivered, eio.call_reply, eio.eio_fails = [], [], None, False
        k = o[0]
        tables = None
        if k in ('msg', 'msg_nested'):
            self.nested = _copy(o[2]) if k == 'msg_nested' else None
            try:
                await aw(eio.receive(_copy(o[1])))
            except BaseException as e:      # nothing may escape engine.io's containment
                self.trace.append(('Raised', 'OtherError'))
                eio.contained.append(('escaped', coqio.exn_name(e)))
            tables = self.loads_table
            self.nested = None
        elif k == 'ack_nested':
            # the frame is delivered, and delivered AGAIN from inside the ack callback it triggers
            self.ack_again, self.mid_dump = _copy(o[1]), None
            try:
                await aw(eio.receive(_copy(o[1])))
                if self.ack_again is not None:      # no callback ran: the duplicate arrives afterwards
                    self.ack_again = None
                    self.mid_dump = self.dump()
                    self.trace.append(('NestedStart',))
                    await aw(eio.receive(_copy(o[1])))
            except BaseException as e:
                self.trace.append(('Raised', 'OtherError'))
                eio.contained.append(('escaped', coqio.exn_name(e)))
            tables = self.loads_table
        elif k == 'loss':
            await aw(eio.lose())
        elif k == 'server_close':
            await aw(eio.server_close())
        else:
            try:
                if k == 'connect':
                    _, nss, auth, auth_callable, wait, eio_fails, window = o[:7]
                    as_str = len(o) > 7 and o[7] and nss is not None and len(nss) == 1
                    eio.eio_fails = eio_fails
                    eio.scheduled = [_copy(p) for p in window] if wait else []
                    await aw(sio.connect('http://verif', auth=self._auth(auth, auth_callable),
                                         namespaces=(nss[0] if as_str else (None if nss is None else list(nss))),
                                         wait=wait, wait_timeout=1))
                    self.trace.append(('Ret', None))
                elif k == 'emit':
                    _, ev, data, ns, cb = o
                    await aw(sio.emit(ev, _copy(data), namespace=ns,
                                      callback=self.callback(cb) if cb is not None else None))
                elif k == 'send':
                    _, data, ns, cb = o
                    await aw(sio.send(_copy(data), namespace=ns,
                                      callback=self.callback(cb) if cb is not None else None))
                elif k == 'call':
                    _, ev, data, ns, reply = o
                    eio.call_reply = None if reply is None else _copy(reply)
                    r = await aw(sio.call(ev, _copy(data), namespace=ns, timeout=1))
                    self.trace.append(('Ret', _copy(r)))
                elif k == 'disconnect':
                    await aw(sio.disconnect())
                else:
                    raise AssertionError('unknown op %r' % (o,))
            except AssertionError:
                raise
            except BaseException as e:
                self.trace.append(('Raised', coqio.exn_name(e)))
            if k == 'connect':
                tables = [t for _, t in eio.delivered]
                tables += [[] for _ in range(len(o[6]) - len(tables))]
            elif k == 'call':
                tables = eio.delivered[0][1] if eio.delivered else []
        eio.scheduled, eio.call_reply = [], None
        return self.trace, tables, self.dump()

    def dump(self):
        sio = self.sio
        cbs = []
        for ns, d in sio.callbacks.items():
            ctr = d.get(0)
            nxt = 0
            if ctr is not None:
                nxt = next(copy.copy(ctr))
            cbs.append((ns, nxt, [i for i in d if i != 0]))
        return {'connected': bool(sio.connected), 'namespaces': [(n, _copy(v)) for n, v in sio.namespaces.items()],
                'callbacks': cbs, 'binpkt_none': sio._binary_packet is None, 'sid': sio.sid, 'eio': self.eio.state}


def expand_ops(ops):
    """The operation list as the Coq model sees it: ('ack_nested', frame) is the same frame twice.  In the model
    the nested delivery is simply the same message delivered right after: invoking the callback is the LAST thing
    _handle_ack does (client.py: `callback(*data)`, async_client.py: `await callback(*data)` / `callback(*data)`;
    nothing follows it in _handle_ack nor in _handle_eio_message), so the nested run sees exactly the state the
    sequential run sees."""
    out = []
    for o in ops:
        if o[0] == 'ack_nested':
            out += [('msg', o[1]), ('msg', o[1])]
        else:
            out.append(o)
    return out


def run_history(cfg, ops, mode='sync', coro=False):
    """Returns the list of (effects, tables, dump) per operation of expand_ops(ops)."""
    if any(o[0] in ('msg_nested', 'ack_nested') for o in ops):
        coro = True         # nested deliveries have to be awaited inside the handler / callback on the asyncio client

    async def main():
        d = ClientDriver(cfg, mode, coro)
        out = []
        for o in ops:
            effs, tbl, dump = await d.op(o)
            if o[0] == 'ack_nested':
                cut = effs.index(('NestedStart',)) if ('NestedStart',) in effs else len(effs)
                out.append((effs[:cut], tbl, d.mid_dump if d.mid_dump is not None else dump))
                out.append((effs[cut + 1:], tbl, dump))
            else:
                out.append((effs, tbl, dump))
        return out
    return asyncio.run(main())


# ---------------------------------------------------------------------------------------
# Gallina printers for the Client.v vocabulary
# ---------------------------------------------------------------------------------------
def c_outcome(o):
    if o[0] == 'ret':
        return '(Returns %s)' % pv(o[1])
    return '(Raises %s)' % o[1]


def c_cfg(cfg):
    def tbl(t):
        return clist(['(%s, %s)' % (cstr(ns), clist(['(%s, %s)' % (cstr(ev), cN(h)) for ev, h in m.items()]))
                      for ns, m in t.items()])
    behav = clist(['(%s, mkBehav %s %s)' % (cN(h), copt(b.get('arity'), coqio.cnat), c_outcome(b['outcome']))
                   for h, b in cfg['behav'].items()])
    return '(mkCfg %s %s %s)' % (tbl(cfg.get('handlers', {})), tbl(cfg.get('ns_handlers', {})), behav)


def c_table(tbl):
    items = []
    for s, ok, r in tbl or []:
        try:
            items.append('(%s, %s)' % (cstr(s), coqio.cres(ok, pv(r) if ok else r)))
        except TypeError:
            items.append('(%s, (Err OtherError))' % cstr(s))
    return clist(items)


def suffix_table(payload, have=()):
    """json.loads oracle entries for every place where the JSON part of a text frame can start, so that the model can decode the frame even if
    the implementation never looked at it (a frame the implementation swallowed must show up as a difference in
    the effects, not as an oracle miss that the model swallows too)."""
    import json
    if not isinstance(payload, str) or len(payload) > 400:
        return []
    seen = set(x[0] for x in have)
    out = []
    # where the JSON part of a frame can start: after the type digit, the attachment count and '-', the
    # namespace and ',', and the id digits (every combination of those being present or not)
    starts = {1}
    for p in list(starts):
        d = payload.find('-', p)
        if d > p and payload[p:d].isdigit():
            starts.add(d + 1)
    for p in list(starts):
        if payload[p:p + 1] == '/':
            c = payload.find(',', p)
            starts.add(c + 1 if c >= 0 else len(payload))
    for p in list(starts):
        q = p
        while q < len(payload) and payload[q].isdigit():
            q += 1
        starts.add(q)
    for i in sorted(starts):
        suf = payload[i:]
        if not suf or suf in seen:
            continue
        seen.add(suf)
        try:
            out.append((suf, True, json.loads(suf)))
        except RecursionError:
            out.append((suf, False, 'OtherError'))
        except Exception as e:
            out.append((suf, False, coqio.exn_name(e)))
    return out


def c_op(o, tables=None):
    k = o[0]
    ons = lambda n: copt(n, cstr)  # noqa: E731
    if k == 'connect':
        _, nss, auth, auth_callable, wait, eio_fails, window = o[:7]
        tables = tables or [[] for _ in window]
        win = clist(['(%s, %s)' % (pv(p), c_table(t)) for p, t in zip(window, tables)])
        return '(CConnect %s %s %s %s %s %s)' % (copt(nss, lambda l: clist([cstr(n) for n in l])), pv(auth),
                                                  cbool(auth_callable), cbool(wait), cbool(eio_fails), win)
    if k == 'msg':
        return '(CMsg %s %s)' % (pv(o[1]), c_table(list(tables or []) + suffix_table(o[1], tables or [])))
    if k == 'msg_nested':
        t1 = list(tables or []) + suffix_table(o[1], tables or [])
        t2 = list(tables or []) + suffix_table(o[2], tables or [])
        return '(MsgNested %s %s %s %s)' % (pv(o[1]), c_table(t1), pv(o[2]), c_table(t2))
    if k == 'emit':
        _, ev, data, ns, cb = o
        return '(CEmit %s %s %s %s)' % (cstr(ev), pv(data), ons(ns), copt(cb, cN))
    if k == 'send':
        _, data, ns, cb = o
        return '(CSend %s %s %s)' % (pv(data), ons(ns), copt(cb, cN))
    if k == 'call':
        _, ev, data, ns, reply = o
        return '(CCall %s %s %s %s %s)' % (cstr(ev), pv(data), ons(ns),
                                           copt(reply, lambda l: clist([pv(x) for x in l])), c_table(tables))
    if k == 'disconnect':
        return 'CDisconnect'
    if k == 'loss':
        return 'CLoss'
    if k == 'server_close':
        return 'CServerClose'
    raise ValueError(o)


def c_eff(e):
    k = e[0]
    if k == 'Sent':
        return '(Sent %s)' % pv(e[1])
    if k == 'Call':
        return '(Call %s %s)' % (cN(e[1]), clist([pv(x) for x in e[2]]))
    if k == 'CbCall':
        return '(CbCall %s %s)' % (cN(e[1]), clist([pv(x) for x in e[2]]))
    if k == 'Ret':
        return '(Ret %s)' % pv(e[1])
    if k == 'Raised':
        return '(Raised %s)' % e[1]
    raise ValueError(e)


EIO = {'disconnected': 'EDisconnected', 'connected': 'EConnected', 'disconnecting': 'EDisconnecting'}


def c_dump(d):
    nss = clist(['(%s, %s)' % (cstr(n), pv(v)) for n, v in d['namespaces']])
    cbs = clist(['(%s, %s, %s)' % (cstr(ns), cN(nxt), clist([cN(i) for i in ids])) for ns, nxt, ids in d['callbacks']])
    return '(mkDump %s %s %s %s %s %s)' % (cbool(d['connected']), nss, cbs, cbool(d['binpkt_none']), pv(d['sid']),
                                           EIO.get(d['eio'], 'EDisconnecting'))


def ccase_term(cfg, ops, results):
    ops = expand_ops(ops)
    ops_t = [c_op(o, tbl) for o, (_, tbl, _) in zip(ops, results)]
    obs_t = ['(%s, %s)' % (clist([c_eff(e) for e in effs]), c_dump(dump)) for effs, _, dump in results]
    return '(mkCase %s %s %s)' % (c_cfg(cfg), clist(ops_t), clist(obs_t))


def xcase_term(cfg, ops, results):
    """The same history in the extended vocabulary of Client/ClientX.v (plain operations wrapped)."""
    ops = expand_ops(ops)
    ops_t = [c_op(o, tbl) if o[0] == 'msg_nested' else '(Plain %s)' % c_op(o, tbl) for o, (_, tbl, _) in zip(ops, results)]
    obs_t = ['(%s, %s)' % (clist([c_eff(e) for e in effs]), c_dump(dump)) for effs, _, dump in results]
    return '(mkXCase %s %s %s)' % (c_cfg(cfg), clist(ops_t), clist(obs_t))
