"""SimpleClient / AsyncSimpleClient over the REAL socketio.Client / socketio.AsyncClient over a fake
engine.io transport, under the deterministic schedulers of drivers/sched_simple.py (property C19).

The handler-level scenarios of sched_simple.py invoke the four handlers of the simple client through
a fake wrapped Client.  Here nothing of socketio is substituted: the producer script is a history of
what the TRANSPORT / SERVER does, and it is the real Client that turns it into handler invocations
(`_handle_eio_message`, `_handle_eio_disconnect`, `_handle_reconnect`, `connect`, `_trigger_event`,
`_get_event_handler` with `reserved_events`, ...).  The Coq side has the same translation as a
function (`dispatch` of coq/Simple/SimpleTransport.v); the run of the model on `dispatch history`
must produce the label trace observed here.

Transport ops (one producer, namespace '/'):
  ('TEvent', name, [args])   the server emits an event (delivered only while the transport is up)
  ('TBinHead', name, [args]) the header frame of an event with `bytes` arguments arrives (the real encoding
                             of the event by packet.Packet: header + one attachment frame per bytes value;
                             no bytes argument: a plain event)
  ('TBinAtt',)               the next attachment frame of that event arrives.  The frames of one event are
                             sent back to back (another packet of the server between them is skipped, as
                             in the model), but the transport can fail between any two of them: the
                             frames still in flight are lost with the connection
  ('TLose',)                 the transport fails (read loop error): with reconnection the Client starts
                             its reconnect task, without it the connection is over
  ('TAttempt', 'fail')       the back-off wait of the reconnect task elapses; engine.io cannot connect
  ('TAttempt', 'refused')    ... engine.io connects, the server refuses the namespace (CONNECT_ERROR)
  ('TAttempt', 'ok')         ... engine.io connects, the server accepts the namespace
  ('TClose',)                the server closes the engine.io connection (CLOSE packet)
  ('TDisc',)                 the server disconnects the namespace (DISCONNECT packet)
Parameters: reconnection (bool), reconnection_attempts (0 = no limit; the attempt that reaches the
limit makes the Client give up: `__disconnect_final`).

What is instrumented on the real Client (subclass, no hook in /repo):
* `namespaces`: a change of "'/' in client.namespaces" is a scheduling point and is logged as
  ('Ns', b), ('Done',) (the model's NsSet); writes that do not change it (`self.namespaces = {}` at the
  start of every connection attempt) are silent.
* `emit()`: scheduling point + ('Send', ok) before the real emit (which raises BadNamespaceError iff
  not ok), exactly what the fake Client of sched_simple.py does.
* the handlers registered by SimpleClient.connect() are wrapped so that ('Done',) is logged when an
  invocation has returned.
Fake engine.io contract: as drivers/fake_eio_client.py (engineio 4.x client.py / async_client.py).
The reconnect task is stepped by the producer, one back-off wait per ('TAttempt', ..) op: threads -
`_handle_reconnect` runs on a helper thread that acts for the producer's task under the baton
controller (strict hand-over: the producer thread is blocked while the helper runs and vice versa, so
it is one task for the scheduler) and parks in the back-off wait; asyncio - the coroutine is stepped by
hand (`send`), so no event-loop iteration happens inside a producer step.
"""
import logging
import threading

from drivers.sched_simple import NS

_LOG = logging.getLogger('verif.c19.null')
_LOG.addHandler(logging.NullHandler())
_LOG.propagate = False
_LOG.setLevel(logging.CRITICAL + 1)


class Kill(BaseException):
    """Unwinds a reconnect task that is still parked in its back-off wait at the end of a run."""


class Helper:
    """Runs `fn` on a second thread on behalf of the controller task of the thread that created it."""

    def __init__(self, ctl, fn):
        self.ctl = ctl
        self.task = ctl.cur()
        self.fn = fn
        self.h_sem = threading.Semaphore(0)
        self.p_sem = threading.Semaphore(0)
        self.done = False
        self.exc = None
        self.kill = False
        self.thread = threading.Thread(target=self._body, daemon=True, name='c19-reconnect')
        self.thread.start()

    def _body(self):
        ident = threading.get_ident()
        self.h_sem.acquire()
        if self.task is not None:
            self.ctl.by_ident[ident] = self.task
        try:
            if not self.kill:
                self.fn()
        except Kill:
            pass
        except BaseException as e:      # Abort of the controller included: re-raised on the owner
            self.exc = e
        finally:
            self.done = True
            self.ctl.by_ident.pop(ident, None)
            self.p_sem.release()

    def resume(self):
        """Owner thread: let the helper run until it parks or returns."""
        self.h_sem.release()
        self.p_sem.acquire()
        if self.exc is not None:
            e, self.exc = self.exc, None
            raise e

    def park(self):
        """Helper thread: hand back to the owner until the next resume."""
        self.p_sem.release()
        self.h_sem.acquire()
        if self.kill:
            raise Kill()

    def stop(self):
        if not self.done:
            self.kill = True
            self.h_sem.release()
        self.thread.join(5)


class _Backoff:
    def __await__(self):
        yield 'backoff'


# --------------------------------------------------------------------------------------
# fake engine.io
# --------------------------------------------------------------------------------------
class _Ev:
    def __init__(self, eio):
        self.eio = eio
        self.flag = False

    def set(self):
        self.flag = True

    def clear(self):
        self.flag = False

    def is_set(self):
        return self.flag

    def wait(self, timeout=None):
        eio = self.eio
        if self is getattr(eio.client, '_reconnect_abort', None) and not self.flag:
            if not eio.outcomes:
                eio.helper.park()   # until the script has the next attempt
            return False            # the back-off wait elapses
        return self.flag


class _AWait:
    def __init__(self, ev):
        self.event = ev

    def __await__(self):
        if False:
            yield
        if self.event.flag:
            return True
        raise RuntimeError('a fake event is awaited outside wait_for')


class _AEv(_Ev):
    def wait(self):
        return _AWait(self)


class _TaskHandle:
    def join(self, timeout=None):
        pass

    def done(self):
        return False

    def cancel(self):
        pass


class _EioBase:
    def __init__(self, **kwargs):
        self.client = None
        self.handlers = {}
        self.state = 'disconnected'
        self.sid = None
        self.outcomes = []          # scripted outcomes of the next connection attempts
        self.reply = 'accept'
        self.pending = None         # background task that has been started and not yet run
        self.co = None              # asyncio: the reconnect coroutine, parked in its back-off wait
        self.helper = None          # threads: the helper running the reconnect task
        self.n = 0
        self.sent = []
        self.errors = []

    def on(self, event, handler=None):
        self.handlers[event] = handler

    def transport(self):
        return 'websocket'

    def _reset(self):
        self.state = 'disconnected'
        self.sid = None

    def _begin_connect(self):
        import engineio
        if self.state != 'disconnected':
            raise ValueError('Client is not in a disconnected state')
        o = self.outcomes.pop(0) if self.outcomes else 'ok'
        if o == 'fail':
            raise engineio.exceptions.ConnectionError('Connection refused by the server')
        self.reply = 'refuse' if o == 'refused' else 'accept'
        self.n += 1
        self.sid = 'eio%d' % self.n
        self.state = 'connected'

    def _answer(self, data):
        """The server's immediate answer to a packet of the client, if any."""
        from socketio import packet
        pkt = self.client.packet_class(encoded_packet=data)
        if pkt.packet_type == packet.CONNECT:
            if self.reply == 'accept':
                self.n += 1
                return self.client.packet_class(packet.CONNECT, data={'sid': 'sid%d' % self.n},
                                                namespace=pkt.namespace).encode()
            return self.client.packet_class(packet.CONNECT_ERROR, data={'message': 'refused'},
                                            namespace=pkt.namespace).encode()
        if pkt.packet_type == packet.EVENT:
            self.sent.append(pkt.data)
        return None

    def start_background_task(self, target, *args, **kwargs):
        self.pending = (target, args, kwargs)
        return _TaskHandle()


class FakeEio(_EioBase):
    def create_event(self, *a, **k):
        return _Ev(self)

    def sleep(self, seconds=0):
        return None

    def _call(self, event, *args):
        try:
            return self.handlers[event](*args)
        except Exception as e:      # engine.io logs and swallows; here it is a driver error
            self.errors.append('%s handler raised %r' % (event, e))
            if event == 'connect':
                raise

    def connect(self, url, headers=None, transports=None, engineio_path='engine.io'):
        import engineio
        self._begin_connect()
        try:
            self._call('connect')
        except Exception as exc:
            self._reset()
            raise engineio.exceptions.ConnectionError('Connect handler failed: ' + str(exc))

    def send(self, data):
        if self.state != 'connected':
            return
        answer = self._answer(data)
        if answer is not None:
            self._call('message', answer)

    def disconnect(self, abort=False, reason=None):
        if self.state == 'connected':
            self.state = 'disconnecting'
            self._call('disconnect', reason or self.client.reason.CLIENT_DISCONNECT)
            self.state = 'disconnected'
        self._reset()

    # environment
    def deliver(self, data):
        if self.state == 'connected':
            self._call('message', data)

    def transport_error(self):
        if self.state == 'connected':
            self._call('disconnect', self.client.reason.TRANSPORT_ERROR)
            self._reset()

    def server_close(self):
        if self.state == 'connected':
            self.disconnect(abort=True, reason=self.client.reason.SERVER_DISCONNECT)


class FakeAsyncEio(_EioBase):
    def create_event(self, *a, **k):
        return _AEv(self)

    async def sleep(self, seconds=0):
        return None

    async def _call(self, event, *args):
        try:
            return await self.handlers[event](*args)
        except Exception as e:
            self.errors.append('%s handler raised %r' % (event, e))
            if event == 'connect':
                raise

    async def connect(self, url, headers=None, transports=None, engineio_path='engine.io'):
        import engineio
        self._begin_connect()
        try:
            await self._call('connect')
        except Exception as exc:
            self._reset()
            raise engineio.exceptions.ConnectionError('Connect handler failed: ' + str(exc))

    async def send(self, data):
        if self.state != 'connected':
            return
        answer = self._answer(data)
        if answer is not None:
            await self._call('message', answer)

    async def disconnect(self, abort=False, reason=None):
        if self.state == 'connected':
            self.state = 'disconnecting'
            await self._call('disconnect', reason or self.client.reason.CLIENT_DISCONNECT)
            self.state = 'disconnected'
        self._reset()

    async def deliver(self, data):
        if self.state == 'connected':
            await self._call('message', data)

    async def transport_error(self):
        if self.state == 'connected':
            await self._call('disconnect', self.client.reason.TRANSPORT_ERROR)
            self._reset()

    async def server_close(self):
        if self.state == 'connected':
            await self.disconnect(abort=True, reason=self.client.reason.SERVER_DISCONNECT)


class _ClientAsyncioShim:
    """Stands for the name `asyncio` inside socketio.async_client: wait_for on a fake event never
    waits by wall-clock; the back-off wait of the reconnect task yields to whoever steps the
    coroutine and then times out."""

    def __init__(self):
        import asyncio
        self._asyncio = asyncio

    def __getattr__(self, name):
        return getattr(self._asyncio, name)

    async def wait_for(self, aw, timeout):
        if not isinstance(aw, _AWait):
            return await self._asyncio.wait_for(aw, timeout)
        ev = aw.event
        if ev.flag:
            return True
        if ev is getattr(ev.eio.client, '_reconnect_abort', None):
            await _Backoff()
            if ev.flag:
                return True
        raise self._asyncio.TimeoutError()


# --------------------------------------------------------------------------------------
# instrumented `namespaces` of the real Client
# --------------------------------------------------------------------------------------
class NsDict(dict):
    def __init__(self, ctl, items=()):
        super().__init__(items)
        self._ctl = ctl

    def _change(self, now, do):
        before = dict.__contains__(self, NS)
        if before == now:
            do()
            return
        self._ctl.point(('ns', now))
        do()
        self._ctl.log(('Ns', now))
        self._ctl.log(('Done',))

    def __setitem__(self, k, v):
        self._change(True if k == NS else dict.__contains__(self, NS), lambda: dict.__setitem__(self, k, v))

    def __delitem__(self, k):
        self._change(False if k == NS else dict.__contains__(self, NS), lambda: dict.__delitem__(self, k))

    def _unknown(name):
        def f(self, *a, **k):
            self._ctl.point(('ns', name))
            self._ctl.log(('Other', 30))
            return getattr(dict, name)(self, *a, **k)
        f.__name__ = name
        return f

    pop = _unknown('pop')
    popitem = _unknown('popitem')
    clear = _unknown('clear')
    update = _unknown('update')
    setdefault = _unknown('setdefault')
    del _unknown


def namespaces_property(ctl):
    def get(self):
        return self.__dict__.get('_c19_namespaces')

    def set_(self, v):
        old = self.__dict__.get('_c19_namespaces')
        before = old is not None and dict.__contains__(old, NS)
        now = NS in v
        new = NsDict(ctl, v)
        if before == now:
            self.__dict__['_c19_namespaces'] = new
            return
        ctl.point(('ns', now))
        self.__dict__['_c19_namespaces'] = new
        ctl.log(('Ns', now))
        ctl.log(('Done',))
    return property(get, set_)


def _wrap_handler(ctl, h):
    def wrapped(*args):
        r = h(*args)
        ctl.log(('Done',))
        return r
    wrapped.__name__ = getattr(h, '__name__', 'handler')
    return wrapped


def _drive(co):
    """Step a coroutine by hand until it yields or returns.  Returns (finished, yielded value)."""
    try:
        y = co.send(None)
    except StopIteration:
        return True, None
    return False, y


# --------------------------------------------------------------------------------------
# the stack object plugged into sched_simple.run_threads / run_async
# --------------------------------------------------------------------------------------
def make_stack(reconnection=True, attempts=0):
    """Factory of per-run stack objects for sched_simple.run_threads / run_async (`stack=`)."""

    class RealStack:
        real = True

        def __init__(self):
            self.helpers = []
            self.frames = []        # attachment frames of the event whose header has been delivered
            self.saved = None
            self.client = None
            self.problems = []

        def client_kwargs(self, P):
            return dict(reconnection=reconnection, reconnection_attempts=attempts, reconnection_delay=0,
                        reconnection_delay_max=0, randomization_factor=0, handle_sigint=False, logger=_LOG)

        def client_class(self, ctl, is_async):
            import socketio
            if not is_async:
                class RealClient(socketio.Client):
                    namespaces = namespaces_property(ctl)

                    def __init__(self, *a, **k):
                        super().__init__(*a, **k)
                        self.eio.client = self

                    def _engineio_client_class(self):
                        return FakeEio

                    def emit(self, event, data=None, namespace=None, callback=None):
                        ctl.point(('send',))
                        ctl.log(('Send', (namespace or NS) in self.namespaces))
                        return super().emit(event, data, namespace=namespace, callback=callback)

                    @property
                    def delivered(self):
                        return self.eio.sent
                return RealClient
            from socketio import async_client as mod
            self.saved = (mod, mod.asyncio)
            mod.asyncio = _ClientAsyncioShim()

            class RealAsyncClient(socketio.AsyncClient):
                namespaces = namespaces_property(ctl)

                def __init__(self, *a, **k):
                    super().__init__(*a, **k)
                    self.eio.client = self

                def _engineio_client_class(self):
                    return FakeAsyncEio

                async def emit(self, event, data=None, namespace=None, callback=None):
                    ctl.log(('Send', (namespace or NS) in self.namespaces))
                    return await super().emit(event, data, namespace=namespace, callback=callback)

                @property
                def delivered(self):
                    return self.eio.sent
            return RealAsyncClient

        def connected(self, ctl, sc, P):
            """SimpleClient.connect() has returned."""
            client = sc.client
            self.client = client
            hs = client.handlers.get(NS, {})
            for ev, h in list(hs.items()):
                hs[ev] = _wrap_handler(ctl, h)
            if len(P) != 1:
                self.problems.append('a transport scenario has exactly one producer')

        # ---- one transport op ----
        def _payload(self, client, op):
            from socketio import packet
            if op[0] in ('TEvent', 'TBinHead'):
                return client.packet_class(packet.EVENT, data=[op[1]] + list(op[2]), namespace=NS).encode()
            return client.packet_class(packet.DISCONNECT, namespace=NS).encode()

        def run_op(self, ctl, client, i, op):
            eio = client.eio
            k = op[0]
            is_async = client.is_asyncio_based()
            r = None
            if k in ('TEvent', 'TDisc'):
                if not self.frames:
                    r = eio.deliver(self._payload(client, op))
            elif k == 'TBinHead':
                if not self.frames and eio.state == 'connected':
                    enc = self._payload(client, op)
                    if isinstance(enc, list):
                        self.frames = list(enc[1:])
                        enc = enc[0]
                    r = eio.deliver(enc)
            elif k == 'TBinAtt':
                if self.frames and eio.state == 'connected':
                    r = eio.deliver(self.frames.pop(0))
            elif k == 'TLose':
                if eio.state == 'connected':
                    self.frames = []
                r = eio.transport_error()
            elif k == 'TClose':
                if eio.state == 'connected':
                    self.frames = []
                r = eio.server_close()
            elif k == 'TAttempt':
                if is_async:
                    if eio.co is not None:
                        eio.outcomes = [op[1]]
                        done, y = _drive(eio.co)
                        if done:
                            eio.co = None
                        elif y != 'backoff':
                            self.problems.append('the reconnect task suspended on %r' % (y,))
                else:
                    if eio.helper is None and eio.pending is not None:
                        target, a, kw = eio.pending
                        eio.pending = None
                        eio.helper = Helper(ctl, lambda: target(*a, **kw))
                        self.helpers.append(eio.helper)
                    if eio.helper is not None:
                        eio.outcomes = [op[1]]
                        h = eio.helper
                        try:
                            h.resume()
                        finally:
                            if h.done:
                                eio.helper = None
            else:
                raise ValueError(op)
            if is_async:
                if r is not None:
                    done, y = _drive(r)
                    if not done:
                        self.problems.append('transport op %r suspended on %r' % (op, y))
                        r.close()
                if eio.pending is not None:     # the reconnect task starts and parks in its back-off wait
                    target, a, kw = eio.pending
                    eio.pending = None
                    co = target(*a, **kw)
                    done, y = _drive(co)
                    if done or y != 'backoff':
                        self.problems.append('the reconnect task did not reach its back-off wait')
                    else:
                        eio.co = co

        def error(self):
            errs = list(self.problems)
            if self.client is not None:
                errs += self.client.eio.errors
            return '; '.join(errs) if errs else None

        def close(self):
            from socketio import base_client
            for h in self.helpers:
                h.stop()
                if h.thread.is_alive():
                    raise RuntimeError('reconnect helper thread left running')
            if self.client is not None:
                eio = self.client.eio
                if eio.co is not None:
                    eio.co.close()
                    eio.co = None
                while self.client in base_client.reconnecting_clients:
                    base_client.reconnecting_clients.remove(self.client)
            if self.saved is not None:
                mod, orig = self.saved
                mod.asyncio = orig
                self.saved = None

    return RealStack
