"""Fake engine.io clients for the client-side checks (C10).

The REAL socketio.Client / socketio.AsyncClient run on top of these.  They reproduce the part of
the engine.io client contract that socketio relies on (engineio 4.14, engineio/client.py and
async_client.py):

* connect(url, headers=, transports=, engineio_path=): ValueError unless state == 'disconnected';
  raises engineio.exceptions.ConnectionError per the fault script; on success state = 'connected',
  sid is set and the 'connect' handler runs synchronously (an exception in it -> _reset() and
  ConnectionError('Connect handler failed...')).
* send(data): dropped unless state == 'connected'.  A CONNECT packet is answered at once
  (CONNECT with a sid, CONNECT_ERROR, or nothing) through the 'message' handler.
* disconnect(abort=, reason=): if state == 'connected': state = 'disconnecting', 'disconnect'
  handler with `reason or CLIENT_DISCONNECT`, state = 'disconnected'; then _reset().
* transport error (read loop): if state == 'connected': 'disconnect' handler with TRANSPORT_ERROR
  while the state is STILL 'connected'; then _reset().
* CLOSE packet from the server: disconnect(abort=True, reason=SERVER_DISCONNECT).
* start_background_task / create_event / sleep: deterministic replacements.  The reconnect task
  runs in a real thread (resp. asyncio task) that only advances while the controller has handed
  it the baton; the back-off wait is observed through the wait primitive, never by wall-clock.
"""
import asyncio
import threading

import engineio
from engineio import exceptions as eio_exceptions

REASON = engineio.Client.reason


class Kill(BaseException):
    """Unwinds a parked reconnect thread at the end of a scenario."""


class Runaway(BaseException):
    """More fake-API calls during one scenario event than any run of the modelled code makes:
    the code under test is looping.  Not an Exception, so no handler wrapper swallows it."""


LIMIT = 400


def tick(eio):
    eio.ticks += 1
    if eio.ticks > LIMIT:
        if eio.ticks == LIMIT + 1:
            eio.log.append(('runaway',))
        raise Runaway()


class FakeEvent:
    """Instrumented threading.Event created by FakeEio.create_event()."""

    def __init__(self, eio):
        self.eio = eio
        self.flag = False

    def set(self):
        self.flag = True

    def clear(self):
        self.flag = False

    def is_set(self):
        return self.flag

    def wait(self, timeout=None):
        eio = self.eio
        if self is not getattr(eio.client, '_reconnect_abort', None):
            return self.flag            # _connect_event, call(): answers have already arrived
        tick(eio)
        eio.log.append(('wait', timeout))
        if self.flag:
            return True
        task = eio.current_task()
        if task is None:                # waiting outside a background task: nothing can wake it
            return self.flag
        task.blocked = True
        eio.ctl.release()               # baton back to the controller
        task.sem.acquire()              # parked until the controller decides: timeout or set()
        task.blocked = False
        if eio.killed:
            raise Kill()
        return self.flag


class FakeTask:
    def __init__(self, eio, tid, target, args, kwargs):
        self.eio = eio
        self.tid = tid
        self.started = False
        self.done = False
        self.blocked = False
        self.error = None
        self.sem = threading.Semaphore(0)
        self.thread = threading.Thread(target=self._run, args=(target, args, kwargs), daemon=True)

    def _run(self, target, args, kwargs):
        try:
            target(*args, **kwargs)
        except (Kill, Runaway):
            pass
        except BaseException as e:      # noqa: B902 - reported, never swallowed silently
            self.error = e
            self.eio.log.append(('task_error', self.tid, type(e).__name__))
        self.done = True
        if not self.eio.killed:
            self.eio.log.append(('task_end', self.tid))
        self.eio.ctl.release()

    def join(self, timeout=None):
        """shutdown() / wait() join the task: let it run until it returns (or parks again)."""
        if self.done or threading.current_thread() is self.thread:
            return
        self.eio.drive(self)
        if not self.done:
            self.eio.log.append(('join_stuck', self.tid))

    def is_alive(self):
        return not self.done


class FakeEio:
    """Threaded fake of engineio.Client."""

    def __init__(self):
        self.client = None
        self.state = 'disconnected'
        self.sid = None
        self.handlers = {}
        self.log = []
        self.next_outcome = None        # 'err' | list of 'a'/'r'/'s'
        self.replies = []
        self.n_sid = 0
        self.tasks = []
        self.ctl = threading.Semaphore(0)
        self.killed = False
        self.packet_class = None
        self.ticks = 0

    # -- registration, as BaseClient.__init__ does with eio.on --
    def on(self, event, handler=None):
        self.handlers[event] = handler

    def attach(self, client):
        self.client = client
        self.packet_class = client.packet_class
        client.eio = self
        self.on('connect', client._handle_eio_connect)
        self.on('message', client._handle_eio_message)
        self.on('disconnect', client._handle_eio_disconnect)

    def _call(self, event, *args):
        try:
            return self.handlers[event](*args)
        except Exception as e:          # engine.io logs and swallows handler errors
            self.log.append(('handler_error', event, type(e).__name__))
            if event == 'connect':
                raise

    def _reset(self):
        self.state = 'disconnected'
        self.sid = None

    # -- API used by socketio --
    def connect(self, url, headers=None, transports=None, engineio_path='engine.io'):
        tick(self)
        self.log.append(('eio_connect', url, headers, transports, engineio_path))
        if self.state != 'disconnected':
            raise ValueError('Client is not in a disconnected state')
        o = self.next_outcome
        self.next_outcome = None
        if o is None or o == 'err':
            if o is None:
                self.log.append(('unscripted_connect',))
            raise eio_exceptions.ConnectionError('Connection refused by the server')
        self.replies = list(o)
        self.n_sid += 1
        self.sid = 'eio%d' % self.n_sid
        self.state = 'connected'
        try:
            self._call('connect')
        except Exception as exc:
            self._reset()
            raise eio_exceptions.ConnectionError('Connect handler failed: ' + str(exc))

    def send(self, data):
        tick(self)
        if self.state != 'connected':
            return
        answer = self._sent(data)
        if answer is not None:          # the server's answer arrives (reader thread)
            self._call('message', answer)

    def _sent(self, data):
        from socketio import packet
        try:
            pkt = self.packet_class(encoded_packet=data)
        except Exception:
            self.log.append(('send_other', repr(data)[:40]))
            return None
        ns = pkt.namespace or '/'
        if pkt.packet_type == packet.CONNECT:
            self.log.append(('send_connect', ns, pkt.data))
            rep = self.replies.pop(0) if self.replies else 'a'
            if rep == 'a':
                self.n_sid += 1
                return self.packet_class(packet.CONNECT, data={'sid': 'sid%d' % self.n_sid},
                                         namespace=ns).encode()
            if rep == 'r':
                return self.packet_class(packet.CONNECT_ERROR, data={'message': 'refused'},
                                         namespace=ns).encode()
            return None
        if pkt.packet_type == packet.DISCONNECT:
            self.log.append(('send_disconnect', ns))
        elif pkt.packet_type == packet.EVENT and pkt.id is not None:
            self.log.append(('send_event', ns, pkt.id))
        else:
            self.log.append(('send_other', pkt.packet_type))
        return None

    def disconnect(self, abort=False, reason=None):
        tick(self)
        self.log.append(('eio_disconnect', bool(abort)))
        self._disconnect(reason)

    def _disconnect(self, reason=None):
        if self.state == 'connected':
            self.state = 'disconnecting'
            self._call('disconnect', reason or REASON.CLIENT_DISCONNECT)
            self.state = 'disconnected'
        self._reset()

    def start_background_task(self, target, *args, **kwargs):
        tick(self)
        t = FakeTask(self, len(self.tasks), target, args, kwargs)
        self.tasks.append(t)
        self.log.append(('spawn', t.tid))
        return t

    def create_event(self, *args, **kwargs):
        return FakeEvent(self)

    def sleep(self, seconds=0):
        return None

    def wait(self):
        return None

    # -- environment side (driven by the scenario) --
    def transport_error(self):
        if self.state == 'connected':
            self.log.append(('lost',))
            self._call('disconnect', REASON.TRANSPORT_ERROR)
            self._reset()

    def server_close(self):
        if self.state == 'connected':
            self._disconnect(REASON.SERVER_DISCONNECT)

    def deliver(self, data):
        if self.state == 'connected':
            self._call('message', data)

    # -- baton --
    def current_task(self):
        th = threading.current_thread()
        for t in self.tasks:
            if t.thread is th:
                return t
        return None

    def drive(self, task):
        """Hand the baton to `task` until it parks in the abort wait or returns."""
        if task.done:
            return
        if not task.started:
            task.started = True
            task.thread.start()
        elif task.blocked:
            task.sem.release()
        else:
            return
        if not self.ctl.acquire(timeout=60):
            self.log.append(('task_hung', task.tid))
            self.ticks = LIMIT + 2          # make the stuck thread unwind at its next fake call

    def live_tasks(self):
        return [t for t in self.tasks if t.started and not t.done]

    def run_new_tasks(self):
        for t in list(self.tasks):
            if not t.started:
                self.drive(t)

    def wake_flagged(self):
        """Tasks parked on an event that has been set meanwhile return from their wait."""
        ev = getattr(self.client, '_reconnect_abort', None)
        for t in list(self.tasks):
            if t.blocked and ev is not None and ev.flag:
                self.drive(t)

    def kill(self):
        self.killed = True
        for t in self.tasks:
            if t.started and not t.done and t.blocked:
                t.sem.release()
                self.ctl.acquire()
            if t.started:
                t.thread.join(5)


# ---------------------------------------------------------------------------------------------
# asyncio twin
# ---------------------------------------------------------------------------------------------
class _Wait:
    """Awaitable returned by FakeAsyncEvent.wait(); recognised by the wait_for shim."""

    def __init__(self, event):
        self.event = event

    def __await__(self):
        ev = self.event
        if ev.flag:
            return True
        fut = asyncio.get_event_loop().create_future()
        ev.waiters.append(fut)
        yield from fut.__await__()
        return True


class FakeAsyncEvent:
    def __init__(self, eio):
        self.eio = eio
        self.flag = False
        self.waiters = []               # gates of tasks parked in wait_for(self.wait(), t)

    def set(self):
        self.flag = True
        for f in self.waiters:
            if not f.done():
                f.set_result(True)
        self.waiters = []

    def clear(self):
        self.flag = False

    def is_set(self):
        return self.flag

    def wait(self):
        return _Wait(self)


class AsyncioShim:
    """Stands for the name `asyncio` inside socketio.async_client: everything is the real
    module except wait_for on the instrumented events, which records the timeout and parks the
    caller on a gate that the controller (timeout) or event.set() (abort) releases."""

    def __init__(self, eio):
        self._eio = eio

    def __getattr__(self, name):
        return getattr(asyncio, name)

    async def wait_for(self, aw, timeout):
        if not isinstance(aw, _Wait):
            return await asyncio.wait_for(aw, timeout)
        ev = aw.event
        eio = self._eio
        if ev is not getattr(eio.client, '_reconnect_abort', None):
            if ev.flag:
                return True
            raise asyncio.TimeoutError()
        tick(eio)
        eio.log.append(('wait', timeout))
        if ev.flag:
            return True
        gate = asyncio.get_event_loop().create_future()
        ev.waiters.append(gate)
        task = asyncio.current_task()
        eio.parked[task] = gate
        try:
            ok = await gate
        finally:
            eio.parked.pop(task, None)
        if ok:
            return True
        raise asyncio.TimeoutError()


class FakeAsyncEio:
    """asyncio fake of engineio.AsyncClient."""

    def __init__(self):
        self.client = None
        self.state = 'disconnected'
        self.sid = None
        self.handlers = {}
        self.log = []
        self.next_outcome = None
        self.replies = []
        self.n_sid = 0
        self.tasks = []                 # asyncio tasks started through start_background_task
        self.parked = {}                # asyncio task -> gate future
        self.packet_class = None
        self.ticks = 0

    def on(self, event, handler=None):
        self.handlers[event] = handler

    def attach(self, client):
        self.client = client
        self.packet_class = client.packet_class
        client.eio = self
        self.on('connect', client._handle_eio_connect)
        self.on('message', client._handle_eio_message)
        self.on('disconnect', client._handle_eio_disconnect)

    async def _call(self, event, *args):
        try:
            return await self.handlers[event](*args)
        except Exception as e:
            self.log.append(('handler_error', event, type(e).__name__))
            if event == 'connect':
                raise

    async def _reset(self):
        self.state = 'disconnected'
        self.sid = None

    async def connect(self, url, headers=None, transports=None, engineio_path='engine.io'):
        tick(self)
        self.log.append(('eio_connect', url, headers, transports, engineio_path))
        if self.state != 'disconnected':
            raise ValueError('Client is not in a disconnected state')
        o = self.next_outcome
        self.next_outcome = None
        if o is None or o == 'err':
            if o is None:
                self.log.append(('unscripted_connect',))
            raise eio_exceptions.ConnectionError('Connection refused by the server')
        self.replies = list(o)
        self.n_sid += 1
        self.sid = 'eio%d' % self.n_sid
        self.state = 'connected'
        try:
            await self._call('connect')
        except Exception as exc:
            await self._reset()
            raise eio_exceptions.ConnectionError('Connect handler failed: ' + str(exc))

    async def send(self, data):
        tick(self)
        if self.state != 'connected':
            return
        answer = FakeEio._sent(self, data)
        if answer is not None:
            await self._call('message', answer)

    async def disconnect(self, abort=False, reason=None):
        tick(self)
        self.log.append(('eio_disconnect', bool(abort)))
        await self._disconnect(reason)

    async def _disconnect(self, reason=None):
        if self.state == 'connected':
            self.state = 'disconnecting'
            await self._call('disconnect', reason or REASON.CLIENT_DISCONNECT)
            self.state = 'disconnected'
        await self._reset()

    def start_background_task(self, target, *args, **kwargs):
        tick(self)
        tid = len(self.tasks)
        self.log.append(('spawn', tid))

        async def body():
            try:
                await target(*args, **kwargs)
            except asyncio.CancelledError:
                raise
            except Runaway:
                pass
            except BaseException as e:      # noqa: B902
                self.log.append(('task_error', tid, type(e).__name__))
            self.log.append(('task_end', tid))

        t = asyncio.ensure_future(body())
        t.tid = tid
        self.tasks.append(t)
        return t

    def create_event(self):
        return FakeAsyncEvent(self)

    async def sleep(self, seconds=0):
        return None

    async def wait(self):
        return None

    async def transport_error(self):
        if self.state == 'connected':
            self.log.append(('lost',))
            await self._call('disconnect', REASON.TRANSPORT_ERROR)
            await self._reset()

    async def server_close(self):
        if self.state == 'connected':
            await self._disconnect(REASON.SERVER_DISCONNECT)

    async def deliver(self, data):
        if self.state == 'connected':
            await self._call('message', data)

    def live_tasks(self):
        return [t for t in self.tasks if not t.done()]

    async def settle(self):
        """Let every task run until it has returned or is parked on a gate."""
        for _ in range(200):
            await asyncio.sleep(0)
            if all(t.done() or t in self._parked_outer() for t in self.tasks):
                return
        self.log.append(('not_quiescent',))

    def _parked_outer(self):
        # the gate is awaited inside the task created by ensure_future(body()): same task object
        return self.parked

    async def kill(self):
        for t in self.tasks:
            if not t.done():
                t.cancel()
        for t in self.tasks:
            try:
                await t
            except BaseException:       # noqa: B902
                pass
