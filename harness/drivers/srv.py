"""Drives the REAL socketio.Server / AsyncServer over the REAL engine.io server core
(sockets constructed by hand, no HTTP) with scripted application handlers, and records
the same effect vocabulary the Coq model Server/Server.v produces."""
import asyncio
import inspect
import itertools
import logging

from vt import common  # noqa: F401  (sets sys.path to /repo/src)
from vt import coqio
from vt.coqio import pv, cstr, copt, cZ, cN, clist, cbool

logging.getLogger('engineio.server').setLevel(logging.CRITICAL)
logging.getLogger('socketio.server').setLevel(logging.CRITICAL)


async def aw(x):
    if inspect.isawaitable(x):
        return await x
    return x


EXN = {'ValueError': ValueError, 'TypeError': TypeError, 'KeyError': KeyError, 'IndexError': IndexError,
       'RuntimeError': RuntimeError, 'OtherError': ZeroDivisionError, 'AttributeError': AttributeError}


class ServerDriver:
    def __init__(self, cfg, mode='sync', coro=False, instrument=None):
        import socketio
        import engineio
        from engineio import packet as eio_packet
        self.cfg = cfg
        self.mode = mode
        self.coro = coro and mode == 'async'
        self.eio_packet = eio_packet
        self.trace = []
        self.open_sessions = {}
        self.log = logging.getLogger('verif.null')
        self.log.addHandler(logging.NullHandler())
        self.log.propagate = False
        self.log.setLevel(logging.CRITICAL + 1)
        kw = dict(async_handlers=False, always_connect=cfg.get('always_connect', False),
                  namespaces=('*' if cfg.get('namespaces') is None else list(cfg['namespaces'])),
                  serializer=cfg.get('serializer', 'default'), logger=self.log, engineio_logger=self.log,
                  monitor_clients=False)
        if mode == 'sync':
            self.sio = socketio.Server(async_mode='threading', **kw)
            self.sock_cls = engineio.socket.Socket
        else:
            self.sio = socketio.AsyncServer(async_mode='asgi', **kw)
            self.sock_cls = engineio.async_socket.AsyncSocket
        ctr = itertools.count()
        self.sio.eio.generate_id = lambda: 'S%d' % next(ctr)
        # the oracle table for json.loads is recorded per message
        self.loads_table = []
        if cfg.get('serializer', 'default') == 'default':
            drv = self
            base = self.sio.packet_class

            class RecJson:
                @staticmethod
                def dumps(*a, **k):
                    return base.json.dumps(*a, **k)

                @staticmethod
                def loads(s, *a, **k):
                    try:
                        r = base.json.loads(s, *a, **k)
                    except BaseException as e:
                        drv.loads_table.append((s, False, coqio.exn_name(e)))
                        raise
                    drv.loads_table.append((s, True, r))
                    return r
            self.sio.packet_class = type('RecPacket', (base,), {'json': RecJson})
        self.sockets = {}
        self.nested = None
        self.sd = False
        self.hook = None        # [sends left, inner op]: see _op_hooked
        self._install_handlers()

    # ---- scripted handlers ----
    def _body(self, hid, kind):
        """kind: where sid / namespace sit in the handler's arguments."""
        b = self.cfg['behav'][hid]
        drv = self

        async def body(ns_fixed, args):
            drv.trace.append(('Call', hid, tuple(args)))
            if kind == 'plain' or kind == 'method':
                ns, sid = ns_fixed, args[0] if args else None
            elif kind == 'ev*':          # handlers[ns]['*']: (event, sid, ...)
                ns, sid = ns_fixed, args[1] if len(args) > 1 else None
            elif kind == '*ev' or kind == 'method*':   # handlers['*'][ev] / Namespace('*'): (ns, sid, ...)
                ns, sid = args[0], args[1] if len(args) > 1 else None
            else:                        # handlers['*']['*']: (event, ns, sid, ...)
                ns, sid = args[1], args[2] if len(args) > 2 else None
            for a in b.get('actions', []):
                await drv._action(a, ns, sid)
            if drv.sd:
                # re-entrant scenario (Server/ServerX.v): the handler ends its own client's connection
                drv.sd = False
                await aw(drv.sio.disconnect(sid, namespace=ns))
            out = b['outcome']
            if out[0] == 'ret':
                return out[1]
            if out[0] == 'refuse':
                from socketio.exceptions import ConnectionRefusedError
                raise ConnectionRefusedError(*out[1])
            raise EXN[out[1]]('scripted')
        return body

    def _make(self, hid, kind, ns_fixed):
        b = self.cfg['behav'][hid]
        body = self._body(hid, kind)
        n = b.get('arity')
        loop_run = self._run_nested
        if n is None:
            params, tup = '*a', 'a'
        else:
            names = ['a%d' % i for i in range(n)]
            params, tup = ', '.join(names), '(' + ''.join(x + ', ' for x in names) + ')'
        if kind.startswith('method'):
            params = 'self, ' + params if params else 'self'
        env = {'body': body, 'ns_fixed': ns_fixed, 'loop_run': loop_run}
        if self.mode == 'async' and (self.coro or b.get('actions') or self.cfg.get('_sd')):
            src = 'async def h(%s):\n    return await body(ns_fixed, %s)\n' % (params, tup)
        else:
            src = 'def h(%s):\n    return loop_run(body(ns_fixed, %s))\n' % (params, tup)
        exec(src, env)
        return env['h']

    def _run_nested(self, coro):
        """Run a scripted body from a synchronous handler.  With the sync server the
        body never really suspends; with the async server and sync handlers the API
        calls inside are coroutines, so sync handlers there have no actions (enforced
        by the generators)."""
        try:
            coro.send(None)
        except StopIteration as e:
            return e.value
        raise RuntimeError('scripted sync handler tried to suspend')

    async def _action(self, a, ns, sid):
        sio = self.sio
        k = a[0]
        if k == 'enter':
            await aw(sio.enter_room(sid, a[1], namespace=ns))
        elif k == 'leave':
            await aw(sio.leave_room(sid, a[1], namespace=ns))
        elif k == 'emit_self':
            await aw(sio.emit(a[1], a[2], to=sid, namespace=ns))
        elif k == 'emit_room':
            await aw(sio.emit(a[1], a[2], to=a[3], skip_sid=(sid if a[4] else None), namespace=ns))
        elif k == 'save':
            await aw(sio.save_session(sid, _copy(a[1]), namespace=ns))
        elif k == 'get':
            v = await aw(sio.get_session(sid, namespace=ns))
            self.trace.append(('Ret', _copy(v)))

    def _install_handlers(self):
        import socketio
        for ns, tbl in self.cfg.get('handlers', {}).items():
            for ev, hid in tbl.items():
                kind = {(False, False): 'plain', (False, True): 'ev*', (True, False): '*ev', (True, True): '*ev*'}[
                    (ns == '*', ev == '*')]
                self.sio.on(ev, self._make(hid, kind, ns), namespace=ns)
        base = socketio.Namespace if self.mode == 'sync' else socketio.AsyncNamespace
        for ns, methods in self.cfg.get('ns_handlers', {}).items():
            attrs = {}
            for ev, hid in methods.items():
                attrs['on_' + ev] = self._make(hid, 'method*' if ns == '*' else 'method', ns)
            cls = type('ScriptedNS', (base,), attrs)
            self.sio.register_namespace(cls(ns))

    def callback(self, cb):
        """Ack callback.  When the driver has armed `self.nested` (eio, payload), the callback
        re-delivers that message from inside itself, once: this is how a duplicate ACK that is
        processed while the first invocation is still running is produced deterministically."""
        drv = self

        def redeliver():
            if drv.nested is None:
                return None
            eio, payload = drv.nested
            drv.nested = None
            drv.trace.append(('NestedStart',))
            s = drv.sockets.get(eio)
            if s is not None and not s.closed:
                return s.receive(drv.eio_packet.Packet(drv.eio_packet.MESSAGE, payload))
            return None

        if self.mode == 'async':
            async def f(*args):
                drv.trace.append(('CbCall', cb, tuple(args)))
                r = redeliver()
                if inspect.isawaitable(r):
                    await r
        else:
            def f(*args):
                drv.trace.append(('CbCall', cb, tuple(args)))
                redeliver()
        return f

    # ---- engine.io level ----
    def _socket(self, eio):
        drv = self
        base = self.sock_cls
        msgpack_mode = self.cfg.get('serializer', 'default') == 'msgpack'

        def wire(data):
            if msgpack_mode and isinstance(data, (bytes, bytearray)):
                import msgpack
                try:
                    return msgpack.loads(data)      # frames are compared as the dict that was packed
                except Exception:
                    return data
            return data
        if self.mode == 'sync':
            class S(base):
                def send(self, pkt):
                    if not self.closed:
                        drv.trace.append(('Out', self.sid, wire(pkt.data)))
                        if drv.hook is not None:
                            return drv._hooked_send(super().send, pkt)
                    return super().send(pkt)
        else:
            class S(base):
                async def send(self, pkt):
                    if not self.closed:
                        drv.trace.append(('Out', self.sid, wire(pkt.data)))
                        if drv.hook is not None:
                            return await drv._hooked_send_async(super().send, pkt)
                    return await super().send(pkt)
        s = S(self.sio.eio, eio)
        s.last_ping = None
        s.connected = True
        return s

    # ---- re-entrancy at the send (Server/EmitNested.v) ----
    def _hook_tick(self):
        """Called after a recorded send while a hook is armed: the inner operation to run now, or None."""
        h = self.hook
        h[0] -= 1
        if h[0] > 0:
            return None
        self.hook = None
        return h[1]

    async def _inner(self, o):
        """The nested operation: another client's engine.io packet ('msg') or the loss of its
        transport ('close'), processed from inside a send; contained like in `op`."""
        self.trace.append(('NestedStart',))
        try:
            s = self.sockets.get(o[1])
            if s is not None and not s.closed:
                if o[0] == 'msg':
                    await aw(s.receive(self.eio_packet.Packet(self.eio_packet.MESSAGE, o[2])))
                elif o[0] == 'close':
                    await aw(s.close(wait=False, abort=True, reason=o[2]))
                    self.sio.eio.sockets.pop(o[1], None)
                else:
                    raise AssertionError('unknown nested op %r' % (o,))
        except AssertionError:
            raise
        except BaseException as e:      # nothing may escape engine.io's containment
            self.trace.append(('Escaped', coqio.exn_name(e)))
        self.trace.append(('NestedEnd',))

    def _hooked_send(self, send, pkt):
        r = send(pkt)
        inner = self._hook_tick()
        if inner is not None:
            self._run_nested(self._inner(inner))
        return r

    async def _hooked_send_async(self, send, pkt):
        r = await send(pkt)
        inner = self._hook_tick()
        if inner is not None:
            await self._inner(inner)
        return r

    async def _op_hooked(self, o):
        """('emit_nested', event, data, to, room, skip, ns, n, inner): server.emit (no callback) during
        which, from inside the n-th send that is really performed, `inner` = ('msg', eio, payload) |
        ('close', eio, reason) is processed.  ('msg_hook', eio, payload, n, inner): the same while the
        message of `eio` is being handled (the sends are those of its handlers' emits and of its ack).
        The trace carries ('NestedStart',) / ('NestedEnd',) around the inner operation's effects; when
        fewer than n sends happen the inner operation does not run at all.  n = 0: never."""
        sio = self.sio
        inner = o[-1]
        n = o[-2]
        self.hook = [n, inner] if n > 0 else None
        try:
            if o[0] == 'emit_nested':
                _, ev, data, to, room, skip, ns, _n, _i = o
                try:
                    await aw(sio.emit(ev, _copy(data), to=to, room=room, skip_sid=skip, namespace=ns))
                except BaseException as e:
                    self.trace.append(('Raised', coqio.exn_name(e)))
            elif o[0] == 'msg_hook':
                s = self.sockets.get(o[1])
                if s is not None and not s.closed:
                    try:
                        await aw(s.receive(self.eio_packet.Packet(self.eio_packet.MESSAGE, o[2])))
                    except BaseException as e:
                        self.trace.append(('Escaped', coqio.exn_name(e)))
            else:
                raise AssertionError('unknown op %r' % (o,))
        finally:
            self.hook = None
        if self.cfg.get('serializer', 'default') == 'msgpack':
            import msgpack
            self.loads_table = []
            for m in ([o] if o[0] == 'msg_hook' else []) + ([inner] if inner[0] == 'msg' else []):
                key = m[2] if isinstance(m[2], (bytes, bytearray, str)) else b''
                try:
                    self.loads_table.append((key, True, msgpack.loads(m[2])))
                except BaseException as e:
                    self.loads_table.append((key, False, coqio.exn_name(e)))
        return self.trace, self.loads_table

    async def op(self, o):
        """Execute one operation; returns (effects, json table)."""
        self.trace = []
        self.loads_table = []
        sio = self.sio
        k = o[0]
        if k in ('emit_nested', 'msg_hook'):
            return await self._op_hooked(o)
        try:
            if k == 'eio_connect':
                s = self._socket(o[1])
                sio.eio.sockets[o[1]] = s
                self.sockets[o[1]] = s
                await aw(sio.eio._trigger_event('connect', o[1], o[2], run_async=False))
            elif k == 'msg':
                s = self.sockets.get(o[1])
                if s is not None and not s.closed:
                    await aw(s.receive(self.eio_packet.Packet(self.eio_packet.MESSAGE, o[2])))
            elif k == 'msg_sd':
                s = self.sockets.get(o[1])
                if s is not None and not s.closed:
                    # as in Server/ServerX.v: while a binary packet is being reassembled for this
                    # transport the frame is an attachment and is handled as a plain message
                    self.sd = o[1] not in sio._binary_packet
                    try:
                        await aw(s.receive(self.eio_packet.Packet(self.eio_packet.MESSAGE, o[2])))
                    finally:
                        self.sd = False
            elif k == 'msg_nested':
                # the message is delivered, and delivered AGAIN from inside the ack callback it triggers
                s = self.sockets.get(o[1])
                if s is not None and not s.closed:
                    self.nested = (o[1], o[2])
                    await aw(s.receive(self.eio_packet.Packet(self.eio_packet.MESSAGE, o[2])))
                    if self.nested is not None:     # no callback ran: deliver the duplicate afterwards
                        self.nested = None
                        self.trace.append(('NestedStart',))
                        await aw(s.receive(self.eio_packet.Packet(self.eio_packet.MESSAGE, o[2])))
            elif k == 'close':
                s = self.sockets.get(o[1])
                if s is not None and not s.closed:
                    await aw(s.close(wait=False, abort=True, reason=o[2]))
                    sio.eio.sockets.pop(o[1], None)
        except BaseException as e:      # nothing may escape engine.io's containment
            self.trace.append(('Escaped', coqio.exn_name(e)))
        if k in ('msg', 'msg_nested', 'msg_sd') and self.cfg.get('serializer', 'default') == 'msgpack':
            import msgpack
            key = o[2] if isinstance(o[2], (bytes, bytearray, str)) else b''
            try:
                self.loads_table = [(key, True, msgpack.loads(o[2]))]
            except BaseException as e:
                self.loads_table = [(key, False, coqio.exn_name(e))]
        if k in ('eio_connect', 'msg', 'close', 'msg_nested', 'msg_sd'):
            return self.trace, self.loads_table
        try:
            if k == 'emit':
                _, ev, data, to, room, skip, ns, cb = o
                await aw(sio.emit(ev, _copy(data), to=to, room=room, skip_sid=skip, namespace=ns,
                                  callback=self.callback(cb) if cb is not None else None))
            elif k == 'enter':
                await aw(sio.enter_room(o[1], o[2], namespace=o[3]))
            elif k == 'leave':
                await aw(sio.leave_room(o[1], o[2], namespace=o[3]))
            elif k == 'close_room':
                await aw(sio.close_room(o[1], namespace=o[2]))
            elif k == 'rooms':
                self.trace.append(('Ret', list(sio.rooms(o[1], namespace=o[2]))))
            elif k == 'disconnect':
                await aw(sio.disconnect(o[1], namespace=o[2]))
            elif k == 'get_session':
                self.trace.append(('Ret', _copy(await aw(sio.get_session(o[1], namespace=o[2])))))
            elif k == 'save_session':
                await aw(sio.save_session(o[1], _copy(o[2]), namespace=o[3]))
            elif k == 'session_nested':
                # two session() blocks for the same client open at once (the inner one inside the outer one)
                _, sid_, ns_, k1, v1, k2, v2 = o
                self.trace.append(('NestedStart',))
                if self.mode == 'sync':
                    with sio.session(sid_, namespace=ns_) as outer:
                        outer[k1] = _copy(v1)
                        with sio.session(sid_, namespace=ns_) as inner:
                            inner[k2] = _copy(v2)
                else:
                    async with sio.session(sid_, namespace=ns_) as outer:
                        outer[k1] = _copy(v1)
                        async with sio.session(sid_, namespace=ns_) as inner:
                            inner[k2] = _copy(v2)
            elif k == 'session_span':
                # a long session() block spanning two short ones for the same client:
                #   with session as L: (with session as a: a[k1]=v1) (with session as b: b[k2]=v2) L[k0]=v0
                _, sid_, ns_, k1, v1, k2, v2, k0, v0 = o
                self.trace.append(('NestedStart',))
                if self.mode == 'sync':
                    with sio.session(sid_, namespace=ns_) as long_:
                        with sio.session(sid_, namespace=ns_) as a_:
                            a_[k1] = _copy(v1)
                        with sio.session(sid_, namespace=ns_) as b_:
                            b_[k2] = _copy(v2)
                        long_[k0] = _copy(v0)
                else:
                    async with sio.session(sid_, namespace=ns_) as long_:
                        async with sio.session(sid_, namespace=ns_) as a_:
                            a_[k1] = _copy(v1)
                        async with sio.session(sid_, namespace=ns_) as b_:
                            b_[k2] = _copy(v2)
                        long_[k0] = _copy(v0)
            elif k == 'session_open':
                # a session() block that STAYS OPEN across later operations of the history: on entry the dict is
                # replaced by `new` (in place, i.e. stored at once); model: save_session(sid, new)
                _, sid_, ns_, new_, tag_ = o
                cm = sio.session(sid_, namespace=ns_)
                d_ = (cm.__enter__() if self.mode == 'sync' else await cm.__aenter__())
                d_.clear()
                d_.update(_copy(new_))
                self.open_sessions[tag_] = cm
            elif k == 'session_close':
                # leaving the block opened by session_open (same sid, same dict); model: save_session(sid, new)
                _, sid_, ns_, new_, tag_ = o
                cm = self.open_sessions.pop(tag_, None)
                if cm is None:
                    # the block could not be entered: what leaving would have done, done directly
                    await aw(sio.save_session(sid_, _copy(new_), namespace=ns_))
                elif self.mode == 'sync':
                    cm.__exit__(None, None, None)
                else:
                    await cm.__aexit__(None, None, None)
            elif k == 'session_replace':
                # with session(sid) as s: s.clear(); s.update(new)  -- keys are REMOVED inside the block
                if self.mode == 'sync':
                    with sio.session(o[1], namespace=o[2]) as s:
                        s.clear()
                        s.update(_copy(o[3]))
                else:
                    async with sio.session(o[1], namespace=o[2]) as s:
                        s.clear()
                        s.update(_copy(o[3]))
            elif k == 'session_set':
                if self.mode == 'sync':
                    with sio.session(o[1], namespace=o[2]) as s:
                        s[o[3]] = _copy(o[4])
                else:
                    async with sio.session(o[1], namespace=o[2]) as s:
                        s[o[3]] = _copy(o[4])
            else:
                raise AssertionError('unknown op %r' % (o,))
        except AssertionError:
            raise
        except BaseException as e:
            self.trace.append(('Raised', coqio.exn_name(e)))
        return self.trace, self.loads_table

    def dump(self):
        """Canonical dump of every piece of per-client state the server holds."""
        sio = self.sio
        m = sio.manager
        rooms = [(ns, [(room, list(bd.items())) for room, bd in rm.items()]) for ns, rm in m.rooms.items()]
        pending = [(ns, list(l)) for ns, l in m.pending_disconnect.items()]
        cbs = []
        for sid, d in m.callbacks.items():
            ctr = d.get(0)
            nxt = None
            if ctr is not None:
                import copy
                nxt = next(copy.copy(ctr))
            cbs.append((sid, nxt, sorted(k for k in d if k != 0)))
        sessions = [(eio, [(ns, _copy(v)) for ns, v in s.session.items()])
                    for eio, s in sio.eio.sockets.items() if not s.closed and s.session]
        return {'rooms': rooms, 'pending': pending, 'callbacks': cbs,
                'environ': list(sio.environ.keys()), 'binpkt': list(sio._binary_packet.keys()),
                'sessions': sessions, 'live': [e for e, s in sio.eio.sockets.items() if not s.closed]}


def _copy(v):
    import copy
    return copy.deepcopy(v)


def run_history(cfg, ops, mode='sync', coro=False, probe=None):
    """Returns (list of (effects, table) per op, final dump).  `probe(driver, op)`, if given, is called
    after every operation (read-only inspection of the real server's state)."""
    async def main():
        d = ServerDriver(dict(cfg, _sd=True) if any(o[0] == 'msg_sd' for o in ops) else cfg, mode, coro)
        out = []
        for o in ops:
            effs, tbl = await d.op(o)
            if probe is not None:
                probe(d, o)
            if o[0] == 'session_nested':
                # model: the two blocks one after the other (no observable effect in between); if the
                # session cannot be obtained both halves raise the same exception
                rest = [e for e in effs if e != ('NestedStart',)]
                out.append((rest, tbl))
                out.append((rest, tbl))
            elif o[0] == 'session_span':
                # model: the three assignments one after the other (k1, k2, k0)
                rest = [e for e in effs if e != ('NestedStart',)]
                out.extend([(rest, tbl)] * 3)
            elif o[0] == 'msg_nested':
                # In the model the nested delivery is the same message delivered right after: the
                # callback invocation is the last thing _handle_ack does (tail position), so the
                # nested run sees exactly the state the sequential run sees.
                cut = effs.index(('NestedStart',)) if ('NestedStart',) in effs else len(effs)
                out.append((effs[:cut], tbl))
                out.append(([e for e in effs[cut + 1:]], tbl))
            else:
                out.append((effs, tbl))
        return out, d.dump()
    return asyncio.run(main())


# ---- Gallina printers for the Server.v vocabulary ----
def c_outcome(o):
    if o[0] == 'ret':
        return '(Returns %s)' % pv(o[1])
    if o[0] == 'refuse':
        return '(RaisesRefused %s)' % clist([pv(x) for x in o[1]])
    return '(Raises %s)' % o[1]


def c_action(a):
    k = a[0]
    if k == 'enter':
        return '(AEnter %s)' % pv(a[1])
    if k == 'leave':
        return '(ALeave %s)' % pv(a[1])
    if k == 'emit_self':
        return '(AEmitSelf %s %s)' % (cstr(a[1]), pv(a[2]))
    if k == 'emit_room':
        return '(AEmitRoom %s %s %s %s)' % (cstr(a[1]), pv(a[2]), pv(a[3]), cbool(a[4]))
    if k == 'save':
        return '(ASave %s)' % pv(a[1])
    return 'AGet'


def c_cfg(cfg):
    def tbl(t):
        return clist(['(%s, %s)' % (cstr(ns), clist(['(%s, %s)' % (cstr(ev), cN(h)) for ev, h in m.items()]))
                      for ns, m in t.items()])
    behav = clist(['(%s, mkBehav %s %s %s)' % (
        cN(h), copt(b.get('arity'), coqio.cnat), clist([c_action(a) for a in b.get('actions', [])]),
        c_outcome(b['outcome'])) for h, b in cfg['behav'].items()])
    nss = cfg.get('namespaces')
    return '(mkCfg %s %s %s %s %s %s)' % (
        tbl(cfg.get('handlers', {})), tbl(cfg.get('ns_handlers', {})), behav,
        'None' if nss is None else '(Some %s)' % clist([cstr(n) for n in nss]),
        cbool(cfg.get('always_connect', False)), cbool(cfg.get('serializer', 'default') == 'default'))


def c_table(tbl):
    items = []
    for s, ok, r in tbl:
        try:
            items.append('(%s, %s)' % (cstr(s), coqio.cres(ok, pv(r) if ok else r)))
        except TypeError:
            items.append('(%s, (Err OtherError))' % cstr(s))
    return clist(items)


def c_op(o, table=()):
    k = o[0]
    ons = lambda n: copt(n, cstr)  # noqa: E731
    if k == 'eio_connect':
        return '(EioConnect %s %s)' % (cstr(o[1]), pv(o[2]))
    if k == 'msg':
        return '(EioMessage %s %s %s)' % (cstr(o[1]), pv(o[2]), c_table(table))
    if k == 'close':
        return '(EioClose %s %s)' % (cstr(o[1]), pv(o[2]))
    if k == 'emit':
        _, ev, data, to, room, skip, ns, cb = o
        return '(ApiEmit %s %s %s %s %s %s %s)' % (pv(ev), pv(data), pv(to), pv(room), pv(skip), ons(ns), copt(cb, cN))
    if k == 'enter':
        return '(ApiEnterRoom %s %s %s)' % (cstr(o[1]), pv(o[2]), ons(o[3]))
    if k == 'leave':
        return '(ApiLeaveRoom %s %s %s)' % (cstr(o[1]), pv(o[2]), ons(o[3]))
    if k == 'close_room':
        return '(ApiCloseRoom %s %s)' % (pv(o[1]), ons(o[2]))
    if k == 'rooms':
        return '(ApiRooms %s %s)' % (cstr(o[1]), ons(o[2]))
    if k == 'disconnect':
        return '(ApiDisconnect %s %s)' % (cstr(o[1]), ons(o[2]))
    if k == 'get_session':
        return '(ApiGetSession %s %s)' % (cstr(o[1]), ons(o[2]))
    if k == 'save_session':
        return '(ApiSaveSession %s %s %s)' % (cstr(o[1]), pv(o[2]), ons(o[3]))
    if k == 'session_replace':
        # in the model: the block's net effect, i.e. the session becomes exactly the new dict
        return '(ApiSaveSession %s %s %s)' % (cstr(o[1]), pv(o[3]), ons(o[2]))
    if k == 'session_set':
        return '(ApiSessionSet %s %s %s %s)' % (cstr(o[1]), ons(o[2]), cstr(o[3]), pv(o[4]))
    raise ValueError(o)


def c_xop(o, table=()):
    if o[0] == 'msg_sd':
        return '(EventSD %s %s %s)' % (cstr(o[1]), pv(o[2]), c_table(table))
    return '(Plain %s)' % c_op(o, table)


def c_eff(e):
    k = e[0]
    if k == 'Out':
        return '(Out %s %s)' % (cstr(e[1]), pv(e[2]))
    if k == 'Call':
        return '(Call %s %s)' % (cN(e[1]), clist([pv(x) for x in e[2]]))
    if k == 'CbCall':
        return '(CbCall %s %s)' % (cN(e[1]), clist([pv(x) for x in e[2]]))
    if k == 'Ret':
        return '(Ret %s)' % pv(e[1])
    if k == 'Raised':
        return '(Raised %s)' % e[1]
    if k == 'Escaped':
        return '(Raised OtherError)'
    raise ValueError(e)


def c_dump(d):
    def bd(items):
        return clist(['(%s, %s)' % (cstr(s), cstr(e)) for s, e in items])
    rooms = clist(['(%s, %s)' % (cstr(ns), clist(['(%s, %s)' % (pv(r), bd(items)) for r, items in rm]))
                   for ns, rm in d['rooms']])
    pending = clist(['(%s, %s)' % (cstr(ns), clist([cstr(s) for s in l])) for ns, l in d['pending']])
    cbs = clist(['(%s, %s, %s)' % (cstr(sid), copt(nxt, cN), clist([cN(i) for i in ids])) for sid, nxt, ids in d['callbacks']])
    sess = clist(['(%s, %s)' % (cstr(e), clist(['(%s, %s)' % (cstr(ns), pv(v)) for ns, v in l])) for e, l in d['sessions']])
    return '(mkDump %s %s %s %s %s %s %s)' % (
        rooms, pending, cbs, clist([cstr(e) for e in d['environ']]), clist([cstr(e) for e in d['binpkt']]),
        sess, clist([cstr(e) for e in d['live']]))
