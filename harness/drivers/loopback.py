"""In-memory loopback between a REAL socketio client and a REAL socketio server (C02).

  socketio.Client      <->  socketio.Server(async_mode='threading')      mode 'sync'
  socketio.AsyncClient <->  socketio.AsyncServer(async_mode='asgi')      mode 'async'

Server side as in drivers/srv.py: the real engineio.Server / AsyncServer core with a Socket /
AsyncSocket object constructed by hand (no HTTP); whatever socketio queues for the client is
taken from the real `Socket.queue`.  Client side: the real socketio client whose `eio` attribute
is replaced by `LoopEio`, a fake of the handful of engine.io client methods socketio calls
(connect / send / disconnect / create_event / start_background_task / sleep), with the three
engine.io handlers re-registered as BaseClient.__init__ does.

Everything that crosses is encoded and decoded with the REAL engine.io codecs, in the two
variants the transports use:
  b64=True   long-polling: packets joined in an engineio.payload.Payload, binary frames as
             'b' + base64 text, the text round-tripped through UTF-8 (HTTP body);
             at most 16 packets per payload (Payload.max_decode_packets)
  b64=False  websocket: one engineio.packet.Packet.encode(b64=False) per frame, binary raw.
Sending only ENQUEUES (as the real engine.io does: Socket.queue / the client's write queue); the
queues are pumped - FIFO per direction, replies produced while pumping are delivered behind what
is already in flight - when the application's API call has returned, and inside the wait() of the
events created through create_event() (call() and connect() wait on those for the peer's
answer).  Nothing is ever delivered from inside a send, so a handler can never run between the
pieces of a multi-piece (binary) packet of its own side: that would be a second emitter on the
same connection, which the library documents as unsupported.  Pumping sends either every queued
packet on its own or all of them together in one polling payload (`batch`).
Nested delivery (`deliver_more`): a client-side handler can have the next server->client frame(s)
handed to the client while it is still running, as happens with the real engine.io client, which
dispatches every MESSAGE in a task / thread of its own.

Trusted / assumed here (engine.io is a dependency, not under test): the transport is FIFO
and hands MESSAGE payloads to socketio's handler one at a time in order; exceptions raised by
socketio's handler are contained by engine.io (recorded here as 'escaped', never swallowed).

Delivery budgets (`budget[d]`, late acknowledgements): the number of frames of direction d that may
still be delivered during the current operation (None = no limit).  Frames that are not
delivered stay in flight, in order, and are delivered during a later operation (inside the wait()
of a later call(), or when a later API call has returned): this is how a call() times out while
its ACK is on the way and how that ACK arrives late, interleaved with later emits / calls.

What is recorded (per direction 'c2s' / 's2c'):
  wire[d]   socket.io-level payloads handed to engine.io by the sender, in order
  jtab[d]   every json.loads call of the receiver (text, ok, result|exception name)
  rx[d]     ('ev', ns, event, args, id, n)  application handler invoked (sid stripped and checked)
            ('ack', ns, id, args, n)        ACK dispatched to a callback (boundary: _handle_ack)
            n = dispatch number: the position at which the receive loop handed the packet to
            _handle_event / _handle_ack (with async_handlers=True the server runs the handler
            later, in a task / thread of its own; the list is in order of invocation)
  escaped   exceptions that left socketio's engine.io handlers
  tl[d]     the timeline of the acknowledgement registry of the SENDER of direction d (client for
            'c2s', server for 's2c'), in the order things happened:
            ['reg', op, ns, id]              _generate_ack_id returned id while operation op was issued
            ['ack', ns, id, args, fired]     an ACK reached _handle_ack; fired = [('user', op, args) |
                                             ('call', op)] callbacks invoked while it was handled
            ['end', op, result]              the call() of operation op returned / raised
            ['stray', ...]                   a callback invoked outside any ACK dispatch (never happens)
"""
import asyncio
import collections
import inspect
import logging
import threading

_pyid = id

from vt import common  # noqa: F401  (sys.path -> /repo/src)
from vt import coqio


async def aw(x):
    if inspect.isawaitable(x):
        return await x
    return x


def _null_logger():
    log = logging.getLogger('verif.c02.null')
    if not log.handlers:
        log.addHandler(logging.NullHandler())
    log.propagate = False
    log.setLevel(logging.CRITICAL + 1)
    return log


class _Task:
    def join(self, timeout=None):
        return None


class PumpEvent:
    """threading.Event / asyncio.Event stand-in whose wait() lets the loopback run: the thread
    (task) that would deliver the peer's answer while the caller waits is the caller itself."""

    def __init__(self, loop, side=None):
        self.loop = loop
        self.flag = False
        self.side = side                    # whose registry: 'c2s' = the client's, 's2c' = the server's
        self.op = loop.issuing if side else None

    def set(self):
        self.flag = True
        if self.op is not None:
            self.loop.fired(self.side, ('call', self.op))

    def clear(self):
        self.flag = False

    def is_set(self):
        return self.flag

    def wait(self, timeout=None):
        if self.loop.is_async:
            return self._await()
        if not self.flag:
            self.loop.run_sync(self.loop.pump())
        return self.flag

    async def _await(self):
        if not self.flag:
            await self.loop.pump()
        if not self.flag:
            raise asyncio.TimeoutError()
        return True


class LoopEio:
    """Fake engine.io client (threaded or asyncio flavour decided by the loop)."""

    def __init__(self, loop):
        self.loop = loop
        self.state = 'disconnected'
        self.sid = None
        self.handlers = {}

    def on(self, event, handler=None):
        self.handlers[event] = handler

    def transport(self):
        return 'polling' if self.loop.b64 else 'websocket'

    # -- sync flavour --
    def connect(self, url, headers=None, transports=None, engineio_path='engine.io'):
        if self.loop.is_async:
            return self._aconnect()
        self.state = 'connected'
        self.sid = self.loop.eio_sid
        self.loop.run_sync(self.loop.server_open())
        self.handlers['connect']()

    async def _aconnect(self):
        self.state = 'connected'
        self.sid = self.loop.eio_sid
        await self.loop.server_open()
        await self.handlers['connect']()

    def send(self, data):
        if self.loop.is_async:
            return self._asend(data)
        if self.state == 'connected':
            self.loop.run_sync(self.loop.client_send(data))

    async def _asend(self, data):
        if self.state == 'connected':
            await self.loop.client_send(data)

    def disconnect(self, abort=False, reason=None):
        if self.loop.is_async:
            return self._adisconnect()
        self.state = 'disconnected'

    async def _adisconnect(self):
        self.state = 'disconnected'

    def create_event(self, *a, **k):
        return PumpEvent(self.loop, 'c2s')

    def start_background_task(self, target, *args, **kwargs):
        if self.loop.is_async:
            return asyncio.ensure_future(target(*args, **kwargs))
        target(*args, **kwargs)
        return _Task()

    def sleep(self, seconds=0):
        if self.loop.is_async:
            return asyncio.sleep(0)
        return None


class Loopback:
    def __init__(self, mode, serializer, b64, async_handlers=False, coro_handlers=False):
        import socketio
        import engineio
        from engineio import packet as eio_packet, payload as eio_payload
        self.mode = mode
        self.is_async = mode == 'async'
        self.serializer = serializer
        self.b64 = b64
        self.async_handlers = async_handlers
        self.coro_handlers = coro_handlers and self.is_async
        self.eio_packet = eio_packet
        self.eio_payload = eio_payload
        self.eio_sid = 'E0'
        self.wire = {'c2s': [], 's2c': []}
        self.jtab = {'c2s': [], 's2c': []}
        self.rx = {'c2s': [], 's2c': []}
        self.escaped = []
        self.batch = False                          # pump: all queued packets in one polling payload
        self.pumping = False
        self.inflight = {'c2s': collections.deque(), 's2c': collections.deque()}
        self.nested_deliveries = 0
        self.first = 'c2s'                          # direction the pump serves first
        self.outq = {'c2s': [], 's2c': []}          # engine.io packets waiting for a flush
        self.cur_id = {'c2s': [], 's2c': []}        # (ack id, dispatch number) of the event being handled (stack)
        self.seq = 0                                # dispatch counter of the receive loops
        self.budget = {'c2s': None, 's2c': None}    # frames that may still be delivered (None = no limit)
        self.tl = {'c2s': [], 's2c': []}            # registry timeline of the sender of each direction
        self.ack_stack = {'c2s': [], 's2c': []}     # ACK dispatches in progress
        self.issuing = None                         # operation whose API call is running
        self.dispatched = {}                        # id(data list) -> dispatch number (server, c2s)
        log = _null_logger()
        kw = dict(async_handlers=async_handlers, serializer=serializer, logger=log, engineio_logger=log,
                  monitor_clients=False, namespaces='*')
        if self.is_async:
            self.sio = socketio.AsyncServer(async_mode='asgi', **kw)
            self.sock_cls = engineio.async_socket.AsyncSocket
            self.client = socketio.AsyncClient(serializer=serializer, logger=log, engineio_logger=log,
                                               reconnection=False)
        else:
            self.sio = socketio.Server(async_mode='threading', **kw)
            self.sock_cls = engineio.socket.Socket
            self.client = socketio.Client(serializer=serializer, logger=log, engineio_logger=log,
                                          reconnection=False)
            # handlers started "in the background" run inline: no threads, deterministic
            self.sio.eio.start_background_task = self._inline_task
        self.sio.eio.generate_id = lambda: 'S-should-not-be-used'
        self.sio.eio.create_event = lambda *a, **k: PumpEvent(self, 's2c')
        self._sid_counter = 0
        self.sio.manager  # noqa: B018  (created by the constructor)
        self.eio = LoopEio(self)
        self.client.eio = self.eio
        self.eio.on('connect', self.client._handle_eio_connect)
        self.eio.on('message', self.client._handle_eio_message)
        self.eio.on('disconnect', self.client._handle_eio_disconnect)
        self._record_json()
        self._wrap_internals()
        self.socket = None

    # ------------------------------------------------------------------ plumbing
    def next_seq(self):
        self.seq += 1
        return self.seq

    def fired(self, side, what):
        """A callback of `side`'s registry was invoked (user callback or the closure of a call())."""
        if self.ack_stack[side]:
            self.ack_stack[side][-1][4].append(what)
        else:
            self.tl[side].append(['stray', what])

    def _ns_of_sid(self, sid):
        for ns, s in self.client.namespaces.items():
            if s == sid:
                return ns
        return '<sid %r>' % (sid,)

    def _allow(self, direction):
        b = self.budget[direction]
        if b is None:
            return True
        if b > 0:
            self.budget[direction] = b - 1
            return True
        return False

    def _ready(self, direction):
        return bool(self.outq[direction] or self.inflight[direction]) and self.budget[direction] != 0

    def _inline_task(self, target, *args, **kwargs):
        target(*args, **kwargs)
        return _Task()

    def run_sync(self, coro):
        """Drive a coroutine that never really suspends (sync mode)."""
        try:
            coro.send(None)
        except StopIteration as e:
            return e.value
        raise RuntimeError('loopback coroutine tried to suspend in sync mode')

    def _record_json(self):
        if self.serializer != 'default':
            return
        loop = self

        def rec(direction, base):
            class RecJson:
                @staticmethod
                def dumps(*a, **k):
                    return base.json.dumps(*a, **k)

                @staticmethod
                def loads(s, *a, **k):
                    try:
                        r = base.json.loads(s, *a, **k)
                    except BaseException as e:
                        loop.jtab[direction].append((s, False, coqio.exn_name(e)))
                        raise
                    loop.jtab[direction].append((s, True, r))
                    return r
            return type('RecPacket', (base,), {'json': RecJson})
        self.sio.packet_class = rec('c2s', self.sio.packet_class)          # the server decodes c2s
        self.client.packet_class = rec('s2c', self.client.packet_class)    # the client decodes s2c

    def _wrap_internals(self):
        """Observation points inside socketio (instance-level wrappers, the code under test is
        untouched): the ack id of the event being dispatched and the ACK handed to a callback."""
        loop = self
        sio, client = self.sio, self.client
        s_internal = sio._handle_event_internal
        s_event = sio._handle_event
        s_ack = sio._handle_ack
        c_event = client._handle_event
        c_ack = client._handle_ack
        if self.is_async:
            async def s_event_w(eio_sid, namespace, id, data):
                loop.dispatched[_pyid(data)] = loop.next_seq()
                return await s_event(eio_sid, namespace, id, data)

            async def s_internal_w(server, sid, eio_sid, data, namespace, id):
                loop.cur_id['c2s'].append((id, loop.dispatched.pop(_pyid(data), None)))
                try:
                    return await s_internal(server, sid, eio_sid, data, namespace, id)
                finally:
                    loop.cur_id['c2s'].pop()

            async def s_ack_w(eio_sid, namespace, id, data):
                loop.rx['c2s'].append(('ack', namespace or '/', id, _args(data), loop.next_seq()))
                rec = ['ack', namespace or '/', id, _args(data), []]
                loop.tl['s2c'].append(rec)
                loop.ack_stack['s2c'].append(rec)
                try:
                    return await s_ack(eio_sid, namespace, id, data)
                finally:
                    loop.ack_stack['s2c'].pop()

            async def c_event_w(namespace, id, data):
                loop.cur_id['s2c'].append((id, loop.next_seq()))
                try:
                    return await c_event(namespace, id, data)
                finally:
                    loop.cur_id['s2c'].pop()

            async def c_ack_w(namespace, id, data):
                loop.rx['s2c'].append(('ack', namespace or '/', id, _args(data), loop.next_seq()))
                rec = ['ack', namespace or '/', id, _args(data), []]
                loop.tl['c2s'].append(rec)
                loop.ack_stack['c2s'].append(rec)
                try:
                    return await c_ack(namespace, id, data)
                finally:
                    loop.ack_stack['c2s'].pop()
        else:
            def s_event_w(eio_sid, namespace, id, data):
                loop.dispatched[_pyid(data)] = loop.next_seq()
                return s_event(eio_sid, namespace, id, data)

            def s_internal_w(server, sid, eio_sid, data, namespace, id):
                loop.cur_id['c2s'].append((id, loop.dispatched.pop(_pyid(data), None)))
                try:
                    return s_internal(server, sid, eio_sid, data, namespace, id)
                finally:
                    loop.cur_id['c2s'].pop()

            def s_ack_w(eio_sid, namespace, id, data):
                loop.rx['c2s'].append(('ack', namespace or '/', id, _args(data), loop.next_seq()))
                rec = ['ack', namespace or '/', id, _args(data), []]
                loop.tl['s2c'].append(rec)
                loop.ack_stack['s2c'].append(rec)
                try:
                    return s_ack(eio_sid, namespace, id, data)
                finally:
                    loop.ack_stack['s2c'].pop()

            def c_event_w(namespace, id, data):
                loop.cur_id['s2c'].append((id, loop.next_seq()))
                try:
                    return c_event(namespace, id, data)
                finally:
                    loop.cur_id['s2c'].pop()

            def c_ack_w(namespace, id, data):
                loop.rx['s2c'].append(('ack', namespace or '/', id, _args(data), loop.next_seq()))
                rec = ['ack', namespace or '/', id, _args(data), []]
                loop.tl['c2s'].append(rec)
                loop.ack_stack['c2s'].append(rec)
                try:
                    return c_ack(namespace, id, data)
                finally:
                    loop.ack_stack['c2s'].pop()
        sio._handle_event_internal = s_internal_w
        sio._handle_event = s_event_w
        sio._handle_ack = s_ack_w
        client._handle_event = c_event_w
        client._handle_ack = c_ack_w
        # ack ids drawn by the two senders: id_hook[d](id) is told as soon as the id exists
        self.id_hook = {'c2s': None, 's2c': None}
        c_gen = client._generate_ack_id
        m_gen = sio.manager._generate_ack_id

        def c_gen_w(namespace, callback):
            i = c_gen(namespace, callback)
            loop.tl['c2s'].append(['reg', loop.issuing, namespace or '/', i])
            if loop.id_hook['c2s']:
                loop.id_hook['c2s'](i)
            return i

        def m_gen_w(sid, callback):
            i = m_gen(sid, callback)
            loop.tl['s2c'].append(['reg', loop.issuing, loop._ns_of_sid(sid), i])
            if loop.id_hook['s2c']:
                loop.id_hook['s2c'](i)
            return i
        client._generate_ack_id = c_gen_w
        sio.manager._generate_ack_id = m_gen_w

    # ------------------------------------------------------------------ engine.io level
    async def server_open(self):
        loop = self
        base = self.sock_cls
        if self.is_async:
            class S(base):
                async def send(self, pkt):
                    r = await super().send(pkt)
                    await loop.server_sent()
                    return r
        else:
            class S(base):
                def send(self, pkt):
                    r = super().send(pkt)
                    loop.run_sync(loop.server_sent())
                    return r
        s = S(self.sio.eio, self.eio_sid)
        s.last_ping = None
        s.connected = True
        self.socket = s
        self.sio.eio.sockets[self.eio_sid] = s
        ctr = iter(range(1, 1000))
        self.sio.eio.generate_id = lambda: 'S%d' % next(ctr)
        await aw(self.sio.eio._trigger_event('connect', self.eio_sid, {'REQUEST_METHOD': 'GET'}, run_async=False))

    def _transport(self, pkts):
        """Real engine.io encoding + decoding of a list of engine.io packets."""
        out = []
        if self.b64:
            for k in range(0, len(pkts), 16):
                body = self.eio_payload.Payload(packets=pkts[k:k + 16]).encode()
                body = body.encode('utf-8').decode('utf-8')            # HTTP body
                out.extend(self.eio_payload.Payload(encoded_payload=body).packets)
        else:
            for p in pkts:
                out.append(self.eio_packet.Packet(encoded_packet=p.encode(b64=False)))
        return out

    async def client_send(self, data):
        self.wire['c2s'].append(data)
        self.outq['c2s'].append(self.eio_packet.Packet(self.eio_packet.MESSAGE, data))

    async def server_sent(self):
        # move what the server queued on the real Socket.queue into the outgoing batch
        q = self.socket.queue
        while not q.empty():
            p = q.get_nowait()
            q.task_done()
            if p is None:
                continue
            if p.packet_type == self.eio_packet.MESSAGE:
                self.wire['s2c'].append(p.data)
            self.outq['s2c'].append(p)

    def _refill(self, direction):
        """Queued packets -> through the real engine.io codec -> in flight (decoded, in order)."""
        pkts, self.outq[direction] = self.outq[direction], []
        groups = [pkts] if self.batch else [[p] for p in pkts]
        for g in groups:
            tp = self._transport(g)
            for i, p in enumerate(tp):
                self.inflight[direction].append((p, i == len(tp) - 1))

    async def _deliver_one(self, direction):
        p, last = self.inflight[direction].popleft()
        if direction == 'c2s':
            await self._to_server(p)
        else:
            await self._to_client(p)
        if last:
            await self.settle()

    async def deliver_more(self, direction, n):
        """Nested delivery: hand the next n frames of `direction` to the receiver NOW, from inside a
        handler that is still running (engine.io dispatches each message in a task / thread of its
        own, so the next message can reach socketio before the previous handler has returned)."""
        for _ in range(n):
            if not self.inflight[direction]:
                if not self.outq[direction]:
                    return
                self._refill(direction)
            if not self._allow(direction):
                return
            self.nested_deliveries += 1
            await self._deliver_one(direction)

    async def pump(self):
        """Deliver everything that is queued, and everything that is queued in reaction, FIFO per
        direction, until both queues are empty and (asyncio) every task has run."""
        if self.pumping:
            return
        self.pumping = True
        try:
            for _ in range(10000):
                busy = False
                for direction in (self.first, 's2c' if self.first == 'c2s' else 'c2s'):
                    if not self._ready(direction):
                        continue                # nothing to deliver, or held back (budget used up)
                    busy = True
                    if self.outq[direction]:
                        self._refill(direction)
                    while self.inflight[direction] and self._allow(direction):
                        await self._deliver_one(direction)
                await self.settle()
                if not busy and not self._ready('c2s') and not self._ready('s2c'):
                    return
            self.escaped.append(('loop', 'OtherError', 'pump did not terminate'))
        finally:
            self.pumping = False

    async def _to_server(self, pkt):
        # engine.io's own containment logs and swallows exceptions: make them visible
        eio = self.sio.eio
        logger = eio.logger
        loop = self

        class Spy:
            def __getattr__(self, name):
                return getattr(logger, name)

            def exception(self, msg, *a, **k):
                import sys
                loop.escaped.append(('c2s', coqio.exn_name(sys.exc_info()[1]), repr(sys.exc_info()[1])[:200]))
        eio.logger = Spy()
        try:
            await aw(self.socket.receive(pkt))
        except BaseException as e:      # noqa: B902
            self.escaped.append(('c2s', coqio.exn_name(e), repr(e)[:200]))
        finally:
            eio.logger = logger

    async def _to_client(self, pkt):
        if pkt.packet_type != self.eio_packet.MESSAGE:
            return
        try:
            await aw(self.eio.handlers['message'](pkt.data))
        except BaseException as e:      # noqa: B902
            self.escaped.append(('s2c', coqio.exn_name(e), repr(e)[:200]))

    async def settle(self):
        if not self.is_async:
            return
        me = asyncio.current_task()
        for _ in range(200):
            await asyncio.sleep(0)
            if all(t is me or t.done() for t in asyncio.all_tasks()):
                return
        self.escaped.append(('loop', 'OtherError', 'tasks did not settle'))

    # ------------------------------------------------------------------ application level
    def on_server(self, event, namespace, fn):
        """fn(direction, ns, event, args, id) is called when the handler is ENTERED and returns
        (nest, finish): `finish()` gives the handler's return value when it returns; `nest` (client
        side only) = number of further server->client frames to deliver while this handler is still
        running.  event '*' = catch-all."""
        loop = self

        def body(args):
            if event == '*':
                ev, args = args[0], args[1:]
            else:
                ev = event
            sid, args = (args[0], args[1:]) if args else (None, args)
            if sid != loop.client.namespaces.get(namespace):
                args = ('<wrong sid %r>' % (sid,),) + tuple(args)
            cid, seq = loop.cur_id['c2s'][-1] if loop.cur_id['c2s'] else ('no-dispatch', None)
            loop.rx['c2s'].append(('ev', namespace, ev, list(args), cid, seq))
            _, finish = fn('c2s', namespace, ev, list(args), cid)
            return finish()
        if self.coro_handlers:
            async def h(*args):
                return body(args)
        else:
            def h(*args):
                return body(args)
        self.sio.on(event, h, namespace=namespace)

    def on_client(self, event, namespace, fn):
        loop = self

        def enter(args):
            if event == '*':
                ev, args = args[0], args[1:]
            else:
                ev = event
            cid, seq = loop.cur_id['s2c'][-1] if loop.cur_id['s2c'] else ('no-dispatch', None)
            loop.rx['s2c'].append(('ev', namespace, ev, list(args), cid, seq))
            return fn('s2c', namespace, ev, list(args), cid)
        if self.coro_handlers:
            async def h(*args):
                nest, finish = enter(args)
                if nest:
                    await loop.deliver_more('s2c', nest)
                return finish()
        else:
            def h(*args):
                nest, finish = enter(args)
                if nest:
                    loop.run_sync(loop.deliver_more('s2c', nest))
                return finish()
        self.client.on(event, h, namespace=namespace)

    async def connect(self, namespaces):
        await aw(self.client.connect('http://loopback', namespaces=list(namespaces), wait=True, wait_timeout=1))
        await self.settle()
        return dict(self.client.namespaces)

    def server_sid(self, namespace):
        return self.client.namespaces[namespace]

    async def api(self, fn, *a, _flush=True, _after=None, **k):
        """Run one application API call (emit/send/call on either side); returns ('ok', value)
        or ('raise', exception name).  With _flush=False what the call queued stays queued
        (until the next pump).  _after(result) runs when the call has returned, before the flush."""
        try:
            r = await aw(fn(*a, **k))
            res = ('ok', r)
        except BaseException as e:      # noqa: B902
            res = ('raise', coqio.exn_name(e), repr(e)[:200])
        if _after is not None:
            _after(res)
        if _flush:
            await self.pump()
        return res


def _args(data):
    try:
        return list(data)
    except TypeError:
        return ['<not iterable %r>' % (data,)]
