"""A scripted fake of the `redis` package (sync and asyncio flavours) for C15.

Must be installed (install()) BEFORE socketio.redis_manager / socketio.async_redis_manager are
imported; if they were imported already their module globals are rebound.  Every library
call made by the managers takes the next outcome of the current script:
('ok',) ('yield', message) ('stop',) ('redis',) ('other', exn_name).  When the script is
exhausted ScriptEnd (a BaseException) cuts the run.  time.sleep / asyncio.sleep are replaced
inside the two manager modules by recorders: no wall-clock time passes."""
import sys
import types


class ScriptEnd(BaseException):
    pass


class RedisError(Exception):
    pass


class ServerAway(RedisError):          # stands for redis.exceptions.ConnectionError
    pass


class Boom(Exception):
    pass


OTHER = {'RuntimeError': RuntimeError, 'ValueError': ValueError, 'KeyError': KeyError,
         'TypeError': TypeError, 'OtherError': Boom}


class Control:
    def __init__(self):
        self.script = None      # None: set-up mode, every call succeeds silently
        self.trace = []

    def begin(self, script):
        self.script = list(script)
        self.trace = []

    def end(self):
        self.script = None

    def pop(self):
        if self.script is None:
            return ('ok',)
        if not self.script:
            raise ScriptEnd()
        return self.script.pop(0)

    def call(self, event):
        """A library call that either succeeds (recording `event`) or raises."""
        o = self.pop()
        if o[0] == 'redis':
            raise ServerAway("scripted")
        if o[0] == 'other':
            raise OTHER[o[1]]('scripted')
        if self.script is not None and event is not None:
            self.trace.append(event)
        return o

    def note(self, event):
        if self.script is not None:
            self.trace.append(event)


CTL = Control()


class PubSub:
    def subscribe(self, *channels):
        CTL.call(('subscribe',))

    def unsubscribe(self, *channels):
        pass

    def listen(self):
        CTL.note(('listen',))
        return self._gen()

    def _gen(self):
        while True:
            o = CTL.call(None)
            if o[0] == 'yield':
                yield o[1]
            else:
                return


class Redis:
    @classmethod
    def from_url(cls, url, **options):
        CTL.call(('connect',))
        return cls()

    def pubsub(self, **kw):
        return PubSub()

    def publish(self, channel, data):
        CTL.call(('publish',))
        return 1


class AsyncPubSub:
    async def subscribe(self, *channels):
        CTL.call(('subscribe',))

    async def unsubscribe(self, *channels):
        pass

    def listen(self):
        CTL.note(('listen',))
        return self._gen()

    async def _gen(self):
        while True:
            o = CTL.call(None)
            if o[0] == 'yield':
                yield o[1]
            else:
                return


class AsyncRedis:
    @classmethod
    def from_url(cls, url, **options):
        CTL.call(('connect',))
        return cls()

    def pubsub(self, **kw):
        return AsyncPubSub()

    async def publish(self, channel, data):
        CTL.call(('publish',))
        return 1


class FakeTime:
    @staticmethod
    def sleep(d):
        CTL.note(('sleep', d))


class FakeAsyncio:
    @staticmethod
    async def sleep(d):
        CTL.note(('sleep', d))


def install():
    """Put the fake package in sys.modules and make sure the two manager modules use it."""
    redis = types.ModuleType('redis')
    exceptions = types.ModuleType('redis.exceptions')
    aio = types.ModuleType('redis.asyncio')
    exceptions.RedisError = RedisError
    exceptions.ConnectionError = ServerAway
    redis.exceptions = exceptions
    redis.RedisError = RedisError
    redis.Redis = Redis
    redis.asyncio = aio
    aio.Redis = AsyncRedis
    redis.__fake__ = True
    for name in ('redis', 'redis.exceptions', 'redis.asyncio'):
        sys.modules.pop(name, None)
    sys.modules['redis'] = redis
    sys.modules['redis.exceptions'] = exceptions
    sys.modules['redis.asyncio'] = aio
    from socketio import redis_manager, async_redis_manager
    redis_manager.redis = redis
    async_redis_manager.aioredis = aio
    async_redis_manager.RedisError = RedisError
    redis_manager.time = FakeTime
    async_redis_manager.asyncio = FakeAsyncio
    return redis_manager, async_redis_manager
