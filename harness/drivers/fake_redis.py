"""A scripted fake of the `redis` package (sync and asyncio flavours) for C15.

Must be installed (install()) BEFORE socketio.redis_manager / socketio.async_redis_manager are
imported; if they were imported already their module globals are rebound.  Every library
call made by the managers takes the next outcome of the current script:
('ok',) ('yield', message) ('stop',) ('redis',) ('other', exn_name).  When the script is
exhausted ScriptEnd (a BaseException) cuts the run.  time.sleep / asyncio.sleep are replaced
inside the two manager modules by recorders: no wall-clock time passes."""
import asyncio
import gc
import sys
import types


class ScriptEnd(BaseException):
    pass


class RedisError(Exception):
    pass


class ServerAway(RedisError):          # stands for redis.exceptions.ConnectionError
    pass


class Boom(Exception):
    pass


OTHER = {'RuntimeError': RuntimeError, 'ValueError': ValueError, 'KeyError': KeyError,
         'TypeError': TypeError, 'OtherError': Boom}


class Control:
    def __init__(self):
        self.script = None      # None: set-up mode, every call succeeds silently
        self.trace = []

    def begin(self, script):
        self.script = list(script)
        self.trace = []

    def end(self):
        self.script = None

    def pop(self):
        if self.script is None:
            return ('ok',)
        if not self.script:
            raise ScriptEnd()
        return self.script.pop(0)

    def call(self, event):
        """A library call that either succeeds (recording `event`) or raises."""
        o = self.pop()
        if o[0] == 'redis':
            raise ServerAway("scripted")
        if o[0] == 'other':
            raise OTHER[o[1]]('scripted')
        if self.script is not None and event is not None:
            self.trace.append(event)
        return o

    def note(self, event):
        if self.script is not None:
            self.trace.append(event)


CTL = Control()


class Broker:
    """Broker mode (used to run the REAL RedisManager._thread): a queue of channel messages that a
    pubsub object receives only while the channel is subscribed ON THAT OBJECT (subscriptions are a
    set, as in Redis: subscribe twice + unsubscribe once = not subscribed).  Queue entries:
    ('msg', data, on_deliver) or ('err',) = the connection drops (RedisError out of listen()).
    Events: ('sub',) ('unsub',) ('connect',) ('deliver', k) ('lost', k)."""

    def __init__(self, queue):
        self.queue = list(queue)
        self.events = []
        self.k = 0
        self.ended = False      # queue exhausted: what follows is the tear-down of the run, not observed

    def next(self, pubsub, channel):
        """What the next step of listen() does: a message dict, or raises."""
        while True:
            if not self.queue:
                self.ended = True
                raise ScriptEnd()
            head = self.queue.pop(0)
            if head[0] == 'err':
                raise ServerAway('connection lost')
            k = self.k
            self.k += 1
            if channel not in pubsub.channels:
                self.events.append(('lost', k))      # nobody is subscribed: the broker drops it
                continue
            self.events.append(('deliver', k))
            if head[2] is not None:
                head[2]()
            return {'type': 'message', 'pattern': None, 'channel': channel.encode('utf-8'), 'data': head[1]}


BROKER = None       # set by the driver while a _thread run is in progress


def set_broker(b):
    global BROKER
    BROKER = b


class PubSub:
    def __init__(self):
        self.channels = set()

    def subscribe(self, *channels):
        if BROKER is not None:
            self.channels.update(channels)
            if not BROKER.ended:
                BROKER.events.append(('sub',))
            return
        CTL.call(('subscribe',))

    def unsubscribe(self, *channels):
        if BROKER is not None:
            self.channels.difference_update(channels)
            if not BROKER.ended:
                BROKER.events.append(('unsub',))

    def listen(self):
        if BROKER is not None:
            return self._broker_gen()
        CTL.note(('listen',))
        return self._gen()

    def _broker_gen(self):
        while True:
            yield BROKER.next(self, 'socketio')

    def _gen(self):
        while True:
            o = CTL.call(None)
            if o[0] == 'yield':
                yield o[1]
            else:
                return


class Redis:
    @classmethod
    def from_url(cls, url, **options):
        if BROKER is not None:
            BROKER.events.append(('connect',))
            return cls()
        CTL.call(('connect',))
        return cls()

    def pubsub(self, **kw):
        return PubSub()

    def publish(self, channel, data):
        CTL.call(('publish',))
        return 1


class AsyncPubSub:
    def __init__(self):
        self.channels = set()

    async def subscribe(self, *channels):
        if BROKER is not None:
            self.channels.update(channels)
            if not BROKER.ended:
                BROKER.events.append(('sub',))
            return
        CTL.call(('subscribe',))

    async def unsubscribe(self, *channels):
        if BROKER is not None:
            self.channels.difference_update(channels)
            if not BROKER.ended:
                BROKER.events.append(('unsub',))

    def listen(self):
        if BROKER is not None:
            return self._broker_gen()
        CTL.note(('listen',))
        return self._gen()

    async def _broker_gen(self):
        # a (re)started listener: give the event loop the turns a real program has, so that an
        # abandoned async generator (the previous _listen()) is finalised before messages flow
        for _ in range(3):
            await asyncio.sleep(0)
        gc.collect()
        for _ in range(3):
            await asyncio.sleep(0)
        while True:
            await asyncio.sleep(0)
            yield BROKER.next(self, 'socketio')

    async def _gen(self):
        while True:
            o = CTL.call(None)
            if o[0] == 'yield':
                yield o[1]
            else:
                return


class AsyncRedis:
    @classmethod
    def from_url(cls, url, **options):
        if BROKER is not None:
            BROKER.events.append(('connect',))
            return cls()
        CTL.call(('connect',))
        return cls()

    def pubsub(self, **kw):
        return AsyncPubSub()

    async def publish(self, channel, data):
        CTL.call(('publish',))
        return 1


class FakeTime:
    @staticmethod
    def sleep(d):
        CTL.note(('sleep', d))


class FakeAsyncio:
    @staticmethod
    async def sleep(d):
        CTL.note(('sleep', d))


def install():
    """Put the fake package in sys.modules and make sure the two manager modules use it."""
    redis = types.ModuleType('redis')
    exceptions = types.ModuleType('redis.exceptions')
    aio = types.ModuleType('redis.asyncio')
    exceptions.RedisError = RedisError
    exceptions.ConnectionError = ServerAway
    redis.exceptions = exceptions
    redis.RedisError = RedisError
    redis.Redis = Redis
    redis.asyncio = aio
    aio.Redis = AsyncRedis
    redis.__fake__ = True
    for name in ('redis', 'redis.exceptions', 'redis.asyncio'):
        sys.modules.pop(name, None)
    sys.modules['redis'] = redis
    sys.modules['redis.exceptions'] = exceptions
    sys.modules['redis.asyncio'] = aio
    from socketio import redis_manager, async_redis_manager
    redis_manager.redis = redis
    async_redis_manager.aioredis = aio
    async_redis_manager.RedisError = RedisError
    redis_manager.time = FakeTime
    async_redis_manager.asyncio = FakeAsyncio
    return redis_manager, async_redis_manager
