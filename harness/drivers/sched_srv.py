"""Deterministic schedulers for the TERMINATING paths of the REAL socketio.Server (threads,
property C20) and socketio.AsyncServer (asyncio, the interleaving part of C04).

Nothing of the classes under test is re-implemented: `disconnect()`, `_handle_eio_message`,
`_handle_disconnect`, `_handle_eio_disconnect` and the client manager are the code of the
repository, driven over real engine.io Socket / AsyncSocket objects built by hand (no HTTP),
exactly as drivers/srv.py does.  What is added from outside (no hook in /repo):

* every access the terminating paths make to shared state is wrapped ON THE INSTANCE:
  manager.get_namespaces / sid_from_eio_sid / is_connected (can_disconnect reaches it) /
  pre_disconnect / disconnect, eio.send, the scripted disconnect handler, `server.environ`
  (a dict subclass) and, threaded server, `server._disconnect_lock` (ILock: acquire is a
  scheduling point, a thread waiting for a held lock is not enabled).  A wrapper logs one label per access (vocabulary `lbl` of
  coq/Conc/ServerConc.v).
* threads: before the access the wrapper hands a baton to the controller (semaphores), so that
  exactly one thread runs between two scheduling points and a run is a function of its
  schedule.
* asyncio: every cause runs as a real asyncio task on a private loop; the coroutine of the task
  is driven by a trampoline which parks the task on a gate (a Future the controller releases)
  at the start, in front of every fake send and every scripted coroutine handler, and ALSO at
  any other point where the code really suspends (such a suspension is not in the model: it is
  logged as ('Other', 1) and becomes a scheduling point, which is how "is_connected +
  pre_disconnect do not suspend" is a checked assumption and not a belief).  The controller
  releases one gate, lets the loop run to quiescence (`for _ in range(50): await
  asyncio.sleep(0)`), collects the labels, and chooses again.

A schedule is a list of task indices; a finished / unknown task is a no-op.  Every run is
replayable from (scenario, schedule).

Scenario = dict(setup=[('connect', eio, ns) | ('enter', sid, ns, room) | ('ack', sid, ns)],
                raising=[sid, ...], causes=[('api', sid, ns) | ('apiq', sid, ns) | ('client', eio, ns) | ('loss', eio, reason)])
('apiq' = the same call with ignore_queue=True; the unlocked pre-check then goes through
manager.is_connected directly instead of manager.can_disconnect -> is_connected: same wrapped access,
same 'Check' label.)
Session ids are S0, S1, ... in the order of the ('connect', ...) entries.
"""
import asyncio
import itertools
import logging
import threading
import types

from vt import common  # noqa: F401  (sets sys.path to the repository under test)
from vt.coqio import exn_name

_null = logging.getLogger('verif.null.c20')
_null.addHandler(logging.NullHandler())
_null.propagate = False
_null.setLevel(logging.CRITICAL + 1)

MAX_LABELS_PER_STEP = 200


class Abort(BaseException):
    """Unwinds a managed thread at the end of a partial run."""


class RunResult:
    def __init__(self):
        self.schedule = []      # choices taken
        self.trace = []         # labels of each choice
        self.enabled = []       # enabled tasks before each choice
        self.initial = None     # dump after the setup
        self.final = None       # dump at the end
        self.alldone = None
        self.error = None       # harness-level problem


def disc_frame(ns):
    return '1' if ns == '/' else '1' + ns + ','


def dump(sio):
    m = sio.manager
    return {
        'rooms': [(ns, [(room, list(bd.items())) for room, bd in rm.items()]) for ns, rm in m.rooms.items()],
        'pending': [(ns, list(l)) for ns, l in m.pending_disconnect.items()],
        'callbacks': list(m.callbacks.keys()),
        'environ': list(dict.keys(sio.environ)),
    }


# --------------------------------------------------------------------------------------
# instrumentation shared by both drivers
# --------------------------------------------------------------------------------------
class IEnviron(dict):
    """server.environ: the membership test is the access (the deletion belongs to it)."""

    def __init__(self, ctl, items):
        super().__init__(items)
        self._ctl = ctl

    def __contains__(self, k):
        self._ctl.point(('env', k))
        r = dict.__contains__(self, k)
        self._ctl.log(('Env', k, r))
        return r


class ILock:
    """Stands for server._disconnect_lock (a threading.Lock) under the baton scheduler: the
    acquire is a scheduling point, a thread that wants the lock is NOT ENABLED while another one
    holds it (the controller never resumes it then), so nothing ever blocks for real.
    A NON-BLOCKING (or timed) acquire is a scheduling point at which the thread stays enabled:
    resumed while another thread holds the lock it gets False and goes on without the lock
    (label ('Other', 2): an access the model does not have); `locked()` is a scheduling point
    too (label ('Other', 3))."""

    def __init__(self, ctl):
        self._ctl = ctl
        self.holder = None

    def _try_acquire(self, t):
        self._ctl.point(('tryacquire',))
        if self.holder is not None:
            self._ctl.log(('Other', 2))
            return False
        self.holder = t
        self._ctl.log(('Acquire',))
        return True

    def acquire(self, blocking=True, timeout=-1):
        t = self._ctl.cur()
        if t is None:                   # setup code on the main thread
            return True
        if not blocking or (timeout is not None and timeout >= 0):
            return self._try_acquire(t)
        t.wants = self
        try:
            self._ctl.point(('acquire',))
        finally:
            t.wants = None
        if self.holder is not None:
            raise RuntimeError('the scheduler resumed a thread that waits for a held lock')
        self.holder = t
        self._ctl.log(('Acquire',))
        return True

    def release(self):
        if self._ctl.cur() is not None:
            if self.holder is None:
                raise RuntimeError('release unlocked lock')
            self.holder = None

    def locked(self):
        if self._ctl.cur() is not None:
            self._ctl.point(('locked',))
            self._ctl.log(('Other', 3))
        return self.holder is not None

    def __enter__(self):
        self.acquire()
        return self

    def __exit__(self, *exc):
        self.release()


def instrument_manager(ctl, sio, is_async):
    m = sio.manager
    o_ns, o_lookup, o_conn = m.get_namespaces, m.sid_from_eio_sid, m.is_connected
    o_pre, o_disc = m.pre_disconnect, m.disconnect

    def get_namespaces():
        ctl.point(('namespaces',))
        r = list(o_ns())
        ctl.log(('Namespaces', list(r)))
        return r

    def sid_from_eio_sid(eio_sid, namespace):
        ctl.point(('lookup', eio_sid, namespace))
        r = o_lookup(eio_sid, namespace)
        ctl.log(('Lookup', eio_sid, namespace, r))
        return r

    def is_connected(sid, namespace):
        ctl.point(('check', sid, namespace))
        r = o_conn(sid, namespace)
        ctl.log(('Check', sid, namespace, r))
        return r

    def pre_disconnect(sid, namespace):
        ctl.point(('mark', sid, namespace))
        try:
            r = o_pre(sid, namespace)
        except BaseException as e:
            ctl.log(('Mark', sid, namespace, ('err', exn_name(e))))
            raise
        ctl.log(('Mark', sid, namespace, ('ok', r)))
        return r

    m.get_namespaces = get_namespaces
    m.sid_from_eio_sid = sid_from_eio_sid
    m.is_connected = is_connected
    m.pre_disconnect = pre_disconnect
    if is_async:
        async def disconnect(sid, namespace, **kwargs):
            ctl.point(('disc', sid, namespace))
            try:
                return await o_disc(sid, namespace, **kwargs)
            finally:
                ctl.log(('Disc', sid, namespace))
    else:
        def disconnect(sid, namespace, **kwargs):
            ctl.point(('disc', sid, namespace))
            try:
                return o_disc(sid, namespace, **kwargs)
            finally:
                ctl.log(('Disc', sid, namespace))
    m.disconnect = disconnect


def make_server(scenario, is_async):
    """The real server after the scenario's setup; returns (sio, sockets, namespaces)."""
    import socketio
    import engineio
    kw = dict(async_handlers=False, namespaces='*', logger=_null, engineio_logger=_null,
              monitor_clients=False)
    if is_async:
        sio = socketio.AsyncServer(async_mode='asgi', **kw)
        sock_cls = engineio.async_socket.AsyncSocket
    else:
        sio = socketio.Server(async_mode='threading', **kw)
        sock_cls = engineio.socket.Socket
    ctr = itertools.count()
    sio.eio.generate_id = lambda: 'S%d' % next(ctr)
    return sio, sock_cls


def _new_socket(sio, sock_cls, eio):
    s = sock_cls(sio.eio, eio)
    s.last_ping = None
    s.connected = True
    sio.eio.sockets[eio] = s
    return s


def _namespaces(scenario):
    out = []
    for op in scenario['setup']:
        if op[0] == 'connect' and op[2] not in out:
            out.append(op[2])
    for c in scenario['causes']:
        if c[0] in ('api', 'apiq', 'client') and c[2] not in out:
            out.append(c[2])
    return out


# --------------------------------------------------------------------------------------
# thread driver
# --------------------------------------------------------------------------------------
class _TTask:
    def __init__(self, name):
        self.name = name
        self.sem = threading.Semaphore(0)
        self.state = 'new'          # ready | done
        self.wants = None           # the ILock this thread is parked in front of
        self.thread = None
        self.error = None


class ThreadCtl:
    def __init__(self):
        self.by_ident = {}
        self.ctl_sem = threading.Semaphore(0)
        self.labels = []
        self.abort = False
        self.tasks = []
        self.spin = False

    def cur(self):
        return self.by_ident.get(threading.get_ident())

    def point(self, desc):
        t = self.cur()
        if t is None:
            return
        self.ctl_sem.release()
        t.sem.acquire()
        if self.abort:
            raise Abort()

    def log(self, label):
        if self.cur() is not None:
            self.labels.append(label)
            if len(self.labels) > MAX_LABELS_PER_STEP:
                self.spin = True
                raise Abort()

    def spawn(self, name, fn):
        t = _TTask(name)

        def body():
            self.by_ident[threading.get_ident()] = t
            t.sem.acquire()
            try:
                if self.abort:
                    raise Abort()
                t.state = 'ready'
                # the task is parked once more in front of its first access by that access
                fn()
            except Abort:
                pass
            except BaseException as e:       # a crash of the harness code around the call
                t.error = e
            finally:
                t.state = 'done'
                self.by_ident.pop(threading.get_ident(), None)
                self.ctl_sem.release()
        t.thread = threading.Thread(target=body, daemon=True, name='c20-' + name)
        t.thread.start()
        self.tasks.append(t)
        return t

    def resume(self, t):
        self.labels = []
        t.sem.release()
        self.ctl_sem.acquire()
        return self.labels

    def shutdown(self):
        self.abort = True
        for t in self.tasks:
            if t.state != 'done':
                t.sem.release()
        for t in self.tasks:
            t.thread.join(5)
        alive = [t.name for t in self.tasks if t.thread.is_alive()]
        if alive:
            raise RuntimeError('threads left running: %s' % alive)


def run_threads(scenario, sched, extend=None, max_steps=400):
    """Run the real threaded Server under the baton scheduler."""
    from engineio import packet as eio_packet
    res = RunResult()
    ctl = ThreadCtl()
    sio, sock_cls = make_server(scenario, False)
    raising = set(scenario.get('raising', ()))

    def make_handler(ns):
        def on_disconnect(sid, reason):
            ctl.point(('handler', sid, ns))
            ctl.log(('Handler', sid, ns, reason))
            if sid in raising:
                raise RuntimeError('scripted')
        return on_disconnect
    for ns in _namespaces(scenario):
        sio.on('disconnect', make_handler(ns), namespace=ns)

    sockets = {}
    for op in scenario['setup']:
        if op[0] == 'connect':
            _, eio, ns = op
            if eio not in sockets:
                sockets[eio] = _new_socket(sio, sock_cls, eio)
                sio.eio._trigger_event('connect', eio, {'eio': eio}, run_async=False)
            sockets[eio].receive(eio_packet.Packet(eio_packet.MESSAGE, '0' if ns == '/' else '0' + ns + ','))
        elif op[0] == 'enter':
            sio.enter_room(op[1], op[3], namespace=op[2])
        elif op[0] == 'ack':
            sio.emit('ev', 1, to=op[1], namespace=op[2], callback=lambda *a: None)
        else:
            raise ValueError(op)
    for s in sockets.values():       # forget what the setup queued for the clients
        while not s.queue.empty():
            s.queue.get_nowait()
    res.initial = dump(sio)

    # instrument
    instrument_manager(ctl, sio, False)
    sio.environ = IEnviron(ctl, sio.environ)
    if hasattr(sio, '_disconnect_lock'):
        sio._disconnect_lock = ILock(ctl)
    o_send = sio.eio.send

    def send(eio_sid, data):
        ctl.point(('send', eio_sid))
        ctl.log(('Send', eio_sid, data))
        return o_send(eio_sid, data)
    sio.eio.send = send
    for ev in ('message', 'disconnect'):
        def make(orig):
            def recorded(*a):
                try:
                    return orig(*a)
                except Abort:
                    raise
                except BaseException as e:
                    ctl.log(('Raise', exn_name(e)))
                    raise           # engine.io logs and swallows it
            return recorded
        sio.eio.handlers[ev] = make(sio.eio.handlers[ev])

    def body(c):
        if c[0] in ('api', 'apiq'):     # 'apiq' = disconnect(sid, namespace, ignore_queue=True)
            def f():
                try:
                    sio.disconnect(c[1], namespace=c[2], ignore_queue=(c[0] == 'apiq'))
                except Abort:
                    raise
                except BaseException as e:
                    ctl.log(('Raise', exn_name(e)))
        elif c[0] == 'client':
            def f():
                sockets[c[1]].receive(eio_packet.Packet(eio_packet.MESSAGE, disc_frame(c[2])))
        elif c[0] == 'loss':
            def f():
                sockets[c[1]].close(wait=False, abort=True, reason=c[2])
                sio.eio.sockets.pop(c[1], None)
        else:
            raise ValueError(c)
        return f

    try:
        tasks = [ctl.spawn('task%d' % i, body(c)) for i, c in enumerate(scenario['causes'])]
        for t in tasks:                 # run every task up to its first access
            first = ctl.resume(t)
            if first:
                res.error = 'task %s performed accesses before its first scheduling point: %r' % (t.name, first)
        fixed = list(sched)
        k = 0
        while k < max_steps:
            en = [i for i, t in enumerate(tasks)
                  if t.state != 'done' and not (t.wants is not None and t.wants.holder is not None)]
            if k < len(fixed):
                ch = fixed[k]
            elif extend is not None and en:
                ch = extend(en)
                if ch is None:
                    break
            else:
                if extend is not None and any(t.state != 'done' for t in tasks):
                    res.error = res.error or 'deadlock: every unfinished thread waits for a lock'
                break
            res.enabled.append(en)
            res.schedule.append(ch)
            res.trace.append(ctl.resume(tasks[ch]) if ch in en else [])
            k += 1
        else:
            res.error = res.error or 'step bound exceeded'
        if ctl.spin:
            res.error = res.error or 'a task performs an unbounded number of accesses'
        res.alldone = all(t.state == 'done' for t in tasks)
        res.final = dump(sio)
        for t in tasks:
            if t.error is not None and res.error is None:
                res.error = 'task %s crashed: %r' % (t.name, t.error)
    finally:
        ctl.shutdown()
    return res


# --------------------------------------------------------------------------------------
# asyncio driver
# --------------------------------------------------------------------------------------
class _ATask:
    def __init__(self, name):
        self.name = name
        self.gate = None
        self.done = False
        self.task = None


class AsyncCtl:
    def __init__(self):
        self.labels = []
        self.active = False
        self.spin = False
        self.current = None

    def cur(self):
        return self.current if self.active else None

    def point(self, desc):
        pass

    def log(self, label):
        if self.active:
            self.labels.append(label)
            if len(self.labels) > MAX_LABELS_PER_STEP:
                self.spin = True
                raise Abort()


class _Gate:
    """What a gated fake awaits: the trampoline turns it into a Future of the controller."""
    __slots__ = ()

    def __await__(self):
        yield self


GATE = _Gate()


async def _run_async(scenario, sched, extend, max_steps):
    from engineio import packet as eio_packet
    res = RunResult()
    ctl = AsyncCtl()
    loop = asyncio.get_running_loop()
    sio, sock_cls = make_server(scenario, True)
    raising = set(scenario.get('raising', ()))

    def make_handler(ns):
        async def on_disconnect(sid, reason):
            await GATE
            ctl.log(('Handler', sid, ns, reason))
            if sid in raising:
                raise RuntimeError('scripted')
        return on_disconnect
    for ns in _namespaces(scenario):
        sio.on('disconnect', make_handler(ns), namespace=ns)

    sockets = {}
    for op in scenario['setup']:
        if op[0] == 'connect':
            _, eio, ns = op
            if eio not in sockets:
                sockets[eio] = _new_socket(sio, sock_cls, eio)
                await sio.eio._trigger_event('connect', eio, {'eio': eio}, run_async=False)
            await sockets[eio].receive(eio_packet.Packet(eio_packet.MESSAGE, '0' if ns == '/' else '0' + ns + ','))
        elif op[0] == 'enter':
            await sio.enter_room(op[1], op[3], namespace=op[2])
        elif op[0] == 'ack':
            await sio.emit('ev', 1, to=op[1], namespace=op[2], callback=lambda *a: None)
        else:
            raise ValueError(op)
    for s in sockets.values():
        while not s.queue.empty():
            s.queue.get_nowait()
    res.initial = dump(sio)

    instrument_manager(ctl, sio, True)
    sio.environ = IEnviron(ctl, sio.environ)

    async def send(eio_sid, data):
        await GATE
        ctl.log(('Send', eio_sid, data))
        # the packet is dropped here: the queue of a hand-made socket is never read
    sio.eio.send = send
    for ev in ('message', 'disconnect'):
        def make(orig):
            async def recorded(*a):
                try:
                    return await orig(*a)
                except Abort:
                    raise
                except BaseException as e:
                    ctl.log(('Raise', exn_name(e)))
                    raise
            return recorded
        sio.eio.handlers[ev] = make(sio.eio.handlers[ev])

    def cause_coro(c):
        if c[0] in ('api', 'apiq'):     # 'apiq' = disconnect(sid, namespace, ignore_queue=True)
            async def f():
                try:
                    await sio.disconnect(c[1], namespace=c[2], ignore_queue=(c[0] == 'apiq'))
                except Abort:
                    raise
                except BaseException as e:
                    ctl.log(('Raise', exn_name(e)))
        elif c[0] == 'client':
            async def f():
                await sockets[c[1]].receive(eio_packet.Packet(eio_packet.MESSAGE, disc_frame(c[2])))
        elif c[0] == 'loss':
            async def f():
                await sockets[c[1]].close(wait=False, abort=True, reason=c[2])
                sio.eio.sockets.pop(c[1], None)
        else:
            raise ValueError(c)
        return f()

    tasks = [_ATask('task%d' % i) for i in range(len(scenario['causes']))]

    @types.coroutine
    def trampoline(at, coro):
        """Drive `coro`; park on a controller gate at the start, at every GATE and at every
        other real suspension."""
        at.gate = loop.create_future()
        yield from at.gate.__await__()
        val, exc = None, None
        try:
            while True:
                try:
                    y = coro.throw(exc) if exc is not None else coro.send(val)
                except StopIteration:
                    return
                val, exc = None, None
                if y is not GATE:
                    ctl.log(('Other', 1))       # a suspension the model does not know
                at.gate = loop.create_future()
                yield from at.gate.__await__()
                if y is not GATE and y is not None:
                    try:                        # a foreign future: wait for it as the loop would
                        val = yield y
                    except BaseException as e:
                        exc = e
        finally:
            at.gate = None
            at.done = True

    async def drain(at):
        for _ in range(50):
            await asyncio.sleep(0)
            if at.done or (at.gate is not None and not at.gate.done()):
                return True
        return False

    try:
        ctl.active = True
        for at, c in zip(tasks, scenario['causes']):
            at.task = loop.create_task(_as_coroutine(trampoline(at, cause_coro(c))))
        for _ in range(3):
            await asyncio.sleep(0)
        ctl.labels = []
        fixed = list(sched)
        k = 0
        while k < max_steps and res.error is None:
            en = [i for i, t in enumerate(tasks) if not t.done]
            if k < len(fixed):
                ch = fixed[k]
            elif extend is not None and en:
                ch = extend(en)
                if ch is None:
                    break
            else:
                break
            res.enabled.append(en)
            res.schedule.append(ch)
            ctl.labels = []
            if ch in en:
                at = tasks[ch]
                ctl.current = at
                at.gate.set_result(None)
                if not await drain(at):
                    res.error = 'task %d did not reach a gate within 50 loop iterations' % ch
                ctl.current = None
            res.trace.append(ctl.labels)
            k += 1
        if k >= max_steps:
            res.error = res.error or 'step bound exceeded'
        if ctl.spin:
            res.error = res.error or 'a task performs an unbounded number of accesses'
        res.alldone = all(t.done for t in tasks)
        res.final = dump(sio)
    finally:
        ctl.active = False
        for at in tasks:
            if at.task is not None and not at.task.done():
                at.task.cancel()
        for at in tasks:
            if at.task is not None:
                try:
                    await at.task
                except BaseException:
                    pass
    for at in tasks:
        if at.task is not None and at.task.done() and not at.task.cancelled() \
                and at.task.exception() is not None and res.error is None:
            res.error = 'task %s crashed: %r' % (at.name, at.task.exception())
    return res


async def _as_coroutine(gen):
    return await gen


_LOOP = None


def run_async(scenario, sched, extend=None, max_steps=400):
    """Run the real AsyncServer under the gate scheduler (one private event loop)."""
    global _LOOP
    if _LOOP is None or _LOOP.is_closed():
        _LOOP = asyncio.new_event_loop()
    return _LOOP.run_until_complete(_run_async(scenario, sched, extend, max_steps))


def close_loop():
    global _LOOP
    if _LOOP is not None and not _LOOP.is_closed():
        _LOOP.close()
    _LOOP = None


# --------------------------------------------------------------------------------------
# exploration
# --------------------------------------------------------------------------------------
def explore(runner, scenario, limit=None, max_preempt=None):
    """Stateless depth-first enumeration of every maximal schedule made of enabled choices
    (the enabled sets are those the controller observes on the real objects).  With
    max_preempt=k only schedules with at most k preemptive context switches are visited."""
    todo = [[]]
    n = 0
    while todo:
        prefix = todo.pop()
        last = [prefix[-1] if prefix else None]

        def pick(en):
            ch = last[0] if last[0] in en else en[0]
            last[0] = ch
            return ch
        r = runner(scenario, prefix, extend=pick)
        yield r
        n += 1
        if limit is not None and n >= limit:
            return
        for k in range(len(r.schedule) - 1, len(prefix) - 1, -1):
            for alt in reversed(r.enabled[k]):
                if alt == r.schedule[k]:
                    continue
                cand = r.schedule[:k] + [alt]
                if max_preempt is not None and _preemptions(cand, r.enabled[:k + 1]) > max_preempt:
                    continue
                todo.append(cand)


def _preemptions(schedule, enabled):
    n = 0
    for k in range(1, len(schedule)):
        if schedule[k - 1] != schedule[k] and schedule[k - 1] in enabled[k]:
            n += 1
    return n


def random_walk(runner, scenario, rng, noop_rate=0.0):
    n = len(scenario['causes'])

    def pick(en):
        if noop_rate and rng.random() < noop_rate:
            return rng.randrange(n + 1)
        return rng.choice(en)
    return runner(scenario, [], extend=pick)
