"""Deterministic driver for OVERLAPPING server-initiated acknowledged operations (property C06):
several call()s / emits with a callback in flight at once on the REAL socketio.Server (threads) and
socketio.AsyncServer (asyncio tasks), over the real managers and real engine.io sockets built by hand
(drivers/srv.py).  Vocabulary of coq/Manager/AckOverlap.v.

What the driver controls from outside (nothing of /repo is re-implemented):
  (a) when the send of each operation completes: the socket's send() parks the operation that is
      sending until the schedule says ('sent', k);
  (b) when a wait times out: `eio.create_event` returns a fake event whose wait() parks the call()
      until its event is set (an ACK arrived) or the schedule says ('timeout', k);
  (c) when ACK packets arrive: ('ack', client, id, args) delivers the packet through the socket's
      receive() from the controller.
threaded server: every operation runs in its own thread, with a baton (semaphores) so that exactly one
thread runs at any time and a run is a function of its schedule; asyncio server: every operation is a
task, parked on futures the controller resolves, and the loop is run to quiescence after each event.

scenario = {'clients': [(eio, ns), ...]      # sids are S0, S1, ... in this order
            'events': [('start', k, 'call'|'emit', client) | ('sent', k) | ('ack', client, id, [args])
                       | ('timeout', k) | ('disc', client)]}
result   = {'obs': [(effects, callbacks dump) per event], 'left': [k still unfinished at the end], 'error': str|None}
effects  = ('Out', client, frame) | ('Cb', k, args) | ('Done', k, ok, value_or_exception_name) | ('Bad',)
"""
import asyncio
import contextvars
import json
import threading

from vt import coqio
from drivers import srv

CFG = {'handlers': {'/': {'connect': 1}, '/chat': {'connect': 2}}, 'ns_handlers': {},
       'behav': {1: {'arity': 2, 'actions': [], 'outcome': ('ret', None)},
                 2: {'arity': 2, 'actions': [], 'outcome': ('ret', None)}},
       'namespaces': ['/', '/chat'], 'always_connect': False, 'serializer': 'default'}
HANDOFF_TIMEOUT = 20
# asyncio: AsyncManager.emit sends from a sub-task (asyncio.create_task), which inherits the context of the
# operation's task; this is how a send is attributed to its operation
CUR_OP = contextvars.ContextVar('verif_c06_overlap_op', default=None)


class Abort(BaseException):
    """Unwinds an operation that is still parked when the schedule ends."""


class Op:
    def __init__(self, k):
        self.k = k
        self.where = 'new'          # new | running | send | wait | done
        self.result = None
        self.ev = None
        # threads
        self.go = threading.Semaphore(0)
        self.thread = None
        # asyncio
        self.gate = None
        self.task = None


class OverlapDriver(srv.ServerDriver):
    def __init__(self, clients, mode):
        super().__init__(CFG, mode)
        self.clients = list(clients)
        self.sio.async_handlers = True      # call() refuses to run otherwise; only ACK / DISCONNECT packets arrive
        self.ops = {}
        self.fx = []
        self.error = None
        self.back = threading.Semaphore(0)
        self.aborting = False
        self.by_thread = {}
        self.client_of_eio_ns = {}

    # ---- which operation is running right now ----
    def current(self):
        if self.mode == 'sync':
            return self.by_thread.get(threading.get_ident())
        return CUR_OP.get()

    def client_index(self, eio, frame):
        """The client an outgoing frame is for: transport + namespace written in the frame."""
        ns = '/'
        if isinstance(frame, str) and len(frame) > 1:
            body = frame[1:]
            if body[:1].isdigit() and '-' in body.split('[')[0]:
                body = body[body.index('-') + 1:]
            if body.startswith('/'):
                ns = body.split(',')[0].split('[')[0]
        return self.client_of_eio_ns.get((eio, ns))

    # ---- sockets: the send of an operation is a scheduling point ----
    def _socket(self, eio):
        drv = self
        base = self.sock_cls
        if self.mode == 'sync':
            class S(base):
                def send(self, pkt):
                    op = drv.current()
                    if op is not None and not self.closed:
                        drv.fx.append(('Out', drv.client_index(self.sid, pkt.data), pkt.data))
                        drv.park(op, 'send')
                    return super().send(pkt)
        else:
            class S(base):
                async def send(self, pkt):
                    op = drv.current()
                    if op is not None and not self.closed:
                        drv.fx.append(('Out', drv.client_index(self.sid, pkt.data), pkt.data))
                        op.gate = asyncio.get_running_loop().create_future()
                        op.where = 'send'
                        await op.gate
                    return await super().send(pkt)
        s = S(self.sio.eio, eio)
        s.last_ping = None
        s.connected = True
        return s

    # ---- threads: baton ----
    def park(self, op, where):
        op.where = where
        self.back.release()
        if not op.go.acquire(timeout=HANDOFF_TIMEOUT):
            raise Abort()
        if self.aborting:
            raise Abort()
        op.where = 'running'

    def resume(self, op):
        op.where = 'running'
        op.go.release()
        if not self.back.acquire(timeout=HANDOFF_TIMEOUT):
            self.error = 'operation %d did not hand the baton back' % op.k

    def make_event(self):
        drv = self
        op = self.current()
        if self.mode == 'sync':
            class Ev:
                flag = False

                def set(self):
                    self.flag = True

                def wait(self, timeout=None):
                    if not self.flag:
                        drv.park(drv.current(), 'wait')
                    return self.flag
        else:
            class Ev:
                flag = False
                fut = None
                owner = op

                def set(self):
                    self.flag = True
                    if self.fut is not None and not self.fut.done():
                        self.fut.set_result(True)
                        if self.owner is not None:
                            self.owner.where = 'running'

                async def wait(self):
                    if self.flag:
                        return True
                    self.fut = asyncio.get_running_loop().create_future()
                    if self.owner is not None:
                        self.owner.where = 'wait'
                    return await self.fut
        e = Ev()
        if op is not None:
            op.ev = e
        return e

    # ---- the operations ----
    def _invoke(self, op, kind, sid, ns):
        drv = self
        sio = self.sio
        if kind == 'call':
            return lambda: sio.call('q', 'x', to=sid, namespace=ns, timeout=60)
        if self.mode == 'sync':
            def cb(*args):
                drv.fx.append(('Cb', op.k, list(args)))
        else:
            async def cb(*args):
                drv.fx.append(('Cb', op.k, list(args)))
        return lambda: sio.emit('q', 'x', to=sid, namespace=ns, callback=cb)

    def _finish(self, op, ok, val):
        op.result = (ok, val)
        op.where = 'done'
        self.fx.append(('Done', op.k, ok, val))

    def _thread_main(self, op, fn):
        self.by_thread[threading.get_ident()] = op
        op.go.acquire()
        op.where = 'running'
        try:
            try:
                r = fn()
            except Abort:
                op.where = 'aborted'
                return
            except BaseException as e:
                self._finish(op, False, coqio.exn_name(e))
            else:
                self._finish(op, True, r)
        finally:
            self.back.release()

    async def _task_main(self, op, fn):
        CUR_OP.set(op)
        try:
            r = await fn()
        except asyncio.CancelledError:
            op.where = 'aborted'
            raise
        except BaseException as e:
            self._finish(op, False, coqio.exn_name(e))
        else:
            self._finish(op, True, r)

    async def drain(self):
        for _ in range(400):
            if not any(o.where in ('running', 'new') for o in self.ops.values()):
                break
            await asyncio.sleep(0)
        else:
            self.error = 'an operation neither finished nor reached a scheduling point'
        for _ in range(3):
            await asyncio.sleep(0)

    def wake_set_waiters(self):
        """threads: an ACK processed on the controller set the event of a parked call(): let it run."""
        for o in list(self.ops.values()):
            if o.where == 'wait' and o.ev is not None and o.ev.flag:
                self.resume(o)

    async def event(self, e):
        self.fx = []
        kind = e[0]
        sync = self.mode == 'sync'
        if kind == 'start':
            _, k, what, c = e
            if k in self.ops or self.sids[c] is None:
                self.fx.append(('Bad',))
            else:
                op = self.ops[k] = Op(k)
                fn = self._invoke(op, what, self.sids[c], self.clients[c][1])
                if sync:
                    op.thread = threading.Thread(target=self._thread_main, args=(op, fn), daemon=True)
                    op.thread.start()
                    self.resume(op)
                else:
                    op.where = 'new'
                    op.task = asyncio.ensure_future(self._task_main(op, fn))
                    op.where = 'running'
                    await self.drain()
        elif kind == 'sent':
            op = self.ops.get(e[1])
            if op is None or op.where != 'send':
                self.fx.append(('Bad',))
            elif sync:
                self.resume(op)
            else:
                op.where = 'running'
                op.gate.set_result(None)
                await self.drain()
        elif kind == 'timeout':
            op = self.ops.get(e[1])
            if op is None or op.where != 'wait':
                self.fx.append(('Bad',))
            elif sync:
                self.resume(op)             # the fake wait() returns the flag, which is still False
            else:
                op.where = 'running'
                op.ev.fut.set_exception(asyncio.TimeoutError())
                await self.drain()
        elif kind == 'ack':
            _, c, id_, args = e
            eio, ns = self.clients[c]
            payload = '3' + ('' if ns == '/' else ns + ',') + str(id_) + json.dumps(list(args), separators=(',', ':'))
            s = self.sockets[eio]
            try:
                await srv.aw(s.receive(self.eio_packet.Packet(self.eio_packet.MESSAGE, payload)))
            except BaseException as x:
                self.fx.append(('Done', 10 ** 6, False, coqio.exn_name(x)))     # nothing may escape
            if sync:
                self.wake_set_waiters()
            else:
                await self.drain()
        elif kind == 'disc':
            c = e[1]
            if self.sids[c] is None:
                self.fx.append(('Bad',))
            else:
                eio, ns = self.clients[c]
                s = self.sockets[eio]
                try:
                    await srv.aw(s.receive(self.eio_packet.Packet(self.eio_packet.MESSAGE,
                                                                  '1' if ns == '/' else '1' + ns + ',')))
                except BaseException as x:
                    self.fx.append(('Done', 10 ** 6, False, coqio.exn_name(x)))
                self.sids[c] = None
                if sync:
                    self.wake_set_waiters()
                else:
                    await self.drain()
        else:
            raise AssertionError(e)
        return self.fx, self.dump()['callbacks']

    async def setup(self):
        self.sio.eio.create_event = lambda *a, **k: self.make_event()
        self.sids = []
        seen = []
        for eio, ns in self.clients:
            if eio not in seen:
                seen.append(eio)
                await self.op(('eio_connect', eio, {}))
            await self.op(('msg', eio, '0' if ns == '/' else '0' + ns + ','))
            sid = self.sio.manager.sid_from_eio_sid(eio, ns)
            self.sids.append(sid)
            self.client_of_eio_ns[(eio, ns)] = len(self.sids) - 1

    async def teardown(self):
        left = sorted(k for k, o in self.ops.items() if o.where != 'done')
        self.aborting = True
        for o in self.ops.values():
            if o.where == 'done':
                continue
            if self.mode == 'sync':
                if o.where in ('send', 'wait'):
                    o.go.release()
                    self.back.acquire(timeout=HANDOFF_TIMEOUT)
            elif o.task is not None and not o.task.done():
                o.task.cancel()
                try:
                    await o.task
                except BaseException:
                    pass
        if self.mode == 'sync':
            for o in self.ops.values():
                if o.thread is not None:
                    o.thread.join(HANDOFF_TIMEOUT)
                    if o.thread.is_alive():
                        self.error = self.error or 'thread of operation %d still alive' % o.k
        return left


def run_scenario(scn, mode):
    async def main():
        d = OverlapDriver(scn['clients'], mode)
        await d.setup()
        obs = []
        for e in scn['events']:
            fx, dump = await d.event(tuple(e))
            obs.append((list(fx), dump))
        left = await d.teardown()
        return {'obs': obs, 'left': left, 'error': d.error, 'sids': list(d.sids)}
    return asyncio.run(main())
