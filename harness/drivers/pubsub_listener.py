"""Driver for C15: the REAL PubSubManager / AsyncPubSubManager listener loop, run in-thread.

The manager under test is `class T(PubSubManager, Spy)`: PubSubManager's code is untouched,
`Spy` sits between it and Manager in the MRO so that every `super().emit / enter_room / ...`
made by the handlers is recorded, may raise according to the fault script of the current
channel item, and is then executed by the real Manager.  The server is a stub that records
`_send_packet`, `_send_eio_packet` and `disconnect`.  `_listen()` yields a scripted batch from a
shared queue, so a restarted `_listen()` continues where the previous iterator stopped, and
returns when the queue is empty (which makes `_thread` log and break: deterministic end).
"""
import asyncio
import functools
import itertools
import sys

from vt import common  # noqa: F401  (puts REPO/src on sys.path)
from vt import coqio
from vt.coqio import pv, clist, cbool, exn_name

from socketio import base_manager
from socketio.manager import Manager
from socketio.async_manager import AsyncManager
from socketio.pubsub_manager import PubSubManager
from socketio.async_pubsub_manager import AsyncPubSubManager


class Boom(Exception):
    """An application-defined exception class (exn OtherError)."""


EXN = {'RuntimeError': RuntimeError, 'ValueError': ValueError, 'KeyError': KeyError,
       'TypeError': TypeError, 'IndexError': IndexError, 'AttributeError': AttributeError,
       'OtherError': Boom}
FAULT_NAMES = sorted(EXN)          # the Exception subclasses of the random fault scripts
# asyncio.CancelledError (a BaseException since 3.8): only placed by directed scenarios, at application callbacks
CANCEL = 'Cancelled'
EXN[CANCEL] = asyncio.CancelledError


def xname(e):
    """Exception -> constructor of the model's exn (Listener.Cancelled stands for asyncio.CancelledError)."""
    return CANCEL if isinstance(e, asyncio.CancelledError) else exn_name(e)


class Rec:
    """Effect recorder and fault script of the item being handled."""

    def __init__(self):
        self.active = False
        self.segs = [[]]
        self.script = []

    def eff(self, e):
        if self.active:
            self.segs[-1].append(e)

    def pop(self):
        """Next entry of the current item's fault script (None = no fault here)."""
        if self.active and self.script:
            return self.script.pop(0)
        return None

    def fault(self):
        e = self.pop()
        if e is not None:
            raise EXN[e]('injected')

    def cancelled_job(self, as_task):
        """A job of the application that the application has cancelled (asyncio): a future, or a task that has
        not run yet.  Awaiting it (or asking a cancelled future for its result) raises CancelledError in the
        caller although nobody cancelled the caller."""
        loop = asyncio.get_running_loop()
        if as_task:
            job = loop.create_task(asyncio.sleep(3600))
        else:
            job = loop.create_future()
        job.cancel()
        return job

    def new_segment(self, script=()):
        self.segs.append([])
        self.script = list(script)


class AppCb:
    """Application callback number n: a plain callable given to emit(..., callback=).  What it does when the
    acknowledgement arrives is the next entry of the current item's fault script: return, raise an exception,
    or (Cancelled) ask a job the application cancelled for its result."""

    def __init__(self, n, rec):
        self.n = n
        self.rec = rec

    def __call__(self, *args):
        self.rec.eff(('cb', self.n, args))
        e = self.rec.pop()
        if e == CANCEL:
            try:
                job = self.rec.cancelled_job(False)
            except RuntimeError:               # threaded manager, no event loop
                raise asyncio.CancelledError()
            job.result()
        elif e is not None:
            raise EXN[e]('injected')


class AsyncAppCb(AppCb):
    """The same as a coroutine function; Cancelled: it awaits the cancelled job."""

    async def __call__(self, *args):
        self.rec.eff(('cb', self.n, args))
        e = self.rec.pop()
        if e == CANCEL:
            await self.rec.cancelled_job(self.n % 4 == 3)
        elif e is not None:
            raise EXN[e]('injected')


def function_cb(n, rec, coro):
    """Callback number n as a real function / coroutine function object (not a callable instance)."""
    proto = (AsyncAppCb if coro else AppCb)(n, rec)
    if coro:
        async def on_ack(*args):
            return await proto(*args)
    else:
        def on_ack(*args):
            return proto(*args)
    on_ack.n = n
    on_ack.app_callback = True
    return on_ack


def is_app_cb(cb):
    return isinstance(cb, AppCb) or getattr(cb, 'app_callback', False)


def make_cb(n, rec, is_async):
    """The callable registered for callback number n: under asyncio odd numbers are coroutine functions
    (Listener.cb_is_coro); numbers 2, 3 mod 4 are function objects, the others callable instances."""
    coro = bool(is_async and n % 2)
    if n % 4 >= 2:
        return function_cb(n, rec, coro)
    return (AsyncAppCb if coro else AppCb)(n, rec)


class Log:
    def __init__(self, rec):
        self.rec = rec

    def exception(self, *a, **k):
        self.rec.eff(('logexc', xname(sys.exc_info()[1])))

    def error(self, *a, **k):
        self.rec.eff(('logerr',))

    def warning(self, *a, **k):
        self.rec.eff(('logwarn',))

    def info(self, *a, **k):
        pass

    debug = info


class FakePacket:
    """server.packet_class: remembers its fields; encode() is an opaque token."""
    registry = {}
    counter = itertools.count()

    def __init__(self, packet_type=None, data=None, namespace=None, id=None, **kw):
        self.packet_type = packet_type
        self.data = data
        self.namespace = namespace
        self.id = id

    def encode(self):
        tok = 'pkt:%d' % next(FakePacket.counter)
        FakePacket.registry[tok] = self
        return tok


class Eio:
    def __init__(self):
        self.n = 0

    def generate_id(self):
        self.n += 1
        return 'c%d' % self.n


class StubServer:
    async_mode = 'threading'
    packet_class = FakePacket

    def __init__(self, rec):
        self.rec = rec
        self.logger = Log(rec)
        self.eio = Eio()
        self.manager = None

    def start_background_task(self, target, *a, **k):
        return None

    def _send_packet(self, eio_sid, pkt):
        self.rec.fault()
        self.rec.eff(('send', eio_sid, (pkt.namespace, pkt.data, pkt.id)))

    def _send_eio_packet(self, eio_sid, eio_pkt):
        self.rec.fault()
        pkt = FakePacket.registry[eio_pkt.data]
        self.rec.eff(('send', eio_sid, (pkt.namespace, pkt.data, pkt.id)))

    def disconnect(self, sid, namespace=None, ignore_queue=False):
        # what Server.disconnect does to the manager when nothing fails in between
        self.rec.eff(('disc', sid, namespace, ignore_queue))
        self.rec.fault()
        ns = namespace or '/'
        if base_manager.BaseManager.is_connected(self.manager, sid, ns):
            self.manager.basic_disconnect(sid, ns)


class AsyncStubServer(StubServer):
    async_mode = 'asgi'

    async def _send_packet(self, eio_sid, pkt):
        StubServer._send_packet(self, eio_sid, pkt)

    async def _send_eio_packet(self, eio_sid, eio_pkt):
        StubServer._send_eio_packet(self, eio_sid, eio_pkt)

    async def disconnect(self, sid, namespace=None, ignore_queue=False):
        StubServer.disconnect(self, sid, namespace, ignore_queue)


class Spy(Manager):
    def emit(self, event, data, namespace, room=None, skip_sid=None, callback=None, **kw):
        self._rec.eff(('op', 'OEmit', [event, data, namespace, room, skip_sid, callback]))
        self._rec.fault()
        return super().emit(event, data, namespace, room=room, skip_sid=skip_sid, callback=callback, **kw)

    def is_connected(self, sid, namespace):
        self._rec.eff(('op', 'OIsConn', [sid, namespace]))
        self._rec.fault()
        return super().is_connected(sid, namespace)

    def enter_room(self, sid, namespace, room, eio_sid=None):
        self._rec.eff(('op', 'OEnter', [sid, namespace, room]))
        self._rec.fault()
        return super().enter_room(sid, namespace, room, eio_sid=eio_sid)

    def leave_room(self, sid, namespace, room):
        self._rec.eff(('op', 'OLeave', [sid, namespace, room]))
        self._rec.fault()
        return super().leave_room(sid, namespace, room)

    def close_room(self, room, namespace):
        self._rec.eff(('op', 'OClose', [room, namespace]))
        self._rec.fault()
        return super().close_room(room, namespace)

    def trigger_callback(self, sid, id, data):
        self._rec.eff(('op', 'OTrigger', [sid, id, data]))
        self._rec.fault()
        return super().trigger_callback(sid, id, data)


class AsyncSpy(AsyncManager):
    async def emit(self, event, data, namespace, room=None, skip_sid=None, callback=None, **kw):
        self._rec.eff(('op', 'OEmit', [event, data, namespace, room, skip_sid, callback]))
        self._rec.fault()
        return await super().emit(event, data, namespace, room=room, skip_sid=skip_sid, callback=callback, **kw)

    def is_connected(self, sid, namespace):
        self._rec.eff(('op', 'OIsConn', [sid, namespace]))
        self._rec.fault()
        return super().is_connected(sid, namespace)

    async def enter_room(self, sid, namespace, room, eio_sid=None):
        self._rec.eff(('op', 'OEnter', [sid, namespace, room]))
        self._rec.fault()
        return await super().enter_room(sid, namespace, room, eio_sid=eio_sid)

    async def leave_room(self, sid, namespace, room):
        self._rec.eff(('op', 'OLeave', [sid, namespace, room]))
        self._rec.fault()
        return await super().leave_room(sid, namespace, room)

    async def close_room(self, room, namespace):
        self._rec.eff(('op', 'OClose', [room, namespace]))
        self._rec.fault()
        return await super().close_room(room, namespace)

    async def trigger_callback(self, sid, id, data):
        self._rec.eff(('op', 'OTrigger', [sid, id, data]))
        self._rec.fault()
        return await super().trigger_callback(sid, id, data)


class SyncMgr(PubSubManager, Spy):
    def _publish(self, data):
        self._rec.eff(('pub', data))
        self._published.append(data)
        self._rec.fault()

    def _listen(self):
        rec = self._rec
        rec.eff(('listen',))
        while True:
            if not self._q:
                rec.new_segment()
                return
            it = self._q.pop(0)
            rec.new_segment(it.get('fs', ()))
            if it['kind'] == 'raise':
                raise EXN[it['e']]('listen failed')
            if it['kind'] == 'ack':
                try:                         # the server's own task delivers the ACK, not the listener
                    self.trigger_callback(it['sid'], it['id'], it['args'])
                except (Exception, asyncio.CancelledError):
                    rec.eff(('logexc', xname(sys.exc_info()[1])))
                continue
            yield it['m']


class AsyncMgr(AsyncPubSubManager, AsyncSpy):
    async def _publish(self, data):
        self._rec.eff(('pub', data))
        self._published.append(data)
        self._rec.fault()

    async def _listen(self):
        rec = self._rec
        rec.eff(('listen',))
        while True:
            # let send tasks orphaned by a raising emit run while their item is still current
            await asyncio.sleep(0)
            await asyncio.sleep(0)
            if not self._q:
                rec.new_segment()
                return
            it = self._q.pop(0)
            rec.new_segment(it.get('fs', ()))
            if it['kind'] == 'raise':
                raise EXN[it['e']]('listen failed')
            if it['kind'] == 'ack':
                try:                         # the server's own task delivers the ACK, not the listener
                    await self.trigger_callback(it['sid'], it['id'], it['args'])
                except (Exception, asyncio.CancelledError):
                    rec.eff(('logexc', xname(sys.exc_info()[1])))
                continue
            yield it['m']


OWN = 'hostA'


def build(is_async, plan):
    """Fresh manager + stub server, brought to the initial state by `plan` through the real API.
    plan ops: ('connect', eio_sid, ns) / ('enter', sid, ns, room) / ('emitcb', ev, ns, sid, n)."""
    rec = Rec()
    if is_async:
        srv = AsyncStubServer(rec)
        mgr = AsyncMgr()
    else:
        srv = StubServer(rec)
        mgr = SyncMgr()
    mgr._rec = rec
    mgr._published = []
    mgr._q = []
    mgr.host_id = OWN
    mgr.set_server(srv)
    srv.manager = mgr
    mgr.initialize()
    return rec, srv, mgr


def apply_plan_sync(mgr, rec, plan):
    for op in plan:
        if op[0] == 'connect':
            mgr.connect(op[1], op[2])
        elif op[0] == 'enter':
            mgr.enter_room(op[1], op[2], op[3])
        elif op[0] == 'emitcb':
            mgr.emit(op[1], 'x', namespace=op[2], room=op[3], callback=make_cb(op[4], rec, False))


async def apply_plan_async(mgr, rec, plan):
    for op in plan:
        if op[0] == 'connect':
            await mgr.connect(op[1], op[2])
        elif op[0] == 'enter':
            await mgr.enter_room(op[1], op[2], op[3])
        elif op[0] == 'emitcb':
            await mgr.emit(op[1], 'x', namespace=op[2], room=op[3], callback=make_cb(op[4], rec, True))


def run_listener(is_async, plan, items, loop=None):
    """Returns (init_state_term, segments, final_state_term, published).
    segments = [before first item] + one per item + [after the last item]."""
    rec, srv, mgr = build(is_async, plan)
    if is_async:
        async def go():
            await apply_plan_async(mgr, rec, plan)
            init = state_term(mgr)
            mgr._published.clear()
            mgr._q = [dict(i) for i in items]
            rec.active = True
            try:
                await mgr._thread()
            except Exception as e:      # the listener died: never what the model predicts
                rec.eff(('escaped', exn_name(e)))
            await asyncio.sleep(0)
            await asyncio.sleep(0)      # a cancelled job of the application finishes
            rec.active = False
            return init
        init = loop.run_until_complete(go())
    else:
        apply_plan_sync(mgr, rec, plan)
        init = state_term(mgr)
        mgr._published.clear()
        mgr._q = [dict(i) for i in items]
        rec.active = True
        try:
            mgr._thread()
        except asyncio.CancelledError:  # a BaseException left _thread (the model's ending Stopped)
            pass
        except Exception as e:          # the listener died: never what the model predicts
            rec.eff(('escaped', exn_name(e)))
        rec.active = False
    FakePacket.registry.clear()
    return init, rec.segs, state_term(mgr), list(mgr._published), mgr


# ---------------------------------------------------------------- printers
def cb_value(cb):
    """A callback object as the model's cb_pv."""
    if cb is None:
        return None
    if is_app_cb(cb):
        return coqio.Obj(cb.n)
    if isinstance(cb, functools.partial):
        return ('partial',) + tuple(cb.args)
    if isinstance(cb, itertools.count):
        return ('count', int(repr(cb)[6:-1]))
    raise TypeError('cannot print callback %r' % (cb,))


def slot_term(cb):
    if isinstance(cb, itertools.count):
        return '(Counter (%d)%%Z)' % int(repr(cb)[6:-1])
    if is_app_cb(cb):
        return '(CbApp %d%%N)' % cb.n
    if isinstance(cb, functools.partial):
        a = cb.args
        if len(a) != 4 or cb.keywords:         # never what the model predicts
            return '(CbRemote (PStr (s2l "<partial with %d arguments>")) PNone PNone PNone)' % len(a)
        return '(CbRemote %s %s %s %s)' % tuple(pv(x) for x in a)
    raise TypeError('cannot print callback slot %r' % (cb,))


def state_term(mgr):
    rooms = clist(['(%s, %s)' % (pv(ns), clist(
        ['(%s, %s)' % (pv(room), clist(['(%s, %s)' % (pv(s), pv(e)) for s, e in bd._fwdm.items()]))
         for room, bd in nsr.items()])) for ns, nsr in mgr.rooms.items()])
    cbs = clist(['(%s, %s)' % (pv(sid), clist(['(%s, %s)' % (pv(i), slot_term(c)) for i, c in d.items()]))
                 for sid, d in mgr.callbacks.items()])
    return '(mkMgr %s %s)' % (rooms, cbs)


def eff_term(e):
    k = e[0]
    if k == 'listen':
        return 'EListen'
    if k == 'logexc':
        return '(ELogExc %s)' % e[1]
    if k == 'logerr':
        return 'ELogErr'
    if k == 'logwarn':
        return 'ELogWarn'
    if k == 'op':
        args = list(e[2])
        if e[1] == 'OEmit':
            args[5] = cb_value(args[5])
        return '(EOp %s %s)' % (e[1], clist([pv(a) for a in args]))
    if k == 'send':
        return '(ESend %s %s)' % (pv(e[1]), pv(e[2]))
    if k == 'cb':
        return '(ECallback %d%%N %s)' % (e[1], clist([pv(a) for a in e[2]]))
    if k == 'disc':
        return '(EDisconnect %s %s %s)' % (pv(e[1]), pv(e[2]), cbool(bool(e[3])))
    if k == 'pub':
        return '(EPublish %s)' % pv(e[1])
    if k == 'escaped':
        return '(ELogExc OracleMiss)'
    raise TypeError('unknown effect %r' % (e,))


def segs_term(segs):
    return clist([clist([eff_term(e) for e in s]) for s in segs])


def fs_term(fs):
    return clist(['None' if f is None else '(Some %s)' % f for f in fs])


def item_term(it):
    if it['kind'] == 'msg':
        m = it['m']
        # the model only looks at the TYPE of a raw message (dict / bytes / anything else); what the two
        # loaders make of its content is the oracle pair pk, js - so raw bytes and text are not spelled out
        mt = '(PBytes [])' if isinstance(m, bytes) else '(PStr [])' if isinstance(m, str) else pv(m)
        return '(IMsg %s %s %s %s)' % (mt, coqio.copt(it.get('pk'), lambda x: x),
                                       coqio.copt(it.get('js'), lambda x: x), fs_term(it.get('fs', ())))
    if it['kind'] == 'raise':
        return '(IRaise %s)' % it['e']
    return '(IAck %s %s %s %s)' % (pv(it['sid']), pv(it['id']), pv(it['args']), fs_term(it.get('fs', ())))
