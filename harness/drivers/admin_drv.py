"""C18 driver: the REAL socketio.Server / AsyncServer of drivers/srv.py, optionally instrumented with
the REAL InstrumentedServer / InstrumentedAsyncServer (sio.instrument(...)), made deterministic:

* `start_background_task` of the server is replaced by a recorder.  The `config` closure that a
  successful admin_connect schedules is run right after the operation that scheduled it (with
  `sio.sleep` a no-op); the periodic `_emit_server_stats` loop is never started by itself - the
  operation ('admin_tick',) runs exactly one iteration of its body (stop event = one-shot).
* instrument() monkey-patches the engine.io Socket / AsyncSocket CLASSES (process-global); the
  patches are undone right after instrument() so that servers do not influence each other (the
  driver's sockets never take the HTTP / websocket paths these patches wrap).
* session ids: engine.io's generate_id is a counter 'S<n>'; while an operation of an ADMIN
  transport is executed the counter 'A<n>' is used instead, so that the ids of application clients
  are literally the same with and without an admin client.

Additional operations (all others are those of drivers/srv.py):
  ('admin_eio_connect', eio)            a transport that will carry the admin namespace
  ('admin_connect', eio, payload)       CONNECT on the admin namespace; payload ABSENT = no data
  ('admin_event', eio, event, args, id) EVENT on the admin namespace
  ('admin_close', eio, reason)          the admin transport ends
  ('admin_tick',)                       one iteration of the server_stats loop
"""
import asyncio
import itertools
import json

from vt import common  # noqa: F401
from vt import coqio
from drivers import srv
from drivers.srv import aw
from gen import server_hist

ABSENT = '<absent>'
ADMIN_OPS = ('admin_eio_connect', 'admin_connect', 'admin_event', 'admin_close', 'admin_tick')
PATCHED = ('handle_post_request', '_websocket_handler', '_send_ping')


class RunAway(RecursionError):
    pass


class OneShot:
    """stop event for exactly one iteration of `while not stop.is_set()`."""

    def __init__(self):
        self.n = 0

    def is_set(self):
        self.n += 1
        return self.n > 1

    def set(self):
        self.n = 2


class Done:
    """what the recorder returns in place of a thread / task."""

    def join(self):
        return None

    def __await__(self):
        if False:
            yield
        return None


class AdminServerDriver(srv.ServerDriver):
    def __init__(self, cfg, mode='sync', coro=False, admin=None):
        super().__init__(cfg, mode, coro)
        self.admin = admin
        self.admin_ns = (admin or {}).get('namespace', '/admin')
        self.admin_eios = []
        self.bg = []
        self.inst = None
        self._admin_turn = False
        s_ctr, a_ctr = itertools.count(), itertools.count()
        self.sio.eio.generate_id = lambda: ('A%d' % next(a_ctr)) if self._admin_turn else ('S%d' % next(s_ctr))
        if admin is not None:
            self._instrument(admin)

    # ---- deterministic instrumentation ----
    def _instrument(self, admin):
        sio = self.sio
        drv = self

        def start_background_task(target, *args, **kwargs):
            drv.bg.append((target, args, kwargs))
            return Done()
        sio.start_background_task = start_background_task
        if self.mode == 'sync':
            sio.sleep = lambda *a, **k: None
        else:
            async def no_sleep(*a, **k):
                return None
            sio.sleep = no_sleep
        cls = self.sock_cls
        saved = {k: cls.__dict__[k] for k in PATCHED}
        before = set(cls.__dict__)
        try:
            kw = {k: v for k, v in admin.items() if k in ('auth', 'mode', 'read_only', 'namespace', 'server_id')}
            self.inst = sio.instrument(server_stats_interval=0, **kw)
        finally:
            for k, v in saved.items():
                setattr(cls, k, v)
            for k in set(cls.__dict__) - before:
                delattr(cls, k)

    MAX_EFFECTS_PER_OP = 4000

    def _socket(self, eio):
        """as in drivers/srv.py, plus a bound on the effects of ONE operation: a run-away wrapper
        (e.g. a report that re-enters the wrapped emit) is cut short instead of filling the memory."""
        s = super()._socket(eio)
        drv = self
        inner = s.send
        if self.mode == 'sync':
            def send(pkt):
                if len(drv.trace) > drv.MAX_EFFECTS_PER_OP:
                    raise RunAway('more than %d effects in one operation' % drv.MAX_EFFECTS_PER_OP)
                return inner(pkt)
        else:
            async def send(pkt):
                if len(drv.trace) > drv.MAX_EFFECTS_PER_OP:
                    raise RunAway('more than %d effects in one operation' % drv.MAX_EFFECTS_PER_OP)
                return await inner(pkt)
        s.send = send
        return s

    async def _drain_bg(self):
        """run the scheduled `config` closures; keep the stats loop parked."""
        while True:
            todo = [t for t in self.bg if getattr(t[0], '__name__', '') != '_emit_server_stats']
            if not todo:
                break
            self.bg = [t for t in self.bg if t not in todo]
            for target, args, kwargs in todo:
                try:
                    await aw(target(*args, **kwargs))
                except BaseException as e:      # a background task's exception is lost in the real server too
                    self.trace.append(('BgRaised', coqio.exn_name(e)))
        self.bg = []

    async def op(self, o):
        k = o[0]
        if k not in ADMIN_OPS:
            self._admin_turn = (k in ('msg', 'close', 'eio_connect') and o[1] in self.admin_eios)
            try:
                res = await super().op(o)
            finally:
                self._admin_turn = False
            if self.inst is not None:
                await self._drain_bg()
            return res
        self._admin_turn = True
        try:
            if k == 'admin_eio_connect':
                if o[1] not in self.admin_eios:
                    self.admin_eios.append(o[1])
                res = await super().op(('eio_connect', o[1], {'REMOTE_ADDR': o[1], 'HTTP_COOKIE': 'secret=1'}))
            elif k == 'admin_connect':
                wire = server_hist.frame(0, self.admin_ns) if o[2] == ABSENT else \
                    '0%s,%s' % (self.admin_ns, json.dumps(o[2], separators=(',', ':')))
                res = await super().op(('msg', o[1], server_hist.eio_decode(wire)))
            elif k == 'admin_event':
                wire = server_hist.frame(2, self.admin_ns, o[4] if len(o) > 4 else None, [o[2]] + list(o[3]))
                res = await super().op(('msg', o[1], server_hist.eio_decode(wire)))
            elif k == 'admin_close':
                res = await super().op(('close', o[1], o[2]))
            else:   # admin_tick
                self.trace, self.loads_table = [], []
                if self.inst is not None:
                    saved = self.inst.stop_stats_event
                    self.inst.stop_stats_event = OneShot()
                    try:
                        await aw(self.inst._emit_server_stats())
                    except BaseException as e:
                        self.trace.append(('BgRaised', coqio.exn_name(e)))
                    self.inst.stop_stats_event = saved
                res = (self.trace, self.loads_table)
        finally:
            self._admin_turn = False
        if self.inst is not None:
            await self._drain_bg()
        return res

    # ---- observations ----
    def admin_members(self):
        """(sid, eio) pairs in the admin namespace."""
        return list(self.sio.manager.get_participants(self.admin_ns, None))

    def admin_handlers(self):
        return list(self.sio.handlers.get(self.admin_ns, {}))

    def app_path_patched(self):
        """are _trigger_event / basic_enter_room / basic_leave_room / emit replaced by the wrappers?"""
        sio, m = self.sio, self.sio.manager
        flags = ['_trigger_event' in vars(sio), 'basic_enter_room' in vars(m), 'basic_leave_room' in vars(m),
                 'emit' in vars(m)]
        return flags


def split_packet(text):
    """(type, namespace, id, data) of a text frame the server produced; None for attachments."""
    if not isinstance(text, str):
        return None
    from socketio import packet
    p = packet.Packet(encoded_packet=text)
    return p.packet_type, p.namespace or '/', p.id, p.data


def is_admin_op(o):
    return o[0] in ADMIN_OPS


def run_ops(cfg, ops, mode='sync', coro=False, admin=None):
    """Run a history (application + admin operations).  Returns (results per op, final dump, driver)."""
    async def main():
        d = AdminServerDriver(cfg, mode, coro, admin)
        out = []
        for o in ops:
            effs, tbl = await d.op(o)
            out.append((list(effs), list(tbl)))
        return out, d.dump(), d
    return asyncio.run(main())


def run_pending_auth(mode_cfg, app_event_ops, verdict):
    """asyncio only: an admin CONNECT whose coroutine predicate is still pending while application
    traffic is processed.  Returns the packets delivered to the (not yet authenticated) admin
    transport during that window, the answer after the predicate returned `verdict`, and whether
    it is a member afterwards."""
    async def main():
        gate = asyncio.get_running_loop().create_future()

        async def predicate(auth):
            await gate
            return verdict
        admin = dict(mode_cfg)
        admin['auth'] = predicate
        cfg = {'handlers': {'/': {'ev': 1}}, 'ns_handlers': {}, 'namespaces': None, 'always_connect': False,
               'serializer': 'default', 'behav': {1: {'arity': None, 'actions': [], 'outcome': ('ret', None)}}}
        d = AdminServerDriver(cfg, 'async', True, admin)
        await d.op(('eio_connect', 'e0', {'REMOTE_ADDR': 'e0', 'HTTP_COOKIE': 'session=app-user'}))
        await d.op(('msg', 'e0', server_hist.eio_decode(server_hist.frame(0, '/'))))
        await d.op(('admin_eio_connect', 'a0'))
        d._admin_turn = True
        d.trace = []
        s = d.sockets['a0']
        task = asyncio.ensure_future(s.receive(d.eio_packet.Packet(
            d.eio_packet.MESSAGE, '0%s,{"user":"mallory"}' % d.admin_ns)))
        for _ in range(20):
            await asyncio.sleep(0)
        d._admin_turn = False
        before = [e for e in d.trace if e[0] == 'Out' and e[1] == 'a0']
        window = []
        for o in app_event_ops:
            effs, _ = await d.op(o)
            window.extend(e for e in effs if e[0] == 'Out' and e[1] == 'a0')
        d.trace = []
        gate.set_result(None)
        await task
        await d._drain_bg()
        after = [e for e in d.trace if e[0] == 'Out' and e[1] == 'a0']
        member = any(eio == 'a0' for _, eio in d.admin_members())
        return before, window, after, member
    return asyncio.run(main())
