"""Gate scheduler for the REAL socketio.AsyncServer with a CONNECT IN PROGRESS beside the
terminating causes (asyncio-interleaving part of C04; model: coq/Conc/ConnConc.v).

Same machinery as drivers/sched_srv.py::run_async (trampoline that parks a task at the start, at
every fake send, at every scripted coroutine handler and at ANY other real suspension), with one
more kind of cause:

    ('connect', eio, ns, outcome)   a CONNECT packet for namespace ns arrives on transport eio;
                                    the application's connect handler is a coroutine that SUSPENDS
                                    (gate) and then accepts ('accept') or returns False ('false')

and scenario['always_connect'] (default False).  Added wrappers (on the instance, nothing in
/repo): manager.connect -> label ('Connect', eio, ns, sid | None), the scripted connect handler
-> ('CHandler', sid, ns) when it is resumed, `server.environ[eio]` reads of the connect path ->
('EnvGet', eio, present).  Everything else (labels, dump, schedules, replay) is that of
sched_srv.py; a schedule indexes scenario['causes'] (terminating causes and connects alike).

`prefix_of(scenario)` is the schedule prefix that brings every connect to its handler gate
("connect in progress"): the explorer fixes it and enumerates every interleaving after it.
"""
import asyncio
import types

from vt import common  # noqa: F401
from vt.coqio import exn_name
from drivers import sched_srv as S
from drivers.sched_srv import Abort, RunResult, AsyncCtl, GATE, IEnviron, MAX_LABELS_PER_STEP  # noqa: F401


def conn_frame(ns):
    return '0' if ns == '/' else '0' + ns + ','


class CEnviron(IEnviron):
    """server.environ: also the subscript read of _handle_connect is an observed access."""

    def __getitem__(self, k):
        present = dict.__contains__(self, k)
        self._ctl.log(('EnvGet', k, present))
        return dict.__getitem__(self, k)


def is_connect(c):
    return c[0] == 'connect'


def prefix_of(scenario):
    """Choices that run every connect cause up to its (suspended) connect handler."""
    per = 2 if scenario.get('always_connect') else 1
    out = []
    for i, c in enumerate(scenario['causes']):
        if is_connect(c):
            out += [i] * per
    return out


def _namespaces(scenario):
    out = S._namespaces(scenario)
    for c in scenario['causes']:
        if is_connect(c) and c[2] not in out:
            out.append(c[2])
    return out


async def _run(scenario, sched, extend, max_steps):
    from engineio import packet as eio_packet
    res = RunResult()
    ctl = AsyncCtl()
    loop = asyncio.get_running_loop()
    sio, sock_cls = S.make_server(scenario, True)
    sio.always_connect = bool(scenario.get('always_connect'))
    raising = set(scenario.get('raising', ()))

    def make_handler(ns):
        async def on_disconnect(sid, reason):
            await GATE
            ctl.log(('Handler', sid, ns, reason))
            if sid in raising:
                raise RuntimeError('scripted')
        return on_disconnect
    for ns in _namespaces(scenario):
        sio.on('disconnect', make_handler(ns), namespace=ns)

    sockets = {}
    for op in scenario['setup']:
        if op[0] == 'connect':
            _, eio, ns = op
            if eio not in sockets:
                sockets[eio] = S._new_socket(sio, sock_cls, eio)
                await sio.eio._trigger_event('connect', eio, {'eio': eio}, run_async=False)
            await sockets[eio].receive(eio_packet.Packet(eio_packet.MESSAGE, conn_frame(ns)))
        elif op[0] == 'enter':
            await sio.enter_room(op[1], op[3], namespace=op[2])
        elif op[0] == 'ack':
            await sio.emit('ev', 1, to=op[1], namespace=op[2], callback=lambda *a: None)
        else:
            raise ValueError(op)
    for s in sockets.values():
        while not s.queue.empty():
            s.queue.get_nowait()
    res.initial = S.dump(sio)

    # the scripted connect handlers (registered after the setup: the setup's own CONNECTs are
    # accepted without a handler)
    outcomes = {}
    for c in scenario['causes']:
        if is_connect(c):
            outcomes[(c[1], c[2])] = c[3]

    def make_connect_handler(ns):
        async def on_connect(sid, environ, auth=None):
            await GATE
            ctl.log(('CHandler', sid, ns))
            what = outcomes.get((environ.get('eio'), ns), 'accept')
            if what == 'false':
                return False
            return None
        return on_connect
    for ns in sorted({c[2] for c in scenario['causes'] if is_connect(c)}):
        sio.on('connect', make_connect_handler(ns), namespace=ns)

    S.instrument_manager(ctl, sio, True)
    o_connect = sio.manager.connect

    async def connect(eio_sid, namespace):
        r = await o_connect(eio_sid, namespace)
        ctl.log(('Connect', eio_sid, namespace, r))
        return r
    sio.manager.connect = connect
    sio.environ = CEnviron(ctl, sio.environ)

    async def send(eio_sid, data):
        await GATE
        ctl.log(('Send', eio_sid, data))
    sio.eio.send = send
    for ev in ('message', 'disconnect'):
        def make(orig):
            async def recorded(*a):
                try:
                    return await orig(*a)
                except Abort:
                    raise
                except BaseException as e:
                    ctl.log(('Raise', exn_name(e)))
                    raise
            return recorded
        sio.eio.handlers[ev] = make(sio.eio.handlers[ev])

    def cause_coro(c):
        if c[0] == 'api':
            async def f():
                try:
                    await sio.disconnect(c[1], namespace=c[2])
                except Abort:
                    raise
                except BaseException as e:
                    ctl.log(('Raise', exn_name(e)))
        elif c[0] == 'client':
            async def f():
                await sockets[c[1]].receive(eio_packet.Packet(eio_packet.MESSAGE, S.disc_frame(c[2])))
        elif c[0] == 'loss':
            async def f():
                await sockets[c[1]].close(wait=False, abort=True, reason=c[2])
                sio.eio.sockets.pop(c[1], None)
        elif c[0] == 'connect':
            async def f():
                await sockets[c[1]].receive(eio_packet.Packet(eio_packet.MESSAGE, conn_frame(c[2])))
        else:
            raise ValueError(c)
        return f()

    tasks = [S._ATask('task%d' % i) for i in range(len(scenario['causes']))]

    @types.coroutine
    def trampoline(at, coro):
        at.gate = loop.create_future()
        yield from at.gate.__await__()
        val, exc = None, None
        try:
            while True:
                try:
                    y = coro.throw(exc) if exc is not None else coro.send(val)
                except StopIteration:
                    return
                val, exc = None, None
                if y is not GATE:
                    ctl.log(('Other', 1))       # a suspension the model does not know
                at.gate = loop.create_future()
                yield from at.gate.__await__()
                if y is not GATE and y is not None:
                    try:
                        val = yield y
                    except BaseException as e:
                        exc = e
        finally:
            at.gate = None
            at.done = True

    async def drain(at):
        for _ in range(50):
            await asyncio.sleep(0)
            if at.done or (at.gate is not None and not at.gate.done()):
                return True
        return False

    try:
        ctl.active = True
        for at, c in zip(tasks, scenario['causes']):
            at.task = loop.create_task(S._as_coroutine(trampoline(at, cause_coro(c))))
        for _ in range(3):
            await asyncio.sleep(0)
        ctl.labels = []
        fixed = list(sched)
        k = 0
        while k < max_steps and res.error is None:
            en = [i for i, t in enumerate(tasks) if not t.done]
            if k < len(fixed):
                ch = fixed[k]
            elif extend is not None and en:
                ch = extend(en)
                if ch is None:
                    break
            else:
                break
            res.enabled.append(en)
            res.schedule.append(ch)
            ctl.labels = []
            if ch in en:
                at = tasks[ch]
                ctl.current = at
                at.gate.set_result(None)
                if not await drain(at):
                    res.error = 'task %d did not reach a gate within 50 loop iterations' % ch
                ctl.current = None
            res.trace.append(ctl.labels)
            k += 1
        if k >= max_steps:
            res.error = res.error or 'step bound exceeded'
        if ctl.spin:
            res.error = res.error or 'a task performs an unbounded number of accesses'
        res.alldone = all(t.done for t in tasks)
        res.final = S.dump(sio)
    finally:
        ctl.active = False
        for at in tasks:
            if at.task is not None and not at.task.done():
                at.task.cancel()
        for at in tasks:
            if at.task is not None:
                try:
                    await at.task
                except BaseException:
                    pass
    for at in tasks:
        if at.task is not None and at.task.done() and not at.task.cancelled() \
                and at.task.exception() is not None and res.error is None:
            res.error = 'task %s crashed: %r' % (at.name, at.task.exception())
    return res


_LOOP = None


def run_conn(scenario, sched, extend=None, max_steps=400):
    """Run the real AsyncServer (terminating causes + connects) under the gate scheduler."""
    global _LOOP
    if _LOOP is None or _LOOP.is_closed():
        _LOOP = asyncio.new_event_loop()
    return _LOOP.run_until_complete(_run(scenario, sched, extend, max_steps))


def close_loop():
    global _LOOP
    if _LOOP is not None and not _LOOP.is_closed():
        _LOOP.close()
    _LOOP = None


def explore_from(scenario, prefix, limit=None, max_preempt=None):
    """Every maximal schedule that starts with `prefix` (drivers.sched_srv.explore, with the
    enumeration of alternatives restricted to the positions after the prefix)."""
    todo = [list(prefix)]
    n = 0
    while todo:
        pre = todo.pop()
        last = [pre[-1] if pre else None]

        def pick(en):
            ch = last[0] if last[0] in en else en[0]
            last[0] = ch
            return ch
        r = run_conn(scenario, pre, extend=pick)
        yield r
        n += 1
        if limit is not None and n >= limit:
            return
        for k in range(len(r.schedule) - 1, max(len(pre), len(prefix)) - 1, -1):
            for alt in reversed(r.enabled[k]):
                if alt == r.schedule[k]:
                    continue
                cand = r.schedule[:k] + [alt]
                if max_preempt is not None and S._preemptions(cand, r.enabled[:k + 1]) > max_preempt:
                    continue
                todo.append(cand)


def random_walk_from(scenario, prefix, rng, noop_rate=0.0):
    n = len(scenario['causes'])

    def pick(en):
        if noop_rate and rng.random() < noop_rate:
            return rng.randrange(n + 1)
        return rng.choice(en)
    return run_conn(scenario, list(prefix), extend=pick)
