"""Driver for C07: 2-4 REAL PubSubManager / AsyncPubSubManager instances sharing one ordered
in-memory channel, each attached to a REAL socketio.Server / AsyncServer over the real engine.io
server core (sockets built by hand as in drivers/srv.py); a write-only manager has no server.

* `_publish(data)` appends `pickle.dumps(data)` to the shared channel (what the bundled backends send);
  `_listen()` yields the batch the harness hands over, `_thread()` is called once per `Consume h`
  with a one-message batch: it unpickles, dispatches, logs "listen() exited unexpectedly" and returns
  (no thread is ever started: `start_background_task` of the server is replaced by a recorder).
* `eio.generate_id` of every server is one GLOBAL counter (`S0, S1, ...`): sids are cluster-unique.
* host ids stay the real uuid4 values; messages are printed with the index of the host that owns the id.
* the reference is a REAL single socketio.Server / AsyncServer with the default Manager, driven with
  the same operations (hosts ignored).
Effects use the vocabulary of coq/Cluster/PubSub.v."""
import asyncio
import copy
import functools
import inspect
import itertools
import pickle
import sys

from vt import common  # noqa: F401  (puts REPO/src on sys.path)
from vt import coqio
from vt.coqio import pv, cstr, copt, cN, clist, cbool, cnat

import engineio
import socketio
from engineio import packet as eio_packet
from socketio import packet as sio_packet
from socketio.pubsub_manager import PubSubManager
from socketio.async_pubsub_manager import AsyncPubSubManager


async def aw(x):
    if inspect.isawaitable(x):
        return await x
    return x


class Log:
    """server.logger / manager logger: only handler exceptions of the listener are observed."""

    def __init__(self, drv):
        self.drv = drv

    def exception(self, *a, **k):
        self.drv.eff(('Logged', self.drv.current, coqio.exn_name(sys.exc_info()[1])))

    def error(self, *a, **k):
        pass

    warning = info = debug = critical = error

    def isEnabledFor(self, *a):
        return False


class AppCb:
    def __init__(self, drv, n):
        self.drv = drv
        self.n = n

    def __call__(self, *args):
        self.drv.eff(('Callback', self.drv.current, self.n, tuple(args)))


class SyncChanMgr(PubSubManager):
    def _publish(self, data):
        self._drv.publish(data)

    def _listen(self):
        batch, self._batch = self._batch, []
        for raw in batch:
            yield raw


class AsyncChanMgr(AsyncPubSubManager):
    async def _publish(self, data):
        self._drv.publish(data)

    async def _listen(self):
        batch, self._batch = self._batch, []
        for raw in batch:
            yield raw


class Host:
    def __init__(self, drv, k, wo, plain=False):
        self.k = k
        self.wo = wo
        self.cur = 0
        self.sockets = {}
        self.bg = []
        mode = drv.mode
        if plain:
            self.mgr = None
        else:
            cls = SyncChanMgr if mode == 'sync' else AsyncChanMgr
            self.mgr = cls(write_only=wo, logger=drv.log)
            self.mgr._drv = drv
            self.mgr._batch = []
        self.sio = None
        if wo:
            return
        kw = dict(async_handlers=False, namespaces='*', logger=drv.log, engineio_logger=drv.log,
                  monitor_clients=False)
        if self.mgr is not None:
            kw['client_manager'] = self.mgr
        if mode == 'sync':
            self.sio = socketio.Server(async_mode='threading', **kw)
            self.sock_cls = engineio.socket.Socket
        else:
            self.sio = socketio.AsyncServer(async_mode='asgi', **kw)
            self.sock_cls = engineio.async_socket.AsyncSocket
        if self.mgr is None:
            self.mgr = self.sio.manager
        self.sio.eio.generate_id = drv.generate_id
        # never start a thread / task: remember what was asked for
        self.sio.start_background_task = lambda target, *a, **k: self.bg.append(getattr(target, '__name__', '?'))
        if getattr(drv, 'app', None):
            install_app(drv, self, drv.app)

    def socket(self, drv, eio):
        host = self
        base = self.sock_cls
        if drv.mode == 'sync':
            class S(base):
                def send(self, pkt):
                    if not self.closed:
                        drv.out(host.k, self.sid, pkt)
                    return super().send(pkt)
        else:
            class S(base):
                async def send(self, pkt):
                    if not self.closed:
                        drv.out(host.k, self.sid, pkt)
                    return await super().send(pkt)
        s = S(self.sio.eio, eio)
        s.last_ping = None
        s.connected = True
        return s


# ---------------------------------------------------------------- application handlers
# app = {'style': {ns: 'fn' | 'cls'}, 'handlers': {ns: {'connect': [act], 'disconnect': [act], <event>: [act]}}}
# (the same application on every host).  'fn': function handlers registered with sio.on(..., namespace=ns) that
# call the SERVER API with namespace=ns; 'cls': one class-based Namespace / AsyncNamespace whose on_* methods call
# the NAMESPACE API (self.enter_room(sid, room), ...).  An action is
#   ('enter', who, room) ('leave', who, room) ('rooms', who) ('emit', ev, data, room, skip_self)
#   ('close_room', room) ('disconnect', who)
# who: None = the handler's own client, otherwise a sid; room: the marker SELF = the room named like the handler's
# own sid, otherwise the room value itself.  Every action is recorded as a Result effect (its value or exception);
# handlers return None.  Effects: ('Handler', host, ns, name, sid, arg)  ('Result', host, ('ok', v) | ('exc', name))
SELF = ('self',)


def _api_call(api, nskw, sid, a):
    """The API call of one action: returns its result (an awaitable on the asyncio classes)."""
    kind = a[0]

    def who(w):
        return sid if w is None else w

    def room(r):
        return sid if r == SELF else copy.deepcopy(r)
    if kind == 'enter':
        return api.enter_room(who(a[1]), room(a[2]), **nskw)
    if kind == 'leave':
        return api.leave_room(who(a[1]), room(a[2]), **nskw)
    if kind == 'rooms':
        return api.rooms(who(a[1]), **nskw)
    if kind == 'emit':
        return api.emit(a[1], copy.deepcopy(a[2]), room=room(a[3]), skip_sid=sid if a[4] else None, **nskw)
    if kind == 'close_room':
        return api.close_room(room(a[1]), **nskw)
    if kind == 'disconnect':
        return api.disconnect(who(a[1]), **nskw)
    raise AssertionError('unknown action %r' % (a,))


def _plain_result(v):
    return list(v) if isinstance(v, (list, tuple)) else v


def _handler(drv, host, ns, name, acts, api_of, nskw, is_method):
    """A function (sync mode) or coroutine function (asyncio mode) running `acts`."""
    def enter(args):
        if is_method:
            args = args[1:]
        sid = args[0]
        if name == 'connect':
            arg = args[1].get('verif') if isinstance(args[1], dict) else None
        else:
            arg = args[1] if len(args) > 1 else None
        drv.eff(('Handler', host.k, ns, name, sid, copy.deepcopy(arg)))
        return sid

    if drv.mode == 'sync':
        def f(*args):
            sid = enter(args)
            api = api_of(args)
            for a in acts:
                try:
                    r = _api_call(api, nskw, sid, a)
                    drv.eff(('Result', host.k, ('ok', _plain_result(r))))
                except AssertionError:
                    raise
                except Exception as e:
                    drv.eff(('Result', host.k, ('exc', coqio.exn_name(e))))
    else:
        async def f(*args):
            sid = enter(args)
            api = api_of(args)
            for a in acts:
                try:
                    r = await aw(_api_call(api, nskw, sid, a))
                    drv.eff(('Result', host.k, ('ok', _plain_result(r))))
                except AssertionError:
                    raise
                except Exception as e:
                    drv.eff(('Result', host.k, ('exc', coqio.exn_name(e))))
    return f


def install_app(drv, host, app):
    sio = host.sio
    for ns, tbl in app['handlers'].items():
        if app['style'].get(ns, 'fn') == 'fn':
            for name, acts in tbl.items():
                sio.on(name, _handler(drv, host, ns, name, acts, lambda args: sio, {'namespace': ns}, False),
                       namespace=ns)
        else:
            base = socketio.Namespace if drv.mode == 'sync' else socketio.AsyncNamespace
            attrs = {'on_' + name: _handler(drv, host, ns, name, acts, lambda args: args[0], {}, True)
                     for name, acts in tbl.items()}
            sio.register_namespace(type('ScriptedApp', (base,), attrs)(ns))


class ClusterDriver:
    """wos: list of write_only flags, one per host.  plain=True: ONE server with the default Manager."""

    def __init__(self, wos, mode='sync', plain=False, app=None):
        self.mode = mode
        self.plain = plain
        self.app = app              # application handlers (see install_app), None = no handlers
        self.trace = []
        self.current = 0
        self.chan = []              # pickled messages
        self.chan_plain = []        # the dicts, for printing
        self.log = Log(self)
        self.inbox = {}             # eio -> [(ns, id)] ack-requesting packets received
        ctr = itertools.count()
        self.generate_id = lambda: 'S%d' % next(ctr)
        if plain:
            self.hosts = [Host(self, 0, False, plain=True)]
        else:
            self.hosts = [Host(self, k, wo) for k, wo in enumerate(wos)]
        self.host_ids = {h.mgr.host_id: h.k for h in self.hosts} if not plain else {}

    # ---- recording ----
    def eff(self, e):
        self.trace.append(e)

    def publish(self, data):
        self.chan.append(pickle.dumps(data))
        self.chan_plain.append(data)
        self.eff(('Published', copy.deepcopy(data)))

    def out(self, k, eio, epkt):
        if epkt.packet_type != eio_packet.MESSAGE:
            self.eff(('Deliver', k, eio, ('raw', epkt.packet_type)))
            return
        if not isinstance(epkt.data, str):
            self.eff(('Deliver', k, eio, ('binary',)))
            return
        p = sio_packet.Packet(encoded_packet=epkt.data)
        ns = p.namespace or '/'
        if p.packet_type == sio_packet.EVENT:
            a = ('event', ns, list(p.data), p.id)
            if p.id is not None:
                self.inbox.setdefault(eio, []).append((ns, p.id))
        elif p.packet_type == sio_packet.CONNECT:
            a = ('connect', ns, p.data)
        elif p.packet_type == sio_packet.CONNECT_ERROR:
            a = ('connect_error', ns, p.data)
        elif p.packet_type == sio_packet.DISCONNECT:
            a = ('disconnect', ns)
        else:
            a = ('other', p.packet_type)
        self.eff(('Deliver', k, eio, a))

    # ---- operations ----
    def _host(self, k):
        return self.hosts[0] if self.plain else self.hosts[k]

    async def _receive(self, h, eio, text):
        s = h.sockets.get(eio)
        await aw(s.receive(eio_packet.Packet(eio_packet.MESSAGE, text)))

    async def op(self, o):
        """Execute one operation, returns its effects."""
        self.trace = []
        kind = o[0]
        if kind == 'consume':
            if not self.plain:
                await self._consume(o[1])
            return self.trace
        k = o[1]
        h = self._host(k)
        self.current = h.k
        if h.wo and kind != 'emit':
            return self.trace
        try:
            if kind == 'connect':
                _, _, eio, ns = o
                if eio not in h.sockets:
                    s = h.socket(self, eio)
                    h.sio.eio.sockets[eio] = s
                    h.sockets[eio] = s
                    await aw(h.sio.eio._trigger_event('connect', eio, {'verif': eio}, run_async=False))
                await self._receive(h, eio, sio_packet.Packet(sio_packet.CONNECT, namespace=ns).encode())
            elif kind == 'ack':
                _, _, eio, j, args = o
                got = self.inbox.get(eio, [])
                if j < len(got) and eio in h.sockets:
                    ns, pid = got[j]
                    await self._receive(h, eio, sio_packet.Packet(sio_packet.ACK, data=list(copy.deepcopy(args)),
                                                                  namespace=ns, id=pid).encode())
            elif kind == 'emit':
                _, _, ev, data, ns, room, skip, cb = o
                cbo = AppCb(self, cb) if cb is not None else None
                if h.wo:
                    await aw(h.mgr.emit(ev, copy.deepcopy(data), namespace=ns, room=copy.deepcopy(room),
                                        skip_sid=copy.deepcopy(skip), callback=cbo))
                else:
                    await aw(h.sio.emit(ev, copy.deepcopy(data), room=copy.deepcopy(room),
                                        skip_sid=copy.deepcopy(skip), namespace=ns, callback=cbo))
            elif kind == 'enter':
                await aw(h.sio.enter_room(o[2], o[4], namespace=o[3]))
            elif kind == 'leave':
                await aw(h.sio.leave_room(o[2], o[4], namespace=o[3]))
            elif kind == 'close_room':
                await aw(h.sio.close_room(o[3], namespace=o[2]))
            elif kind == 'disconnect':
                await aw(h.sio.disconnect(o[2], namespace=o[3]))
            elif kind == 'cevent':          # the client sends EVENT [ev, arg] (no ack requested)
                _, _, eio, ns, ev, arg = o
                if eio in h.sockets:
                    await self._receive(h, eio, sio_packet.Packet(sio_packet.EVENT, data=[ev, copy.deepcopy(arg)],
                                                                  namespace=ns).encode())
            elif kind == 'cdisc':           # the client sends DISCONNECT for one namespace
                _, _, eio, ns = o
                if eio in h.sockets:
                    await self._receive(h, eio, sio_packet.Packet(sio_packet.DISCONNECT, namespace=ns).encode())
            elif kind == 'lose':            # the transport is lost: engine.io reports the disconnect
                _, _, eio, reason = o
                s = h.sockets.pop(eio, None)
                if s is not None:
                    await aw(s.close(wait=False, abort=True, reason=reason))
                    h.sio.eio.sockets.pop(eio, None)
            else:
                raise AssertionError('unknown op %r' % (o,))
        except AssertionError:
            raise
        except BaseException as e:
            self.eff(('Raised', h.k, coqio.exn_name(e)))
        if self.mode == 'async':
            await asyncio.sleep(0)
        return self.trace

    async def _consume(self, k):
        h = self.hosts[k]
        if h.wo or h.cur >= len(self.chan):
            return
        self.current = k
        self.eff(('Consumed', k, h.cur))
        h.mgr._batch = [self.chan[h.cur]]
        h.cur += 1
        try:
            await aw(h.mgr._thread())
        except BaseException as e:          # the listener died
            self.eff(('Logged', k, 'OracleMiss'))
        if self.mode == 'async':
            await asyncio.sleep(0)

    async def drain(self):
        """Immediate consumption: every host, in index order, reads everything unread."""
        out = []
        for h in self.hosts:
            if h.wo:
                continue
            n = len(self.chan) - h.cur
            for _ in range(n):
                self.trace = []
                await self._consume(h.k)
                out.extend(self.trace)
        return out

    # ---- dumps ----
    def flat(self, k):
        """Membership of host k as a list of (ns, room, sid, eio)."""
        m = self._host(k).mgr
        return [(ns, room, sid, eio) for ns, rm in m.rooms.items() for room, bd in rm.items()
                for sid, eio in bd.items()]

    def dump(self, k):
        h = self._host(k)
        m = h.mgr
        rooms = [(ns, [(room, list(bd.items())) for room, bd in rm.items()]) for ns, rm in m.rooms.items()]
        pending = [(ns, list(l)) for ns, l in m.pending_disconnect.items()]
        cbs = []
        for key, d in m.callbacks.items():
            ctr = d.get(0)
            nxt = next(copy.copy(ctr)) if ctr is not None else None
            ents = []
            for i, c in d.items():
                if i == 0:
                    continue
                if isinstance(c, AppCb):
                    ents.append((i, ('app', c.n)))
                elif isinstance(c, functools.partial):
                    a = c.args
                    ents.append((i, ('part', self.host_ids.get(a[0], 99), a[1], a[2], a[3])))
                else:
                    ents.append((i, ('other',)))
            cbs.append((key, nxt, ents))
        return {'rooms': rooms, 'pending': pending, 'callbacks': cbs, 'cur': h.cur, 'bg': list(h.bg)}


def run_cluster(wos, ops, mode='sync', immediate=True, app=None):
    """Returns (steps, finals): steps = [(op, effects, pre)] where pre = [(k, flat membership)] of
    the hosts the property checker needs at that step; finals = per-host dumps."""
    async def main():
        d = ClusterDriver(wos, mode, app=app)
        steps = []
        for o in ops:
            if o[0] == 'consume':
                pre = [(o[1], d.flat(o[1]))] if not d.hosts[o[1]].wo else []
            elif o[0] == 'emit':
                pre = [(h.k, d.flat(h.k)) for h in d.hosts]
            else:
                pre = []
            effs = list(await d.op(o))
            if immediate:
                effs += await d.drain()
            steps.append((o, effs, pre))
        return steps, [d.dump(h.k) for h in d.hosts], d
    return asyncio.run(main())


def run_single(ops, mode='sync', app=None):
    async def main():
        d = ClusterDriver([False], mode, plain=True, app=app)
        steps = []
        for o in ops:
            steps.append((o, list(await d.op(o))))
        return steps, d.dump(0)
    return asyncio.run(main())


# ---------------------------------------------------------------- printers (PubSub.v vocabulary)
def c_ns(ns):
    return copt(ns, cstr)


def c_pkt(a):
    k = a[0]
    if k == 'event':
        return '(PktEvent %s %s %s)' % (cstr(a[1]), clist([pv(x) for x in a[2]]), copt(a[3], cN))
    if k == 'connect':
        d = a[2]
        if isinstance(d, dict) and list(d.keys()) == ['sid'] and isinstance(d['sid'], str):
            return '(PktConnect %s %s)' % (cstr(a[1]), cstr(d['sid']))
        return '(PktConnect %s %s)' % (cstr(a[1]), cstr('<malformed connect payload>'))
    if k == 'connect_error':
        if a[2] == 'Unable to connect':
            return '(PktConnectError %s)' % cstr(a[1])
        return '(PktConnectError %s)' % cstr('<unexpected error payload>')
    if k == 'disconnect':
        return '(PktDisconnect %s)' % cstr(a[1])
    return '(PktConnectError %s)' % cstr('<unexpected packet %r>' % (a,))


BAD_MSG = '(MCloseRoom (PStr (s2l "<malformed message>")) [] 99%nat)'


def c_msg(m, host_ids):
    """A published dict as a msg term; anything that is not exactly one of the literals is BAD_MSG."""
    try:
        meth = m['method']
        keys = set(m.keys())
        if meth == 'callback':
            hid = host_ids.get(m['host_id'], 98)
        else:
            hid = host_ids.get(m['host_id'], 98)
        if meth == 'emit' and keys == {'method', 'event', 'data', 'namespace', 'room', 'skip_sid', 'callback', 'host_id'}:
            cb = m['callback']
            if cb is None:
                cbt = 'None'
            elif isinstance(cb, tuple) and len(cb) == 3 and isinstance(cb[0], str) and isinstance(cb[1], str):
                cbt = '(Some (%s, %s, %s))' % (cstr(cb[0]), cstr(cb[1]), cN(cb[2]))
            else:
                return BAD_MSG
            return '(MEmit %s %s %s %s %s %s %s)' % (pv(m['event']), pv(m['data']), cstr(m['namespace']), pv(m['room']),
                                                     pv(m['skip_sid']), cbt, cnat(hid))
        if meth == 'callback' and keys == {'method', 'host_id', 'sid', 'namespace', 'id', 'args'}:
            return '(MCallback %s %s %s %s %s)' % (cnat(hid), cstr(m['sid']), cstr(m['namespace']), cN(m['id']),
                                                   clist([pv(x) for x in m['args']]))
        if meth == 'disconnect' and keys == {'method', 'sid', 'namespace', 'host_id'}:
            return '(MDisconnect %s %s %s)' % (cstr(m['sid']), cstr(m['namespace']), cnat(hid))
        if meth in ('enter_room', 'leave_room') and keys == {'method', 'sid', 'room', 'namespace', 'host_id'}:
            return '(%s %s %s %s %s)' % ('MEnterRoom' if meth == 'enter_room' else 'MLeaveRoom', cstr(m['sid']),
                                          pv(m['room']), cstr(m['namespace']), cnat(hid))
        if meth == 'close_room' and keys == {'method', 'room', 'namespace', 'host_id'}:
            return '(MCloseRoom %s %s %s)' % (pv(m['room']), cstr(m['namespace']), cnat(hid))
    except Exception:
        pass
    return BAD_MSG


def c_eff(e, host_ids):
    k = e[0]
    if k == 'Deliver':
        return '(Deliver %s %s %s)' % (cnat(e[1]), cstr(e[2]), c_pkt(e[3]))
    if k == 'Callback':
        return '(Callback %s %s %s)' % (cnat(e[1]), cN(e[2]), clist([pv(x) for x in e[3]]))
    if k == 'Published':
        return '(Published %s)' % c_msg(e[1], host_ids)
    if k == 'Raised':
        return '(Raised %s %s)' % (cnat(e[1]), e[2])
    if k == 'Logged':
        return '(Logged %s %s)' % (cnat(e[1]), e[2])
    if k == 'Consumed':
        return '(Consumed %s %s)' % (cnat(e[1]), cnat(e[2]))
    raise ValueError(e)


def c_op(o):
    k = o[0]
    if k == 'connect':
        return '(Connect %s %s %s)' % (cnat(o[1]), cstr(o[2]), c_ns(o[3]))
    if k == 'emit':
        _, h, ev, data, ns, room, skip, cb = o
        return '(Emit %s %s %s %s %s %s %s)' % (cnat(h), pv(ev), pv(data), c_ns(ns), pv(room), pv(skip), copt(cb, cN))
    if k == 'enter':
        return '(EnterRoom %s %s %s %s)' % (cnat(o[1]), cstr(o[2]), c_ns(o[3]), pv(o[4]))
    if k == 'leave':
        return '(LeaveRoom %s %s %s %s)' % (cnat(o[1]), cstr(o[2]), c_ns(o[3]), pv(o[4]))
    if k == 'close_room':
        return '(CloseRoom %s %s %s)' % (cnat(o[1]), c_ns(o[2]), pv(o[3]))
    if k == 'disconnect':
        return '(Disconnect %s %s %s)' % (cnat(o[1]), cstr(o[2]), c_ns(o[3]))
    if k == 'ack':
        return '(ClientAck %s %s %s %s)' % (cnat(o[1]), cstr(o[2]), cnat(o[3]), clist([pv(x) for x in o[4]]))
    if k == 'consume':
        return '(Consume %s)' % cnat(o[1])
    raise ValueError(o)


def c_flat(fl):
    return clist(['(%s, %s, %s, %s)' % (cstr(ns), pv(room), cstr(sid), cstr(eio)) for ns, room, sid, eio in fl])


def c_dump(d):
    def bd(items):
        return clist(['(%s, %s)' % (cstr(s), cstr(e)) for s, e in items])
    rooms = clist(['(%s, %s)' % (cstr(ns), clist(['(%s, %s)' % (pv(r), bd(items)) for r, items in rm]))
                   for ns, rm in d['rooms']])
    pending = clist(['(%s, %s)' % (cstr(ns), clist([cstr(s) for s in l])) for ns, l in d['pending']])

    def ent(x):
        i, c = x
        if c[0] == 'app':
            return '(%s, DApp %s)' % (cN(i), cN(c[1]))
        if c[0] == 'part':
            return '(%s, DPart %s %s %s %s)' % (cN(i), cnat(c[1]), cstr(c[2]), cstr(c[3]), cN(c[4]))
        return '(%s, DApp 999999%%N)' % cN(i)
    cbs = clist(['(%s, %s, %s)' % (cstr(key), copt(nxt, cN), clist([ent(x) for x in ents])) for key, nxt, ents in d['callbacks']])
    return '(mkDump %s %s %s %s)' % (rooms, pending, cbs, cnat(d['cur']))


# ---------------------------------------------------------------- printers (Cluster/Handlers.v vocabulary)
def c_sel(r):
    return 'None' if r == SELF else '(Some %s)' % pv(r)


def c_act(a):
    k = a[0]
    if k == 'enter':
        return '(AEnter %s %s)' % (copt(a[1], cstr), c_sel(a[2]))
    if k == 'leave':
        return '(ALeave %s %s)' % (copt(a[1], cstr), c_sel(a[2]))
    if k == 'rooms':
        return '(ARooms %s)' % copt(a[1], cstr)
    if k == 'emit':
        return '(AEmit %s %s %s %s)' % (pv(a[1]), pv(a[2]), c_sel(a[3]), cbool(a[4]))
    if k == 'close_room':
        return '(AClose %s)' % c_sel(a[1])
    if k == 'disconnect':
        return '(ADisc %s)' % copt(a[1], cstr)
    raise ValueError(a)


def c_app(app):
    return clist(['(%s, %s)' % (cstr(ns), clist(['(%s, %s)' % (cstr(name), clist([c_act(a) for a in acts]))
                                                 for name, acts in tbl.items()]))
                  for ns, tbl in app['handlers'].items()])


def c_xop(o):
    k = o[0]
    if k == 'cevent':
        return '(XEvent %s %s %s %s %s)' % (cnat(o[1]), cstr(o[2]), c_ns(o[3]), cstr(o[4]), pv(o[5]))
    if k == 'cdisc':
        return '(XClientDisc %s %s %s)' % (cnat(o[1]), cstr(o[2]), c_ns(o[3]))
    if k == 'lose':
        return '(XLose %s %s %s)' % (cnat(o[1]), cstr(o[2]), pv(o[3]))
    return '(XBase %s)' % c_op(o)


def c_heff(e, host_ids):
    k = e[0]
    if k == 'Handler':
        return '(HHandler %s %s %s %s %s)' % (cnat(e[1]), cstr(e[2]), cstr(e[3]), cstr(e[4]), pv(e[5]))
    if k == 'Result':
        tag, v = e[2]
        return '(HResult %s (%s))' % (cnat(e[1]), 'Ok %s' % pv(v) if tag == 'ok' else 'Err %s' % v)
    return '(HE %s)' % c_eff(e, host_ids)
