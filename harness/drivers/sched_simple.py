"""Deterministic schedulers for the REAL socketio.SimpleClient (threads) and
socketio.AsyncSimpleClient (asyncio) - property C19.

Nothing of the classes under test is re-implemented: `receive()`, `emit()`, `call()` and the
four handlers that `connect()` registers are the code of /repo.  What is substituted from
outside (no hook in /repo):

* `client_class`  -> FakeClient / FakeAsyncClient: records the handlers registered through
  `.event(...)` / `.on(...)`, `connect()` adds the namespace and invokes the connect handler
  (what Client._handle_connect does), `emit()/call()` raise BadNamespaceError while the
  namespace is not in `.namespaces` (client.py:218) and otherwise record the delivery.
* threads: the two `threading.Event` attributes, the `input_buffer` list and the `connected`
  attribute of the instance are replaced by instrumented versions which hand a baton to the
  controller before every access, so exactly one thread runs between two scheduling points.
  The instrumented Event follows threading.Event: wait() tests the flag and otherwise
  registers the caller as a waiter; set() notifies every registered waiter (a notified waiter
  returns True even if the flag is cleared again); a timeout fires only when the schedule
  says so, never by wall-clock.
* asyncio: the events are subclasses of the real `asyncio.Event` (real wake-up semantics; the
  subclass only logs and tells the controller where the consumer is suspended) and the
  module-level name `asyncio` of socketio.async_simple_client is replaced by a shim whose
  `wait_for` fires its timeout when the schedule says so (same cancel-and-convert mechanism as
  asyncio.timeouts in CPython 3.12).  Handlers are plain functions: one invocation is one
  atomic step.  The consumer yields to the controller between two application calls.

A schedule is a list of ints: 0 = consumer, 1 = timer, 2+i = producer i.  A disabled choice is
a no-op.  Every run is replayable from (producer scripts, consumer script, schedule).

Scripts: producer op = ('Event', name, [args]) | ('Connect',) | ('Disconnect',) | ('Final',) |
('Ns', bool); consumer op = ('Recv', has_timeout) | ('Emit',) | ('Call',).
Labels (one list per step) mirror `lbl` of coq/Simple/SimpleClient.v.
"""
import asyncio
import threading

from vt.coqio import exn_name

NS = '/'


class Abort(BaseException):
    """Unwinds a managed thread at the end of a run."""


class Spin(BaseException):
    """A task performs an unbounded number of accesses without ever suspending."""


MAX_LABELS_PER_STEP = 300


# --------------------------------------------------------------------------------------
# result of one run
# --------------------------------------------------------------------------------------
class RunResult:
    def __init__(self):
        self.schedule = []      # choices actually taken (including no-ops of a fixed schedule)
        self.trace = []         # list of label lists, one per choice
        self.enabled = []       # enabled choices before each step
        self.status = None      # consumer: 'done' | 'ready' | 'notified' | ('blocked', has_timeout)
        self.pdone = None       # every producer finished its script
        self.buf = None         # final buffer content
        self.flags = None       # (iev, cev, conn, nsup)
        self.sent = 0
        self.error = None       # harness-level problem (string)


# --------------------------------------------------------------------------------------
# fake wrapped clients
# --------------------------------------------------------------------------------------
class _FakeBase:
    def __init__(self, *args, **kwargs):
        self.handlers = {}
        self.namespaces = {}
        self.delivered = []
        self.transport_name = 'websocket'

    def on(self, event, handler=None, namespace=None):
        def set_handler(h):
            self.handlers[(namespace or NS, event)] = h
            return h
        if handler is None:
            return set_handler
        set_handler(handler)

    def event(self, *args, **kwargs):
        if len(args) == 1 and len(kwargs) == 0 and callable(args[0]):
            return self.on(args[0].__name__)(args[0])

        def set_handler(h):
            return self.on(h.__name__, *args, **kwargs)(h)
        return set_handler

    def get_sid(self, namespace=None):
        return self.namespaces.get(namespace or NS)

    @property
    def transport(self):
        return self.transport_name

    def trigger(self, event, namespace, *args):
        """Client._trigger_event for a namespace that only has explicit + catch-all handlers."""
        h = self.handlers.get((namespace, event))
        if h is None and event not in ('connect', 'disconnect', 'connect_error', '__disconnect_final'):
            h = self.handlers.get((namespace, '*'))
            args = (event,) + tuple(args)
        if h is None:
            return None
        try:
            return h(*args)
        except TypeError:
            if event == 'disconnect':       # legacy handler without the reason argument
                return h(*args[:-1])
            raise


def make_fake_client(ctl):
    from socketio import exceptions

    class FakeClient(_FakeBase):
        def connect(self, url, headers={}, auth=None, transports=None, namespaces=None,
                    socketio_path='socket.io', wait=True, wait_timeout=1, retry=False):
            for n in namespaces or [NS]:
                self.namespaces[n] = 'sid-' + n
                self.trigger('connect', n)

        def emit(self, event, data=None, namespace=None, callback=None):
            namespace = namespace or NS
            ctl.point(('send',))
            if namespace not in self.namespaces:
                ctl.log(('Send', False))
                raise exceptions.BadNamespaceError(namespace + ' is not a connected namespace.')
            ctl.log(('Send', True))
            self.delivered.append((namespace, event, data))

        def call(self, event, data=None, namespace=None, timeout=60):
            self.emit(event, data, namespace=namespace)
            return 'ack'

        def disconnect(self):
            for n in list(self.namespaces):
                self.trigger('disconnect', n, 'client disconnect')
                self.trigger('__disconnect_final', n)
            self.namespaces = {}

    return FakeClient


def make_fake_async_client(ctl):
    from socketio import exceptions

    class FakeAsyncClient(_FakeBase):
        async def connect(self, url, headers={}, auth=None, transports=None, namespaces=None,
                          socketio_path='socket.io', wait=True, wait_timeout=1, retry=False):
            for n in namespaces or [NS]:
                self.namespaces[n] = 'sid-' + n
                self.trigger('connect', n)

        async def emit(self, event, data=None, namespace=None, callback=None):
            namespace = namespace or NS
            if namespace not in self.namespaces:
                ctl.log(('Send', False))
                raise exceptions.BadNamespaceError(namespace + ' is not a connected namespace.')
            ctl.log(('Send', True))
            self.delivered.append((namespace, event, data))

        async def call(self, event, data=None, namespace=None, timeout=60):
            await self.emit(event, data, namespace=namespace)
            return 'ack'

        async def disconnect(self):
            for n in list(self.namespaces):
                self.trigger('disconnect', n, 'client disconnect')
                self.trigger('__disconnect_final', n)
            self.namespaces = {}

    return FakeAsyncClient


# --------------------------------------------------------------------------------------
# instrumented shared objects (used by both drivers; the asyncio controller's point() is a no-op)
# --------------------------------------------------------------------------------------
class IList(list):
    """input_buffer: every access is a scheduling point and is logged."""

    def __init__(self, ctl, items=()):
        super().__init__(items)
        self._ctl = ctl

    def __len__(self):
        self._ctl.point(('buf', 'len'))
        n = super().__len__()
        self._ctl.log(('BufTest', n > 0))
        return n

    def append(self, item):
        self._ctl.point(('buf', 'append'))
        super().append(item)
        self._ctl.log(('Append', item))

    def pop(self, *idx):
        self._ctl.point(('buf', 'pop'))
        if idx == (0,):
            self._ctl.log(('Pop',))
        else:
            self._ctl.log(('Other', 1))
        return super().pop(*idx)

    def raw(self):
        return list(super().__iter__())

    def _other(name, code):
        def f(self, *a, **k):
            self._ctl.point(('buf', name))
            self._ctl.log(('Other', code))
            return getattr(list, name)(self, *a, **k)
        f.__name__ = name
        return f

    __getitem__ = _other('__getitem__', 2)
    __setitem__ = _other('__setitem__', 3)
    __delitem__ = _other('__delitem__', 4)
    __iter__ = _other('__iter__', 5)
    __contains__ = _other('__contains__', 6)
    insert = _other('insert', 7)
    extend = _other('extend', 8)
    clear = _other('clear', 9)
    remove = _other('remove', 10)
    del _other


def connected_property(ctl):
    def get(self):
        ctl.point(('conn', 'read'))
        v = self.__dict__.get('_c19_connected', False)
        ctl.log(('ConnRead', bool(v)))
        return v

    def set_(self, v):
        ctl.point(('conn', 'write'))
        self.__dict__['_c19_connected'] = v
        ctl.log(('ConnWrite', bool(v)))
    return property(get, set_)


def run_producer_op(ctl, fake, op):
    """What the wrapped Client does on its own thread / in its own task for one script op."""
    k = op[0]
    if k == 'Event':
        fake.trigger(op[1], NS, *op[2])
    elif k == 'Connect':
        fake.trigger('connect', NS)
    elif k == 'Disconnect':
        fake.trigger('disconnect', NS, 'transport error')
    elif k == 'Final':
        fake.trigger('__disconnect_final', NS)
    elif k == 'Ns':
        ctl.point(('ns', op[1]))
        if op[1]:
            fake.namespaces[NS] = 'sid-' + NS
        else:
            fake.namespaces = {}
        ctl.log(('Ns', bool(op[1])))
    else:
        raise ValueError(op)
    ctl.log(('Done',))


class FakeStack:
    """What stands below the simple client in a run.  This default: the fake wrapped Client above and
    producer scripts made of handler invocations.  drivers/sched_simple_eio.py provides the other one:
    the REAL Client / AsyncClient over a fake engine.io transport, producer scripts made of transport
    events.  A fresh object is made for every run (`stack=` of run_threads / run_async is the factory)."""
    real = False

    def client_kwargs(self, P):
        return {}

    def client_class(self, ctl, is_async):
        return make_fake_async_client(ctl) if is_async else make_fake_client(ctl)

    def connected(self, ctl, sc, P):
        pass

    def run_op(self, ctl, client, i, op):
        run_producer_op(ctl, client, op)

    def error(self):
        return None

    def close(self):
        pass


# --------------------------------------------------------------------------------------
# thread driver
# --------------------------------------------------------------------------------------
class _Task:
    def __init__(self, name):
        self.name = name
        self.sem = threading.Semaphore(0)
        self.state = 'new'          # ready | blocked | notified | done
        self.wait_ev = None
        self.wait_timeout = None
        self.wake = None
        self.thread = None
        self.error = None


class IEvent:
    """threading.Event under the baton controller."""

    def __init__(self, ctl, name):
        self._ctl = ctl
        self.name = name
        self._flag = False
        self.waiters = []

    def is_set(self):
        self._ctl.point(('ev', 'is_set'))
        self._ctl.log(('Other', 20))
        return self._flag

    isSet = is_set

    def set(self):
        self._ctl.point(('ev', 'set'))
        self._flag = True
        for t in self.waiters:
            t.state = 'notified'
            t.wake = 'notified'
        self.waiters = []
        self._ctl.log(('Set', self.name))

    def clear(self):
        self._ctl.point(('ev', 'clear'))
        self._flag = False
        self._ctl.log(('Clear', self.name))

    def wait(self, timeout=None):
        self._ctl.point(('ev', 'wait'))
        if self._flag:
            self._ctl.log(('WaitEnter', self.name, True))
            return True
        self._ctl.log(('WaitEnter', self.name, False))
        ok = self._ctl.block(self, timeout)
        self._ctl.log(('Wake', self.name) if ok else ('Timeout', self.name))
        return ok


class ThreadCtl:
    def __init__(self):
        self.by_ident = {}
        self.ctl_sem = threading.Semaphore(0)
        self.labels = []
        self.abort = False
        self.tasks = []

    # ---- called on managed threads ----
    def cur(self):
        return self.by_ident.get(threading.get_ident())

    def point(self, desc):
        t = self.cur()
        if t is None:
            return
        t.pending = desc
        self.ctl_sem.release()
        t.sem.acquire()
        if self.abort:
            raise Abort()

    def block(self, ev, timeout):
        t = self.cur()
        if t is None:
            raise RuntimeError('an unmanaged thread would block in Event.wait()')
        t.state = 'blocked'
        t.wait_ev = ev
        t.wait_timeout = timeout
        t.wake = None
        ev.waiters.append(t)
        self.ctl_sem.release()
        t.sem.acquire()
        if self.abort:
            raise Abort()
        t.state = 'ready'
        w, t.wake = t.wake, None
        return w == 'notified'

    def log(self, label):
        if self.cur() is not None:
            self.labels.append(label)
            if len(self.labels) > MAX_LABELS_PER_STEP:
                raise Spin()

    # ---- called by the controller ----
    def spawn(self, name, fn):
        t = _Task(name)

        def body():
            self.by_ident[threading.get_ident()] = t
            t.sem.acquire()
            try:
                if self.abort:
                    raise Abort()
                t.state = 'ready'
                fn()
            except Abort:
                pass
            except BaseException as e:      # a crash of the task is an observation, not a hang
                t.error = e
            finally:
                t.state = 'done'
                self.by_ident.pop(threading.get_ident(), None)
                self.ctl_sem.release()
        t.thread = threading.Thread(target=body, daemon=True, name='c19-' + name)
        t.thread.start()
        self.tasks.append(t)
        return t

    def resume(self, t):
        self.labels = []
        t.sem.release()
        self.ctl_sem.acquire()
        return self.labels

    def shutdown(self):
        self.abort = True
        for t in self.tasks:
            if t.state != 'done':
                t.sem.release()
        for t in self.tasks:
            t.thread.join(5)
        alive = [t.name for t in self.tasks if t.thread.is_alive()]
        if alive:
            raise RuntimeError('threads left running: %s' % alive)


def _consumer_body(ctl, sc, script, outs):
    for op in script:
        try:
            if op[0] == 'Recv':
                v = sc.receive(timeout=1.0 if op[1] else None)
                ctl.log(('Ret', v))
            elif op[0] == 'Emit':
                sc.emit('out', 1)
                ctl.log(('Sent',))
            else:
                sc.call('out', 1)
                ctl.log(('Sent',))
        except (Abort, Spin):
            raise
        except BaseException as e:
            ctl.log(('Raise', exn_name(e)))


def _enabled(cons_enabled, timer_enabled, prods_enabled):
    en = []
    if cons_enabled:
        en.append(0)
    if timer_enabled:
        en.append(1)
    en.extend(2 + i for i, b in enumerate(prods_enabled) if b)
    return en


def _call_over(labels):
    return any(l[0] in ('Ret', 'Raise', 'Sent') for l in labels)


def run_threads(P, C, sched, extend=None, max_steps=400, macro=False, stack=None):
    """Run the real SimpleClient under the baton scheduler.  With macro=True every choice is
    carried on to the end of the asyncio-granularity step (a producer finishes its handler
    invocation; the application task runs until it is registered in a wait or its call is
    over), so that the same schedule means the same thing for both classes."""
    import socketio
    res = RunResult()
    ctl = ThreadCtl()
    st = (stack or FakeStack)()
    cls = type('InstrumentedSimpleClient', (socketio.SimpleClient,),
               {'connected': connected_property(ctl), 'client_class': st.client_class(ctl, False)})
    sc = cls(**st.client_kwargs(P))
    sc.connected_event = IEvent(ctl, 'CE')
    sc.input_event = IEvent(ctl, 'IE')
    outs = []
    try:
        sc.connect('http://c19.invalid')
        sc.input_buffer = IList(ctl, sc.input_buffer)
        fake = sc.client
        st.connected(ctl, sc, P)
        cons = ctl.spawn('consumer', lambda: _consumer_body(ctl, sc, C, outs))
        prods = [ctl.spawn('producer%d' % i,
                           (lambda i, scr: lambda: [st.run_op(ctl, fake, i, op) for op in scr])(i, scr))
                 for i, scr in enumerate(P)]
        for t in [cons] + prods:        # run every task up to its first access
            ctl.resume(t)
        fixed = list(sched)
        k = 0
        while k < max_steps:
            en = _enabled(cons.state in ('ready', 'notified'),
                          cons.state == 'blocked' and cons.wait_timeout is not None,
                          [p.state == 'ready' for p in prods])
            if k < len(fixed):
                ch = fixed[k]
            elif extend is not None and en:
                ch = extend(en)
                if ch is None:
                    break
            else:
                break
            res.enabled.append(en)
            res.schedule.append(ch)
            if ch not in en:
                res.trace.append([])
            elif ch in (0, 1):
                if ch == 1:
                    cons.wake = 'timeout'
                    cons.wait_ev.waiters.remove(cons)
                labels = list(ctl.resume(cons))
                while macro and cons.state == 'ready' and not _call_over(labels) \
                        and len(labels) < MAX_LABELS_PER_STEP:
                    labels += ctl.resume(cons)
                res.trace.append(labels)
            else:
                t = prods[ch - 2]
                labels = list(ctl.resume(t))
                while macro and t.state == 'ready' and ('Done',) not in labels:
                    labels += ctl.resume(t)
                res.trace.append(labels)
            k += 1
        else:
            res.error = 'step bound exceeded'
        if cons.state == 'blocked':
            res.status = ('blocked', cons.wait_timeout is not None)
        else:
            res.status = cons.state
        res.pdone = all(p.state == 'done' for p in prods)
        res.buf = sc.input_buffer.raw() if isinstance(sc.input_buffer, IList) else list(sc.input_buffer)
        res.flags = (sc.input_event._flag, sc.connected_event._flag,
                     bool(sc.__dict__.get('_c19_connected')), NS in fake.namespaces)
        res.sent = len(fake.delivered)
        for t in [cons] + prods:
            if t.error is not None and res.error is None:
                res.error = 'task %s crashed: %r' % (t.name, t.error)
        if res.error is None:
            res.error = st.error()
    finally:
        ctl.shutdown()
        st.close()
    return res


# --------------------------------------------------------------------------------------
# asyncio driver
# --------------------------------------------------------------------------------------
class AsyncCtl:
    def __init__(self):
        self.labels = []
        self.state = 'new'      # gate | running | blocked | notified | done
        self.wait_ev = None
        self.wait_timeout = None
        self.cur_timeout = None
        self.timer_fired = False
        self.gate = None
        self.active = False
        self.spin = False

    def point(self, desc):
        pass

    def log(self, label):
        if self.active:
            self.labels.append(label)
            if len(self.labels) > MAX_LABELS_PER_STEP:
                self.spin = True
                raise Spin()


class _AsyncioShim:
    """Stands for the name `asyncio` inside socketio.async_simple_client."""

    def __init__(self, ctl):
        self._ctl = ctl

    def __getattr__(self, name):
        return getattr(asyncio, name)

    async def wait_for(self, aw, timeout):
        ctl = self._ctl
        ctl.cur_timeout = timeout
        try:
            return await aw
        except asyncio.CancelledError:
            if ctl.timer_fired:
                ctl.timer_fired = False
                asyncio.current_task().uncancel()
                raise asyncio.TimeoutError()
            raise
        finally:
            ctl.cur_timeout = None


def make_async_event(ctl, name):
    class IAEvent(asyncio.Event):
        def set(self):
            if ctl.state == 'blocked' and ctl.wait_ev is self:
                ctl.state = 'notified'
            super().set()
            ctl.log(('Set', name))

        def clear(self):
            super().clear()
            ctl.log(('Clear', name))

        async def wait(self):
            if asyncio.Event.is_set(self):
                ctl.log(('WaitEnter', name, True))
                return await super().wait()
            ctl.log(('WaitEnter', name, False))
            ctl.state = 'blocked'
            ctl.wait_ev = self
            ctl.wait_timeout = ctl.cur_timeout
            try:
                r = await super().wait()
            except asyncio.CancelledError:
                if ctl.timer_fired:
                    ctl.log(('Timeout', name))
                raise
            ctl.state = 'running'
            ctl.log(('Wake', name))
            return r
    return IAEvent()


async def _run_async(P, C, sched, extend, max_steps, stack=None):
    import socketio
    from socketio import async_simple_client as mod
    res = RunResult()
    ctl = AsyncCtl()
    saved = mod.asyncio
    mod.asyncio = _AsyncioShim(ctl)
    cons_task = None
    st = (stack or FakeStack)()
    try:
        cls = type('InstrumentedAsyncSimpleClient', (socketio.AsyncSimpleClient,),
                   {'connected': connected_property(ctl), 'client_class': st.client_class(ctl, True)})
        sc = cls(**st.client_kwargs(P))
        sc.connected_event = make_async_event(ctl, 'CE')
        sc.input_event = make_async_event(ctl, 'IE')
        await sc.connect('http://c19.invalid')
        sc.input_buffer = IList(ctl, sc.input_buffer)
        fake = sc.client
        st.connected(ctl, sc, P)
        loop = asyncio.get_running_loop()
        ctl.active = True

        async def consumer():
            for op in C:
                ctl.state = 'gate'
                ctl.gate = loop.create_future()
                await ctl.gate
                ctl.state = 'running'
                try:
                    if op[0] == 'Recv':
                        v = await sc.receive(timeout=1.0 if op[1] else None)
                        ctl.log(('Ret', v))
                    elif op[0] == 'Emit':
                        await sc.emit('out', 1)
                        ctl.log(('Sent',))
                    else:
                        await sc.call('out', 1)
                        ctl.log(('Sent',))
                except (asyncio.CancelledError, Spin):
                    ctl.state = 'done'
                    raise
                except BaseException as e:
                    ctl.log(('Raise', exn_name(e)))
            ctl.state = 'done'

        async def drain():
            for _ in range(200):
                await asyncio.sleep(0)
                if ctl.state in ('gate', 'blocked', 'done'):
                    return True
            return False

        ctl.state = 'running'
        cons_task = loop.create_task(consumer())
        if not await drain():
            res.error = 'consumer did not reach its first gate'
        pos = [0] * len(P)
        fixed = list(sched)
        k = 0
        while k < max_steps and res.error is None:
            en = _enabled(ctl.state in ('gate', 'notified'),
                          ctl.state == 'blocked' and ctl.wait_timeout is not None,
                          [pos[i] < len(P[i]) for i in range(len(P))])
            if k < len(fixed):
                ch = fixed[k]
            elif extend is not None and en:
                ch = extend(en)
                if ch is None:
                    break
            else:
                break
            res.enabled.append(en)
            res.schedule.append(ch)
            ctl.labels = []
            if ch not in en:
                pass
            elif ch == 0:
                if ctl.state == 'gate':
                    ctl.state = 'running'
                    ctl.gate.set_result(None)
                else:
                    ctl.state = 'running'
                if not await drain():
                    res.error = 'consumer spins without suspending'
            elif ch == 1:
                ctl.timer_fired = True
                ctl.state = 'running'
                cons_task.cancel()
                if not await drain():
                    res.error = 'consumer spins without suspending'
            else:
                i = ch - 2
                st.run_op(ctl, fake, i, P[i][pos[i]])
                pos[i] += 1
            res.trace.append(ctl.labels)
            k += 1
        if k >= max_steps:
            res.error = 'step bound exceeded'
        if ctl.state == 'blocked':
            res.status = ('blocked', ctl.wait_timeout is not None)
        elif ctl.state == 'gate':
            res.status = 'ready'
        else:
            res.status = ctl.state
        res.pdone = all(pos[i] >= len(P[i]) for i in range(len(P)))
        res.buf = sc.input_buffer.raw() if isinstance(sc.input_buffer, IList) else list(sc.input_buffer)
        res.flags = (asyncio.Event.is_set(sc.input_event), asyncio.Event.is_set(sc.connected_event),
                     bool(sc.__dict__.get('_c19_connected')), NS in fake.namespaces)
        res.sent = len(fake.delivered)
        if res.error is None:
            res.error = st.error()
    finally:
        ctl.active = False
        if cons_task is not None and not cons_task.done():
            cons_task.cancel()
            try:
                await cons_task
            except BaseException:
                pass
        elif cons_task is not None and cons_task.exception() is not None and res.error is None:
            res.error = 'consumer crashed: %r' % cons_task.exception()
        mod.asyncio = saved
        st.close()
    return res


_LOOP = None


def run_async(P, C, sched, extend=None, max_steps=400, stack=None):
    """Run the real AsyncSimpleClient under the gate scheduler (one private event loop)."""
    global _LOOP
    if _LOOP is None or _LOOP.is_closed():
        _LOOP = asyncio.new_event_loop()
    return _LOOP.run_until_complete(_run_async(P, C, sched, extend, max_steps, stack))


def close_loop():
    global _LOOP
    if _LOOP is not None and not _LOOP.is_closed():
        _LOOP.close()
    _LOOP = None


# --------------------------------------------------------------------------------------
# exploration
# --------------------------------------------------------------------------------------
def _task_of(ch):
    return 0 if ch in (0, 1) else ch        # the timer acts on the consumer


def _preemptions(schedule, enabled, upto):
    """Context switches away from a task that could have continued, in schedule[:upto]."""
    n = 0
    for k in range(1, upto):
        prev, cur = _task_of(schedule[k - 1]), _task_of(schedule[k])
        if prev != cur and any(_task_of(e) == prev for e in enabled[k]):
            n += 1
    return n


def explore(runner, P, C, limit=None, max_preempt=None):
    """Stateless depth-first enumeration of every maximal schedule made of enabled choices
    (the enabled sets are those the controller observes on the real objects).  With
    max_preempt=k only schedules with at most k preemptive context switches are visited
    (a switch is preemptive when the task that ran last could have continued)."""
    todo = [[]]
    n = 0
    while todo:
        prefix = todo.pop()
        last = [prefix[-1] if prefix else None]

        def pick(en):
            # run the current task on while it can move (no new preemption), else the first enabled
            cands = [e for e in en if last[0] is not None and _task_of(e) == _task_of(last[0])]
            ch = cands[0] if cands else en[0]
            last[0] = ch
            return ch
        r = runner(P, C, prefix, extend=pick)
        yield r
        n += 1
        if limit is not None and n >= limit:
            return
        for k in range(len(r.schedule) - 1, len(prefix) - 1, -1):
            for alt in reversed(r.enabled[k]):
                if alt == r.schedule[k]:
                    continue
                cand = r.schedule[:k] + [alt]
                if max_preempt is not None and \
                        _preemptions(cand, r.enabled[:k + 1], k + 1) > max_preempt:
                    continue
                todo.append(cand)


def random_walk(runner, P, C, rng, noop_rate=0.0):
    """One maximal run whose choices are drawn from rng among the enabled ones (with
    probability noop_rate a possibly disabled choice is inserted: it must be a no-op)."""
    n_choices = 2 + len(P)

    def pick(en):
        if noop_rate and rng.random() < noop_rate:
            return rng.randrange(n_choices)
        return rng.choice(en)
    return runner(P, C, [], extend=pick)
