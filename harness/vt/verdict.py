"""Verdict rules, known findings, replay files and evidence (DESIGN 2.4, 7.2)."""
import hashlib
import json
import os
import re
import sys

from . import common, coqio


def load_known():
    """KNOWN_FINDINGS.txt -> list of dicts (status, property, signature/commit, text)."""
    out = []
    if not os.path.exists(common.KNOWN):
        return out
    for line in open(common.KNOWN):
        line = line.strip()
        if not line or line.startswith('#'):
            continue
        m = re.match(r'open:\s+property=(\S+)\s+signature=(\S+)\s+(.*)', line)
        if m:
            out.append({'status': 'open', 'property': m.group(1), 'signature': m.group(2),
                        'text': m.group(3)})
            continue
        m = re.match(r'fixed:\s+property=(\S+)\s+(\S+)\s+(.*)', line)
        if m:
            out.append({'status': 'fixed', 'property': m.group(1), 'commit': m.group(2),
                        'text': m.group(3)})
    return out


# checker files of OTHER properties that a property's case evaluation imports
EXTRA_TARGETS = {'C12': ['Check/C14Check.v']}

class Check:
    def __init__(self, cid, tier, seed):
        self.cid = cid
        self.tier = tier
        self.seed = seed
        self.rng = common.Rng(seed).sub(cid)
        self.timer = common.Timer()
        self.level = 'proof'
        self.obligations = 0
        self.discharged = 0
        self.obligation_names = []
        self.broken = []            # broken proof obligations / correspondence, text
        self.violations = []        # (signature, what, replay path, no_input)
        self.known_hits = {}        # signature -> text
        self.evaluations = 0
        self.nontrivial = set()
        self.samples = []
        self.rule = ''
        self.distribution = {}
        self.extra = {}
        self.assumptions = []
        self.trusted_base = []
        self.checker_cmds = []
        self.traces_validated = 0
        self.known = [k for k in load_known() if k['property'] == cid]
        self.thorough = (tier == 'thorough')

    # ---- proof side ----
    def prove(self, extra_obligations=0, targets=None):
        """Build the closure of Props/<cid>.v, check the grep gate and parse
        Print Assumptions.  Returns True when every obligation is discharged."""
        self.regenerate()
        import glob as _glob
        roots = ['Props/%s.v' % self.cid] + list(targets or []) + \
            [os.path.relpath(f, common.COQ) for f in _glob.glob(os.path.join(common.COQ, 'Check', self.cid + '*.v'))]
        hits = coqio.grep_gate(roots)
        self.extra['gate_files'] = len(coqio.require_closure(roots))
        if hits:
            self.broken.append('forbidden vernacular: ' + '; '.join(hits[:5]))
        # the property's theorems, what the caller asks for, and every checker file of the property
        # (so that a check also works on a tree where only part of the development has been built)
        tg = ['Props/%s.v' % self.cid] + list(targets or [])
        for r in roots + EXTRA_TARGETS.get(self.cid, []):
            if r.startswith('Check/') and r not in tg:
                tg.append(r)
        ok, out = coqio.build(tg)
        self.checker_cmds.append('make -C coq -j%d %s' % (common.NCPU, ' '.join(t[:-2] + '.vo' for t in tg)))
        if not ok:
            bad = coqio.failed_files(out)
            self.broken.append('coq build failed in %s: %s' % (bad or '?', out[-1200:]))
            src = coqio.strip_comments(open(os.path.join(common.COQ, 'Props', self.cid + '.v')).read())
            names = re.findall(r'\b(?:Theorem|Lemma|Corollary)\s+([A-Za-z0-9_\']+)', src)
            self.obligation_names = names
            self.obligations = len(names) + extra_obligations
            self.discharged = 0
            return False
        names, closed, details, raw = coqio.props_assumptions(self.cid)
        self.checker_cmds.append('coqc -Q coq VT coq/Props/%s.v  (Print Assumptions under every theorem)' % self.cid)
        self.obligation_names = names
        self.obligations = len(names) + extra_obligations
        self.discharged = min(closed, len(names)) + extra_obligations
        if details:
            self.broken.append('assumptions: ' + '; '.join(details))
            self.discharged = min(self.discharged, max(0, closed - 0))
        if closed < len(names):
            self.broken.append('only %d of %d theorems closed under the global context' % (closed, len(names)))
        if self.thorough:
            self.coqchk()
        return not self.broken

    def regenerate(self):
        """Regenerate Base/Unicode.v and every py2coq output from /repo's working tree."""
        from . import gen_unicode
        gen_unicode.generate()
        try:
            from translator import regen_all
        except ImportError:
            return
        for msg in regen_all.regenerate(self.cid):
            if msg.startswith('ERROR'):
                self.broken.append('translator: ' + msg)

    def coqchk(self):
        rc, out = coqio.run(['coqchk', '-silent', '-o', '-Q', common.COQ, 'VT', 'VT.Props.' + self.cid],
                            3000, cwd=common.COQ)
        self.checker_cmds.append('coqchk -silent -o -Q coq VT VT.Props.%s' % self.cid)
        tail = out[-1500:]
        self.extra['coqchk'] = tail
        if rc != 0:
            self.broken.append('coqchk failed: ' + tail)
        else:
            m = re.search(r'\* Axioms:\s*(.*?)\n\s*\*', out, re.S)
            ax = (m.group(1).strip() if m else '')
            self.extra['coqchk_axioms'] = ax
            if ax and '<none>' not in ax:
                self.broken.append('coqchk reports axioms: ' + ax)

    # ---- case accounting ----
    def count(self, n=1, key=None, sample=None):
        self.evaluations += n
        if key is not None:
            self.nontrivial.add(key)
        if sample is not None and len(self.samples) < 6:
            self.samples.append(sample)

    def dist(self, k, n=1):
        self.distribution[k] = self.distribution.get(k, 0) + n

    # ---- violations ----
    def violation(self, signature, what, replay, no_input=False):
        """Record a violation.  `signature` is the structural class computed by
        the property's classifier; an `open:` line with that signature turns it
        into a KNOWN-FINDING."""
        for k in self.known:
            if k['status'] == 'open' and k['signature'] == signature:
                self.known_hits.setdefault(signature, k['text'])
                return
        if any(v[0] == signature for v in self.violations) and len(self.violations) >= 1:
            return      # one replay per signature
        os.makedirs(common.REPLAYS, exist_ok=True)
        blob = json.dumps(replay, sort_keys=True, default=repr)
        h = hashlib.sha1(blob.encode()).hexdigest()[:10]
        path = os.path.join(common.REPLAYS, '%s-%s.json' % (self.cid, h))
        with open(path, 'w') as f:
            json.dump({'property': self.cid, 'signature': signature, 'what': what,
                       'no_failing_input_found': no_input, 'seed': self.seed,
                       'replay': replay}, f, indent=1, default=repr, sort_keys=True)
        self.violations.append((signature, what, path, no_input))

    def broken_obligation(self, text):
        self.broken.append(text)

    # ---- finish ----
    def finish(self):
        # a broken proof or correspondence with no concrete failing input found
        if self.broken and not any(not v[3] for v in self.violations):
            self.violation('broken-obligation', 'proof obligation or correspondence no longer checks',
                           {'broken': self.broken}, no_input=True)
        for sig, text in self.known_hits.items():
            print('KNOWN-FINDING: property=%s %s [signature=%s]' % (self.cid, text, sig))
        for sig, what, path, no_input in self.violations:
            print('VIOLATION property=%s replay=%s%s' % (self.cid, path,
                                                         ' no-failing-input-found' if no_input else ''))
            print('  signature=%s: %s' % (sig, what))
        for b in self.broken:
            print('BROKEN: ' + b[:3000])
        self.write_evidence()
        ok = not self.violations
        print('%s %s tier=%s seed=%d obligations=%d/%d evaluations=%d nontrivial=%d wall=%.1fs' % (
            'PASS' if ok else 'FAIL', self.cid, self.tier, self.seed, self.discharged,
            self.obligations, self.evaluations, len(self.nontrivial), self.timer.elapsed()))
        sys.exit(0 if ok else 1)

    def write_evidence(self):
        os.makedirs(common.EVIDENCE, exist_ok=True)
        cov = {
            'obligations': self.obligations,
            'discharged': self.discharged,
            'obligation_names': self.obligation_names,
            'checker_cmd': ' && '.join(self.checker_cmds) or 'none',
            'trusted_base': self.trusted_base,
            'evaluations': self.evaluations,
            'distinct_nontrivial': len(self.nontrivial),
            'rule': self.rule,
            'samples': self.samples or ['(no sample recorded)'],
            'traces_validated_against_impl': self.traces_validated,
            'input_distribution': self.distribution,
            'known_findings_seen': sorted(self.known_hits),
            'broken': self.broken,
        }
        cov.update(self.extra)
        ev = {
            'property_id': self.cid,
            'tier': self.tier,
            'seed': self.seed,
            'level': self.level,
            'coverage': cov,
            'assumptions': self.assumptions,
            'wall_s': self.timer.elapsed(),
            'violations': len(self.violations),
        }
        with open(os.path.join(common.EVIDENCE, self.cid + '.json'), 'w') as f:
            json.dump(ev, f, indent=1, default=repr, sort_keys=True)
