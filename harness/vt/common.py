"""Shared paths, seeds and small helpers for the verification harness."""
import os
import random
import sys
import time

VERIF = os.path.dirname(os.path.dirname(os.path.dirname(os.path.abspath(__file__))))
REPO = os.environ.get('VERIF_REPO', '/repo')
COQ = os.path.join(VERIF, 'coq')
BUILD = os.path.join(VERIF, 'build')
EVIDENCE = os.path.join(VERIF, 'evidence')
REPLAYS = os.path.join(VERIF, 'replays')
CORPUS = os.path.join(VERIF, 'corpus')
KNOWN = os.path.join(VERIF, 'KNOWN_FINDINGS.txt')
NCPU = min(16, os.cpu_count() or 4)

# the implementation under test is always /repo's working tree
SRC = os.path.join(REPO, 'src')
if SRC not in sys.path:
    sys.path.insert(0, SRC)
os.environ.setdefault('PYTHONHASHSEED', '0')


def seed_from_env(default=20260930):
    try:
        return int(os.environ.get('VERIF_SEED', default))
    except ValueError:
        return default


class Rng(random.Random):
    """Single PRNG per run; sub-streams are derived by name so that adding a
    generator does not shift the others."""

    def __init__(self, seed):
        super().__init__(seed)
        self.seed_value = seed

    def sub(self, name):
        return Rng(hash_str('%d/%s' % (self.seed_value, name)))


def hash_str(s):
    h = 1469598103934665603
    for ch in s.encode():
        h ^= ch
        h = (h * 1099511628211) % (1 << 64)
    return h


class Timer:
    def __init__(self):
        self.t0 = time.time()

    def elapsed(self):
        return round(time.time() - self.t0, 2)
