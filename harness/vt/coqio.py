"""Python -> Gallina printers, sharded cases files, coqc runner."""
import glob
import os
import re
import subprocess
from concurrent.futures import ThreadPoolExecutor

from . import common


class Obj:
    """Opaque identity (handler, callback, ...) printed as PObj n."""

    def __init__(self, n):
        self.n = n

    def __repr__(self):
        return 'Obj(%d)' % self.n

    def __eq__(self, o):
        return isinstance(o, Obj) and o.n == self.n

    def __hash__(self):
        return hash(('Obj', self.n))


def cstr(s):
    """A str (or bytes / list of ints) as a Gallina `str` (list N)."""
    if isinstance(s, (bytes, bytearray)):
        cps = list(s)
    elif isinstance(s, str):
        cps = [ord(c) for c in s]
    else:
        cps = list(s)
    if not cps:
        return '[]'
    if all(32 <= c < 127 and c != 34 for c in cps):
        return '(s2l "%s")' % ''.join(chr(c) for c in cps)
    return '[' + ';'.join(str(c) for c in cps) + ']%N'


def cbool(b):
    return 'true' if b else 'false'


def cnat(n):
    return '%d%%nat' % n


def cN(n):
    return '%d%%N' % n


def cZ(n):
    return '(%d)%%Z' % n


def clist(items):
    return '[' + '; '.join(items) + ']'


def copt(x, f=lambda y: y):
    return 'None' if x is None else '(Some %s)' % f(x)


def pv(v):
    """Python value -> Gallina term of type pv."""
    if v is None:
        return 'PNone'
    if v is True:
        return '(PBool true)'
    if v is False:
        return '(PBool false)'
    if isinstance(v, int):
        return '(PInt (%d)%%Z)' % v
    if isinstance(v, float):
        return '(PFloat %s)' % cstr(repr(v))
    if isinstance(v, str):
        return '(PStr %s)' % cstr(v)
    if isinstance(v, (bytes, bytearray)):
        return '(PBytes %s)' % cstr(v)
    if isinstance(v, list):
        return '(PList %s)' % clist([pv(x) for x in v])
    if isinstance(v, tuple):
        return '(PTuple %s)' % clist([pv(x) for x in v])
    if isinstance(v, dict):
        return '(PDict %s)' % clist(['(%s, %s)' % (pv(k), pv(x)) for k, x in v.items()])
    if isinstance(v, Obj):
        return '(PObj %d%%N)' % v.n
    raise TypeError('cannot print %r as pv' % (v,))


def run(cmd, timeout, cwd=None):
    try:
        p = subprocess.run(cmd, cwd=cwd, stdout=subprocess.PIPE, stderr=subprocess.STDOUT,
                           timeout=timeout, text=True)
        return p.returncode, p.stdout
    except subprocess.TimeoutExpired as e:
        out = e.stdout or ''
        if isinstance(out, bytes):
            out = out.decode(errors='replace')
        return 124, out + '\nTIMEOUT after %ss' % timeout


def coqc(path, timeout=600):
    return run(['coqc', '-Q', common.COQ, 'VT', path], timeout, cwd=common.COQ)


FORBIDDEN = re.compile(r'\b(Admitted|admit|Axiom|Parameter|Conjecture|Admit Obligations)\b|'
                       r'Unset Guard|bypass_check|type-in-type|impredicative-set')


def require_closure(roots):
    """Files (relative to coq/) reachable from `roots` through `From VT Require ...` lines."""
    seen, todo = set(), list(roots)
    while todo:
        f = todo.pop()
        if f in seen or not os.path.exists(os.path.join(common.COQ, f)):
            continue
        seen.add(f)
        txt = strip_comments(open(os.path.join(common.COQ, f)).read())
        for m in re.finditer(r"From\s+VT\s+Require\s+(?:Import|Export)?\s*((?:[A-Za-z_][\w']*(?:\.[A-Za-z_][\w']*)*\s*)+)\.", txt):
            for mod in m.group(1).split():
                todo.append(mod.replace('.', '/') + '.v')
    return seen


def grep_gate(roots=None):
    """Reject forbidden vernacular.  With `roots` (paths relative to coq/): in the Require-closure
    of those files, i.e. in everything the property's theorems and checkers depend on; without:
    in the whole development (setup.sh and the final audit use that form)."""
    hits = []
    only = require_closure(roots) if roots else None
    for f in sorted(glob.glob(os.path.join(common.COQ, '**', '*.v'), recursive=True)):
        if only is not None and os.path.relpath(f, common.COQ) not in only:
            continue
        txt = strip_comments(open(f).read())
        for i, line in enumerate(txt.split('\n'), 1):
            if FORBIDDEN.search(line):
                hits.append('%s:%d: %s' % (os.path.relpath(f, common.COQ), i, line.strip()))
    return hits


def strip_comments(txt):
    out = []
    depth = 0
    i = 0
    while i < len(txt):
        if txt.startswith('(*', i):
            depth += 1
            i += 2
        elif txt.startswith('*)', i) and depth:
            depth -= 1
            i += 2
        else:
            if depth == 0:
                out.append(txt[i])
            elif txt[i] == '\n':
                out.append('\n')
            i += 1
    return ''.join(out)


def write_coqproject():
    files = sorted(os.path.relpath(f, common.COQ)
                   for f in glob.glob(os.path.join(common.COQ, '**', '*.v'), recursive=True))
    txt = '-Q . VT\n' + '\n'.join(files) + '\n'
    p = os.path.join(common.COQ, '_CoqProject')
    old = open(p).read() if os.path.exists(p) else None
    if old != txt:
        open(p, 'w').write(txt)
        run(['coq_makefile', '-f', '_CoqProject', '-o', 'Makefile'], 60, cwd=common.COQ)
    elif not os.path.exists(os.path.join(common.COQ, 'Makefile')):
        run(['coq_makefile', '-f', '_CoqProject', '-o', 'Makefile'], 60, cwd=common.COQ)


def build(targets=None, timeout=1500):
    """Full .vo build of the development (incremental through make).  With
    `targets` (paths relative to coq/, .v) only those and their dependencies."""
    write_coqproject()
    cmd = ['make', '-j%d' % common.NCPU, '-k']
    if targets:
        cmd += [t[:-2] + '.vo' if t.endswith('.v') else t for t in targets]
    rc, out = run(cmd, timeout, cwd=common.COQ)
    return rc == 0, out


def failed_files(make_output):
    return sorted(set(re.findall(r'File "\./([^"]+)", line', make_output)))


def props_assumptions(cid, timeout=600):
    """Compile Props/<cid>.v on its own and parse Print Assumptions output.
    Returns (theorems, closed, open_details, raw)."""
    path = os.path.join('Props', cid + '.v')
    src = strip_comments(open(os.path.join(common.COQ, path)).read())
    theorems = re.findall(r'\b(?:Theorem|Lemma|Corollary)\s+([A-Za-z0-9_\']+)', src)
    prints = re.findall(r'Print Assumptions\s+([A-Za-z0-9_\']+)', src)
    rc, out = coqc(path, timeout)
    if rc != 0:
        return theorems, 0, ['coqc failed: ' + out[-2000:]], out
    closed = out.count('Closed under the global context')
    details = []
    if set(theorems) - set(prints):
        details.append('theorems without Print Assumptions: %s' % sorted(set(theorems) - set(prints)))
    for m in re.finditer(r'Axioms:\n((?:.+\n?)+?)(?=\n\S|\Z)', out):
        details.append('axioms: ' + ' '.join(m.group(1).split()))
    if 'Axioms:' in out and not details:
        details.append('axioms reported')
    return theorems, closed, details, out


def eval_cases(name, imports, defs, case_type, cases, fn, shard=400, timeout=900):
    """Evaluate `fn : case_type -> nat` on every case inside coqc (vm_compute).
    Returns (codes: dict index -> nonzero code, errors: list of str).
    `cases` is a list of Gallina terms."""
    d = os.path.join(common.BUILD, 'cases')
    os.makedirs(d, exist_ok=True)
    for old in glob.glob(os.path.join(d, name + '_*')):
        os.remove(old)
    shards = []
    for k in range(0, len(cases), shard):
        path = os.path.join(d, '%s_%d.v' % (name, k // shard))
        with open(path, 'w') as f:
            f.write(imports + '\n')
            f.write(defs + '\n')
            f.write('Definition the_cases : list (%s) :=\n  [ ' % case_type)
            f.write('\n  ; '.join(cases[k:k + shard]))
            f.write(' ].\n')
            f.write('Definition the_bad := Eval vm_compute in (bad_indices (%s) the_cases).\n' % fn)
            f.write('Eval vm_compute in (List.length the_cases, List.length the_bad).\n')
            f.write('Eval vm_compute in the_bad.\n')
        shards.append((k, path))
    codes, errors = {}, []

    def one(item):
        k, path = item
        rc, out = run(['coqc', '-Q', common.COQ, 'VT', path], timeout, cwd=d)
        return k, path, rc, out

    with ThreadPoolExecutor(max_workers=common.NCPU) as ex:
        for k, path, rc, out in ex.map(one, shards):
            if rc != 0 or ': list (nat * nat)' not in out.replace('\n', ' '):
                errors.append('%s: rc=%d %s' % (os.path.basename(path), rc, out[-1500:]))
                continue
            m = re.search(r'=\s*\((\d+)(?:%nat)?,\s*(\d+)(?:%nat)?\)\s*:\s*nat \* nat', out)
            body = out[out.rindex('= '):]
            found = re.findall(r'\(\s*(\d+)(?:%nat)?,\s*(\d+)(?:%nat)?\s*\)', body)
            n_here = min(shard, len(cases) - k)
            if not m or int(m.group(1)) != n_here or int(m.group(2)) != len(found):
                errors.append('%s: could not parse coqc output reliably: %s' % (os.path.basename(path), out[-800:]))
                continue
            for i, c in found:
                codes[k + int(i)] = int(c)
    return codes, errors


def eval_print(name, imports, defs, terms, timeout=300):
    """Evaluate terms with vm_compute and return coqc's raw output (debug / replay)."""
    d = os.path.join(common.BUILD, 'cases')
    os.makedirs(d, exist_ok=True)
    path = os.path.join(d, name + '_print.v')
    with open(path, 'w') as f:
        f.write(imports + '\n' + defs + '\n')
        for t in terms:
            f.write('Eval vm_compute in (%s).\n' % t)
    rc, out = run(['coqc', '-Q', common.COQ, 'VT', path], timeout, cwd=d)
    return rc, out


# ---- exceptions -> exn ----
def exn_name(e):
    import json as _json
    name = type(e).__name__
    if isinstance(e, RecursionError):
        return 'OtherError'
    for cls, n in ((KeyError, 'KeyError'), (IndexError, 'IndexError'), (ValueError, 'ValueError'),
                   (TypeError, 'TypeError'), (AttributeError, 'AttributeError')):
        if isinstance(e, cls):
            return n
    known = ('BadNamespaceError', 'ConnectionError', 'TimeoutError', 'DisconnectedError',
             'ConnectionRefusedError', 'RuntimeError')
    if name in known:
        return 'ConnectionRefused' if name == 'ConnectionRefusedError' else name
    return 'OtherError'


def cres(ok, val_or_exn, f=lambda y: y):
    """Res printer: cres(True, term) / cres(False, 'ValueError')."""
    return '(Ok %s)' % f(val_or_exn) if ok else '(Err %s)' % val_or_exn


def cpacket(ptype, ns, pid, data):
    return '(mkPacket %s %s %s %s)' % (pv(ptype), copt(ns, cstr), copt(pid, cZ), pv(data))
