#!/venv/bin/python
"""Entry point: check.py Cxx [--tier quick|thorough] [--replay file]."""
import argparse
import importlib
import json
import os
import sys

sys.path.insert(0, os.path.dirname(os.path.abspath(__file__)))
os.environ.setdefault('PYTHONHASHSEED', '0')
from vt import common, verdict  # noqa: E402


def main():
    ap = argparse.ArgumentParser()
    ap.add_argument('cid')
    ap.add_argument('--tier', default=os.environ.get('VERIF_TIER', 'quick'))
    ap.add_argument('--replay')
    a = ap.parse_args()
    tier = a.tier if a.tier in ('quick', 'thorough') else 'quick'
    os.chdir(common.VERIF)
    mod = importlib.import_module('props.' + a.cid.lower())
    # Runs that regenerate translated Coq files from a non-default tree, or whose theorems are
    # re-proved against regenerated text, must not overlap with any other run (shared coq/ dir).
    import fcntl
    os.makedirs(common.BUILD, exist_ok=True)
    lock = open(os.path.join(common.BUILD, '.lock'), 'w')
    exclusive = bool(os.environ.get('VERIF_REPO')) or a.cid.upper() in ('C13', 'C17', 'C18')
    fcntl.flock(lock, fcntl.LOCK_EX if exclusive else fcntl.LOCK_SH)
    chk = verdict.Check(a.cid, tier, common.seed_from_env())
    if a.replay:
        data = json.load(open(a.replay))
        sys.exit(mod.replay(chk, data))
    try:
        mod.run(chk)
    except SystemExit:
        raise
    except BaseException as e:      # a harness crash is a broken check, never a silent pass
        import traceback
        chk.broken_obligation('harness error: %s\n%s' % (e, traceback.format_exc()[-3000:]))
    chk.finish()


if __name__ == '__main__':
    main()
