"""C08 - client state mirrors the server; disconnect reported once per namespace.

Also hosts the runner shared with C09 (same model Client/Client.v, same driver drivers/cli.py,
same generator gen/client_hist.py; the two differ in knobs, Coq checker and classification)."""
import ast
import os

from vt import coqio
from drivers import cli
from gen import client_hist

IMPORTS_FMT = 'From VT Require Import Client.CliCheck Check.%sCheck.'
# C09 is evaluated in the extended vocabulary of Client/ClientX.v (plain operations wrapped, plus MsgNested)
VARIANT = {'c08': ('C08', 'ccase', 'c08_code', 'c08_where', cli.ccase_term),
           'c09': ('C09X', 'xcase', 'c09x_code', 'c09x_where', cli.xcase_term)}
MODES = (('sync', False), ('async', True), ('async', False))

TRUSTED = ['Coq 8.16.1 kernel + vm_compute (case evaluation)',
           'hand model Client/Client.v on Codec/Packet.v (tied by this correspondence: effects AND state dump after every operation)',
           'harness/drivers/cli.py: real socketio.Client / AsyncClient (reconnection=False) over FakeEio / FakeAsyncEio, a fake of '
           'the engine.io client contract (connect / send / disconnect / transport error / CLOSE / _reset, exception containment) '
           'written against engineio/client.py; events never block: wait() first delivers the scheduled packets, a clear flag is a timeout',
           'gen/client_hist.py generator; Python->Gallina printers; json.loads oracle table recorded per message',
           'scripted handlers / callbacks (real functions, coroutines on the asyncio client, class-based namespaces)']

CLAUSES = {4: 'connect_sends', 8: 'wait_all_or_error', 16: 'mirror', 32: 'bad_namespace', 64: 'disconnect_once', 128: 'reset'}


def clause_names(mask, table=CLAUSES):
    return '+'.join(n for b, n in sorted(table.items()) if mask & b) or 'none'


# ---------------------------------------------------------------------------------------
# shared runner
# ---------------------------------------------------------------------------------------
def run_one(cfg, ops, mode, coro, name='c08'):
    results = cli.run_history(cfg, ops, mode, coro)
    return results, VARIANT[name][4](cfg, ops, results)


def run_histories(chk, name, histories, key_fn, shard=40):
    """histories: list of (cfg, ops, stats).  Each runs on Client, on AsyncClient with coroutine
    handlers and (every other history) on AsyncClient with plain handlers.
    Returns [(history index, mode, coro, code, term)] for non-zero codes."""
    cases, meta = [], []
    for i, (cfg, ops, stats) in enumerate(histories):
        for mode, coro in (MODES if i % 2 == 0 else MODES[:2]):
            try:
                results, term = run_one(cfg, ops, mode, coro, name)
            except Exception as e:
                chk.broken_obligation('driver error on history %d (%s): %r' % (i, mode, e))
                continue
            cases.append(term)
            meta.append((i, mode, coro, results))
            key = key_fn(cfg, cli.expand_ops(ops), results)
            chk.count(1, key, {'mode': mode, 'ops': [repr(o)[:100] for o in ops[:10]]} if i < 2 and mode == 'sync' else None)
        for o in ops:
            chk.dist('op ' + o[0])
        for s, n in (stats or {}).items():
            chk.dist('gen ' + s, n)
    codes, errors = coqio.eval_cases(name, IMPORTS_FMT % VARIANT[name][0], '', VARIANT[name][1], cases, VARIANT[name][2], shard=shard)
    chk.traces_validated += len(cases)
    for e in errors:
        chk.broken_obligation('case evaluation failed: ' + e)
    return [(meta[idx][0], meta[idx][1], meta[idx][2], code, cases[idx], meta[idx][3]) for idx, code in sorted(codes.items())]


def where(code):
    """(index of the first operation that fails a clause, clause mask) from a `<name>_code` value."""
    return code // 1024, (code % 1024) & ~3


def eval_terms(name, terms):
    codes, errors = coqio.eval_cases(name + '_shr', IMPORTS_FMT % VARIANT[name][0], '', VARIANT[name][1], terms, VARIANT[name][2],
                                     shard=max(1, len(terms)))
    if errors:
        raise RuntimeError(errors[0])
    return [codes.get(j, 0) for j in range(len(terms))]


def shrink(name, cfg, ops, mode, coro, keep, budget=14):
    """Delta debugging; every round's candidates are evaluated in ONE coqc call.
    keep(code, cand_ops, results) decides whether a candidate still shows the failure."""
    cur = list(ops)
    chunk = max(1, len(cur) // 2)
    rounds = 0
    while rounds < budget and len(cur) > 1:
        rounds += 1
        cands, terms = [], []
        for i in range(0, len(cur), chunk):
            cand = cur[:i] + cur[i + chunk:]
            if not cand:
                continue
            try:
                res, term = run_one(cfg, cand, mode, coro, name)
            except Exception:
                continue
            cands.append((cand, res))
            terms.append(term)
        if not terms:
            break
        try:
            codes = eval_terms(name, terms)
        except RuntimeError:
            break
        hit = None
        for (cand, res), code in zip(cands, codes):
            if keep(code, cand, res):
                hit = cand
                break
        if hit is not None:
            cur = hit
            chunk = max(1, min(chunk, len(cur) // 2))
        elif chunk == 1:
            break
        else:
            chunk = max(1, chunk // 2)
    return cur


def report(chk, name, hs, bad, classify, max_sigs=6):
    """One shrunk replay per distinct signature."""
    seen, where_seen = {}, {}
    for i, mode, coro, code, term, results in bad:
        cfg, ops, _ = hs[i]
        if code & 2:
            sig = classify(name, cfg, cli.expand_ops(ops), results, code)
        else:
            sig = '%s-%s-correspondence' % (name, mode)
        where_seen.setdefault(sig, set()).add('Client' if mode == 'sync' else 'AsyncClient')
        if sig not in seen and len(seen) < max_sigs:
            seen[sig] = (i, mode, coro, code)
    for sig, (i, mode, coro, code) in seen.items():
        cfg, ops, _ = hs[i]
        want_prop = bool(code & 2)

        def keep(c, cand, res, sig=sig, want_prop=want_prop, cfg=cfg):
            if want_prop:
                return bool(c & 2) and classify(name, cfg, cli.expand_ops(cand), res, c) == sig
            return bool(c & 1)
        try:
            small = ops if os.environ.get('VERIF_NOSHRINK') else shrink(name, cfg, ops, mode, coro, keep)
        except Exception:
            small = ops
        replay = {'py': repr((cfg, small, mode, coro))}
        if want_prop:
            chk.violation(sig, 'the real %s violate(s) the Coq-checked %s checker (clauses %s); replay is the minimised history on the %s client'
                          % (' and '.join(sorted(where_seen[sig], reverse=True)), name.upper(),
                             clause_names(where(code)[1], CLAUSES if name == 'c08' else C09_CLAUSES), mode),
                          replay)
        else:
            chk.broken_obligation('correspondence: Client.v and the %s client disagree (history %d)' % (mode, i))
            chk.violation(sig, 'model and implementation disagree', replay, no_input=True)


C09_CLAUSES = {4: 'event', 8: 'unique', 16: 'ack_once_right_target', 32: 'unknown_ignored', 64: 'call', 128: 'nested'}


def replay_common(chk, data, name):
    cfg, ops, mode, coro = ast.literal_eval(data['replay']['py'])
    results, term = run_one(cfg, ops, mode, coro, name)
    code = eval_terms(name, [term])[0]
    print('checker code (bit 1 = model/implementation disagree, bit 2 = property violated, bits 4..128 = clauses, // 1024 = index of the first failing operation):', code)
    diff = ('first_diff (k_cfg %s) cli_init (k_ops %s) (k_obs %s) 0' if name == 'c08' else
            'xfirst_diff (x_cfg %s) cli_init (x_ops %s) (x_obs %s) 0') % (term, term, term)
    rc, out = coqio.eval_print(name + '_replay', IMPORTS_FMT % VARIANT[name][0], '', ['%s %s' % (VARIANT[name][3], term), diff])
    print(out[-2500:])
    for o, (e, _, d) in zip(cli.expand_ops(ops), results):
        print(o, '=>', e, d)
    return 0 if code == 0 else 1


# ---------------------------------------------------------------------------------------
# C08
# ---------------------------------------------------------------------------------------
CFG_W = {'handlers': {'/': {'connect': 1, 'disconnect': 2, 'connect_error': 3},
                      '/a': {'connect': 4, 'disconnect': 5, 'connect_error': 6}},
         'ns_handlers': {},
         'behav': {h: {'arity': a, 'outcome': ('ret', None)} for h, a in ((1, 0), (2, 1), (3, None), (4, 0), (5, 1), (6, None))}}
# the witnesses of C08_wait_all_or_error_refuted / C08_mirror_refuted (Client/ClientProofs.v), replayed on the real clients
WITNESS_PARTIAL = (CFG_W, [('connect', ['/', '/a'], None, False, True, False, ['0{"sid":"S0"}', '4/a,{"message":"no"}'], False),
                           ('emit', 'x', None, '/', None)], {})
WITNESS_WINDOW_DISCONNECT = (CFG_W, [('connect', ['/'], None, False, True, False, ['0{"sid":"S0"}', '1'], False),
                                     ('emit', 'x', None, '/', None)], {})
# wait=False: the default namespace is refused, another one is accepted afterwards (third finding, notes section 4)
WITNESS_ROOT_REFUSAL = (CFG_W, [('connect', ['/', '/a'], None, False, False, False, [], False),
                                ('msg', '4{"message":"no"}'), ('msg', '0/a,{"sid":"S0"}'),
                                ('emit', 'x', None, '/a', None), ('disconnect',)], {})


def classify(name, cfg, ops, results, code):
    """Structural class of a property failure: the first failing operation, its failed clauses and what the
    implementation's state looks like after it.  The three named classes are the findings of notes/C08-C09.md;
    anything else gets a generic `c08-<clauses>-<operation>` signature."""
    i, mask = where(code)
    o = ops[i] if i < len(ops) else ('?',)
    effs, _, dump = results[i] if i < len(results) else ([], None, {'namespaces': [], 'connected': False})
    listed = [n for n, _ in dump['namespaces']]
    if o[0] == 'connect' and o[4] and mask & (8 | 16):
        # (i) a namespace the server ended inside the wait window (CONNECT then DISCONNECT) is still listed
        seen, ended = set(), set()
        for p in o[6]:
            t, ns = client_hist.packet_kind(p)
            if t == 0:
                seen.add(ns)
                ended.discard(ns)
            elif t == 1 and ns in seen:
                ended.add(ns)
        if any(n in listed for n in ended):
            return 'disconnect-inside-connect-window-ignored'
        # (d) connect() raised ConnectionError but namespaces accepted in the window are still listed
        if ('Raised', 'ConnectionError') in effs and listed:
            return 'partial-acceptance-leaves-namespaces'
    if o[0] == 'msg' and mask == 16 and client_hist.packet_kind(o[1])[0] == 0 and not dump['connected'] and listed:
        # wait=False: CONNECT_ERROR('/') cleared `connected`, this CONNECT repopulates `namespaces`
        refused_root = False
        for p in ops[:i]:
            if p[0] == 'connect':
                refused_root = False
            if p[0] == 'msg' and client_hist.packet_kind(p[1]) == (4, '/'):
                refused_root = True
        if refused_root:
            return 'root-refusal-then-accept-leaves-connected-false'
    return 'c08-%s-%s' % (clause_names(mask), o[0])


def key_fn(cfg, ops, results):
    kinds = []
    nontrivial = False
    n_conn = 0
    for o, (effs, _, d) in zip(ops, results):
        if o[0] == 'connect':
            n_conn += 1
            ws = tuple(client_hist.packet_kind(p)[0] for p in o[6])
            kinds.append(('connect', len(o[1] or []), o[4], o[5], ws, any(e[0] == 'Raised' for e in effs)))
            if o[5] or 4 in ws or 1 in ws or n_conn > 1:
                nontrivial = True
        elif o[0] == 'msg':
            t = client_hist.packet_kind(o[1])[0]
            if t in (0, 1, 4):
                kinds.append(('msg', t))
            if t == 4:
                nontrivial = True
        elif o[0] in ('loss', 'server_close', 'disconnect'):
            kinds.append((o[0], d['connected']))
            if o[0] == 'loss':
                nontrivial = True
        elif any(e == ('Raised', 'BadNamespaceError') for e in effs):
            kinds.append(('badns',))
    return tuple(kinds) if nontrivial else None


def run(chk):
    rng = chk.rng
    chk.rule = ('histories over connect(namespaces list / None / str, auth value or callable, wait True/False, transport failure) with '
                'the server packets of the wait window, server CONNECT / CONNECT_ERROR / DISCONNECT per namespace, EVENT / ACK / '
                'binary traffic, emit / send / call on connected and unconnected namespaces, disconnect(), transport loss (also mid '
                'binary packet and with callbacks outstanding), engine.io CLOSE, reconnect by a second connect; 1-3 namespaces; run on '
                'Client, AsyncClient with coroutine handlers and AsyncClient with plain handlers; function handlers, catch-alls and '
                'class-based namespaces; non-trivial = at least one refusal, transport failure, loss or reconnect; distinct by the '
                'sequence of connection-level event kinds')
    chk.trusted_base = list(TRUSTED)
    chk.assumptions = ['reconnection=False (the reconnection policy is C10)',
                       'connect / connect_error / disconnect handlers return (a raising disconnect handler aborts '
                       '_handle_eio_disconnect before its reset; outside the specified domain, see notes)',
                       'server packets are protocol-conforming per namespace (one CONNECT or CONNECT_ERROR, then at most one '
                       'DISCONNECT); a second DISCONNECT is sampled and counted but its handler calls are not judged',
                       'namespaces=None is only used when at most one namespace is derived (set iteration order)',
                       'the packets of the connect() wait window are delivered before the wait returns (connected is still False)']
    chk.prove()
    n = 700 if chk.thorough else 70
    k = client_hist.Knobs(n_ops=30 if chk.thorough else 24)
    hs = [WITNESS_PARTIAL, WITNESS_WINDOW_DISCONNECT, WITNESS_ROOT_REFUSAL]
    for _ in range(n):
        hs.append(client_hist.gen_history(rng, k))
    for _ in range(n // 7):
        hs.append(client_hist.gen_malformed(rng, k))
    bad = run_histories(chk, 'c08', hs, key_fn)
    report(chk, 'c08', hs, bad, classify)


def replay(chk, data):
    return replay_common(chk, data, 'c08')


# ---------------------------------------------------------------------------------------
# C14 (asyncio == threaded): the Client / AsyncClient pair
# ---------------------------------------------------------------------------------------
def _flat_trace(results):
    """Effects and state dump of every operation as one flat list of plain values."""
    out = []
    for i, (effs, _, d) in enumerate(results):
        out.append(('op', i))
        for e in effs:
            out.append((e[0],) + tuple(tuple(x) if isinstance(x, tuple) and e[0] in ('Call', 'CbCall') else x for x in e[1:]))
        out.append(('state', d['connected'], tuple((n, v) for n, v in d['namespaces']),
                    tuple((n, nxt, tuple(ids)) for n, nxt, ids in d['callbacks']), d['binpkt_none'], d['sid'], d['eio']))
    return out


def parity_traces(rng, n):
    """For property C14: n generated client histories (every 7th from the malformed stream), each executed on
    socketio.Client and on socketio.AsyncClient (coroutine handlers / callbacks on every other history).
    Returns [(kind, scenario_repr, trace_sync, trace_async)], kind = 'client'."""
    k = client_hist.Knobs(n_ops=22)
    items = []
    for j in range(n):
        cfg, ops, _ = client_hist.gen_malformed(rng, k) if j % 7 == 6 else client_hist.gen_history(rng, k)
        rs = cli.run_history(cfg, ops, 'sync', False)
        ra = cli.run_history(cfg, ops, 'async', j % 2 == 0)
        items.append(('client', repr((cfg, ops)), _flat_trace(rs), _flat_trace(ra)))
    return items
