"""C02 - end-to-end payload transparency between client and server handlers.

Proof side: Props/C02.v (E2E/Pipe.v, Codec/MsgPack.v, E2E/E2EProofs.v on top of C01).
Tie: REAL socketio.Client <-> socketio.Server and AsyncClient <-> AsyncServer connected in
memory (drivers/loopback.py) through the real engine.io packet / payload codecs, for
{sync, async} x {default, msgpack} x {b64 (polling) on, off (websocket)}.  Per scenario: one or
two namespaces, a sequence of emit / send / call operations in both directions with generated
payloads and handler return values.  For each direction one `Stream` case = everything one
sender sent (emits and ACK replies, in order), the frames it produced, and everything the peer's
handlers / callbacks received, in order.  In Coq (vm_compute):
  bit 1  Pipe.v on the sent values produces exactly those frames (msgpack: the blob whose
         decoded dictionary equals the model's _to_dict) and Pipe.v's reassembly loop on those
         frames delivers what the real receiver delivered;
  bit 2  what was delivered == map msg_call (sent) - `pack data` computed in Coq from the sent
         values only; call() results == call_result (pack r); callback arguments == pack r.
Acknowledgement registries (E2E/AckTable.v): per scenario and sender one `Acks` case = the timeline
of that sender's registry (callbacks registered, ACKs arriving, call()s ending, in the order they
happened).  `gen_late_scenario` gives every operation a delivery budget, so that call()s time out
while their ACK is in flight and ACKs arrive late, interleaved with later emits / calls:
  bit 1  the real registry of AckTable.v (per-key counter, routing by (key, id)) run on the ACK
         packets as they arrived draws the same ids, invokes the same callbacks (closures of
         call() included) and ends every call() the same way;
  bit 2  the ideal registry (an ACK invokes exactly the outstanding registration it replies to),
         run on `pack r` of the handlers' return values, invokes the same application callbacks
         with the same arguments and ends every call() the same way: TimeoutError exactly when
         the ACK replying to it had not arrived, otherwise call_result of its OWN handler's value.
"""
import asyncio
import copy

from vt import coqio
from vt.coqio import pv, cstr, copt, cZ, clist, cres
from gen import values
from drivers import loopback

IMPORTS = 'From VT Require Import Codec.Packet Codec.MsgPack E2E.Pipe Check.C02Check.'

CONFIGS = [(m, s, b) for m in ('sync', 'async') for s in ('default', 'msgpack') for b in (True, False)]
NAMESPACES = ['/', '/chat', '/a/b', '/1-2', '/12-', '/é\U0001f600', '/x y']
EVENTS = ['ev', 'my-event', 'message', '1-2', 'x y', '', 'é\U0001f600', '*ev', 'connect2', '2', '"q"\\']


# --------------------------------------------------------------------------- generation
def _sanitize(v, ser):
    """Keep generated values inside the property's domain: ints within 64 bits; for msgpack also
    text made of Unicode scalar values (UTF-8 encodable)."""
    if isinstance(v, bool) or v is None or isinstance(v, (bytes, float)):
        return v
    if isinstance(v, int):
        if ser == 'msgpack' and not (-2 ** 63 <= v < 2 ** 64):
            return 2 ** 63 - 1 if v > 0 else -2 ** 63
        return v
    if isinstance(v, str):
        if ser == 'msgpack':
            return ''.join('S' if 0xd800 <= ord(c) <= 0xdfff else c for c in v)
        return v
    if isinstance(v, list):
        return [_sanitize(x, ser) for x in v]
    if isinstance(v, tuple):
        return tuple(_sanitize(x, ser) for x in v)
    if isinstance(v, dict):
        return {_sanitize(k, ser): _sanitize(x, ser) for k, x in v.items()}
    return v


def gen_payload(rng, ser):
    """What the application passes to emit / returns from a handler."""
    r = rng.random()
    depth = rng.choice([0, 1, 2, 2, 3, 4])
    if r < 0.12:
        v = None
    elif r < 0.45:
        v = tuple(values.gen_json(rng, depth, bytes_ok=True) for _ in range(rng.choice([0, 1, 2, 2, 3, 4])))
    elif r < 0.55:
        v = values.gen_bytes(rng)
    else:
        v = values.gen_json(rng, depth, bytes_ok=True)
        if v is None:
            v = [None]
    return _sanitize(v, ser)


def has_bytes_py(v):
    if isinstance(v, (bytes, bytearray)):
        return True
    if isinstance(v, (list, tuple)):
        return any(has_bytes_py(x) for x in v)
    if isinstance(v, dict):
        return any(has_bytes_py(x) for x in v.values())
    return False


def gen_nested_bytes(rng, ser):
    """A payload with byte strings BELOW the top level (inside a list / dict of an argument)."""
    inner = rng.choice([
        lambda: [values.gen_bytes(rng), values.gen_json(rng, 1, True)],
        lambda: {'k': values.gen_bytes(rng), 'l': [values.gen_bytes(rng), 1]},
        lambda: {'a': {'b': [values.gen_bytes(rng)]}, 'c': values.gen_json(rng, 2, True)},
        lambda: [[values.gen_bytes(rng)], {'x': values.gen_bytes(rng)}],
        # many byte strings in one message: counts around the attachment-count digits (9, 10, 11, 12, 16 ...)
        lambda: [bytes([i, 255 - i]) for i in range(rng.choice([9, 10, 11, 12, 16, 23]))],
        lambda: {'parts': [{'n': i, 'blob': bytes([i])} for i in range(rng.choice([10, 11, 13]))], 'sum': b'\x00'},
    ])()
    r = rng.random()
    if r < 0.4:
        v = inner
    elif r < 0.8:
        v = (values.gen_json(rng, 1, True), inner)
    else:
        v = (inner, values.gen_bytes(rng), values.gen_text(rng))
    return _sanitize(v, ser)


def gen_scenario(rng, cfg, thorough):
    mode, ser, b64 = cfg
    nss = rng.sample(NAMESPACES, rng.choice([1, 2, 2]))
    nmax = 20 if thorough else 6
    ops = []
    async_handlers = rng.random() < 0.5
    for direction in ('c2s', 's2c'):
        for _ in range(rng.randrange(1, nmax + 1)):
            kind = rng.choice(['emit', 'emit', 'emit', 'send', 'call'])
            if kind == 'call' and direction == 's2c' and not async_handlers:
                kind = 'emit'          # Server.call() raises RuntimeError unless async_handlers
            ev = 'message' if kind == 'send' else rng.choice(EVENTS + [values.gen_text(rng, 6)])
            if ev in ('connect', 'disconnect', 'connect_error', '__disconnect_final', '*'):
                ev = 'ev'
            ev = _sanitize(ev, ser)
            ack = kind == 'call' or rng.random() < 0.5
            ops.append({'dir': direction, 'kind': kind, 'event': ev, 'data': gen_payload(rng, ser),
                        'ns': rng.choice(nss), 'ack': ack, 'ret': gen_payload(rng, ser),
                        'batch': rng.random() < 0.4})
            # hold: the frames stay queued after the API call returns and travel together with the
            # following messages of the same direction (several messages back to back in one payload)
            ops[-1]['hold'] = kind != 'call' and rng.random() < 0.3
            ops[-1]['first'] = rng.choice(['c2s', 's2c'])       # which queue the pump serves first
    rng.shuffle(ops)
    # the SAME payload object sent several times in a row (emit in a loop, emit to two recipients
    # = the client's sids in two namespaces, retry), and handlers returning one shared constant
    # for several events: groups of consecutive operations that share `data` / `ret` by identity
    gid = 0
    for _ in range(rng.choice([0, 1, 1, 2])):
        gid += 1
        base = rng.choice(ops)
        n = rng.choice([2, 2, 3])
        data = gen_nested_bytes(rng, ser)
        ret = gen_nested_bytes(rng, ser)
        share_ret = rng.random() < 0.6
        group = []
        for j in range(n):
            o = dict(base, data=data, share=gid, ns=rng.choice(nss))
            if o['kind'] == 'send':
                o['event'] = 'message'
            if share_ret:
                o['ret'] = ret
                o['ret_share'] = gid
                o['ack'] = True if j < 2 else o['ack']
            if o['kind'] == 'call':
                o['hold'] = False
            group.append(o)
        at = rng.randrange(len(ops) + 1)
        ops[at:at] = group
    # nested delivery on the client: a handler of a server->client event has the next frame(s)
    # delivered while it is still running
    nested = rng.random() < 0.35
    coro = rng.random() < 0.5
    if nested:
        if mode == 'async':
            coro = True
        for o in ops:
            if o['dir'] == 's2c':
                if o['kind'] != 'call' and rng.random() < 0.6:
                    o['hold'] = True
                if rng.random() < 0.6:
                    o['nest'] = rng.choice([1, 1, 2, 3])
    return {'cfg': list(cfg), 'namespaces': nss, 'ops': ops, 'async_handlers': async_handlers,
            'coro': coro, 'catchall': rng.random() < 0.25, 'nested': nested}


def gen_late_scenario(rng, cfg, thorough):
    """Acknowledgements that arrive LATE.  Mostly one sender (so that its ACKs pile up on few
    namespaces), a sequence of call() / emit-with-callback / plain emits; every operation has a
    delivery budget per direction (loopback.Loopback.budget): how many frames may be delivered
    while it runs (inside the wait() of its call(), and after its API call has returned).
      timely      no limit: the event is handled and the ACK comes back at once
      late-ack    the event is delivered and handled, the ACK (and everything else that travels
                  back) stays in flight: a call() times out
      late-event  the event itself stays in flight (all of it, or all but its first frame)
      partial     the first 1-3 frames travelling back are delivered: ACKs of EARLIER operations
                  arrive (late) inside this operation, its own ACK possibly not
    Whatever is in flight is delivered, in order, during later operations or at the end."""
    mode, ser, b64 = cfg
    nss = rng.sample(NAMESPACES, rng.choice([1, 1, 2]))
    nmax = 10 if thorough else 6
    async_handlers = rng.random() < 0.6
    main = rng.choice(['c2s', 'c2s', 's2c'])
    other = {'c2s': 's2c', 's2c': 'c2s'}
    ops = []
    for j in range(rng.randrange(2, nmax + 1)):
        d = main if rng.random() < 0.8 else other[main]
        kind = rng.choice(['call', 'call', 'call', 'emit', 'emit', 'send'])
        if kind == 'call' and d == 's2c' and not async_handlers:
            kind = 'emit'          # Server.call() raises RuntimeError unless async_handlers
        ev = 'message' if kind == 'send' else rng.choice(EVENTS + [values.gen_text(rng, 6)])
        if ev in ('connect', 'disconnect', 'connect_error', '__disconnect_final', '*'):
            ev = 'ev'
        ev = _sanitize(ev, ser)
        ack = kind == 'call' or rng.random() < 0.85
        ret = gen_payload(rng, ser) if rng.random() < 0.6 else rng.choice(
            ['r%d' % j, ('r%d' % j, j), ('r%d' % j,), {'op': j}, [j], j])
        how = rng.choice(['timely', 'late-ack', 'late-ack', 'late-event', 'partial'])
        fwd, back = d, other[d]
        budget = {'timely': {fwd: None, back: None},
                  'late-ack': {fwd: None, back: 0},
                  'late-event': {fwd: rng.choice([0, 0, 1]), back: 0},
                  'partial': {fwd: None, back: rng.choice([1, 1, 2, 3])}}[how]
        ops.append({'dir': d, 'kind': kind, 'event': ev, 'data': gen_payload(rng, ser),
                    'ns': nss[0] if rng.random() < 0.75 else rng.choice(nss), 'ack': ack, 'ret': ret,
                    'batch': rng.random() < 0.3, 'hold': kind != 'call' and rng.random() < 0.15,
                    'first': rng.choice(['c2s', 's2c']), 'budget': budget, 'how': how})
    return {'cfg': list(cfg), 'namespaces': nss, 'ops': ops, 'async_handlers': async_handlers,
            'coro': rng.random() < 0.5, 'catchall': rng.random() < 0.25, 'nested': False, 'late': True}


def late_stats(sc, out):
    """(call()s that timed out, ACKs that reached a call() after it had ended, ACKs of emits that
    arrived during a later operation's call())."""
    timeouts = late = 0
    for d in ('c2s', 's2c'):
        owners, n_ack, ended = ack_owner(out, d), 0, set()
        for e in out['tl'][d]:
            if e[0] == 'end':
                ended.add(e[1])
                timeouts += e[2][0] == 'raise' and e[2][1] == 'TimeoutError'
            elif e[0] == 'ack':
                owner = owners[n_ack] if n_ack < len(owners) else None
                n_ack += 1
                late += owner in ended
    return timeouts, late


# --------------------------------------------------------------------------- execution
def pack_py(v):
    """Only used to classify violations (the checker computes `pack` in Coq)."""
    if isinstance(v, tuple):
        return list(v)
    return [] if v is None else [v]


async def _run(sc):
    mode, ser, b64 = sc['cfg']
    lb = loopback.Loopback(mode, ser, b64, async_handlers=sc['async_handlers'], coro_handlers=sc['coro'])
    sent = {'c2s': [], 's2c': []}         # msg records in sending order
    pending = {'c2s': [], 's2c': []}      # emitted ops whose handler has not run yet
    results = []                          # per op: API result, callback args

    shared = {}                           # share group -> THE payload object handed to emit each time
    shared_ret = {}                       # ret_share group -> THE object the handlers return
    originals = []                        # (original deep copy, the object the library was given)

    def handler(direction, ns, ev, args, cid):
        """Called when a handler is entered; the ACK value is produced when it returns."""
        opk, op = pending[direction].pop(0) if pending[direction] else (None, None)

        def finish():
            if op is None:
                return None
            if op['ack']:
                back = 's2c' if direction == 'c2s' else 'c2s'
                sent[back].append(('ack', copy.deepcopy(op['ret']), op['ns'], op.get('id'), opk))
            if 'ret_share' in op:
                g = op['ret_share']
                if g not in shared_ret:
                    shared_ret[g] = copy.deepcopy(op['ret'])
                    originals.append((copy.deepcopy(op['ret']), shared_ret[g]))
                return shared_ret[g]
            r = copy.deepcopy(op['ret'])
            if has_bytes_py(r):
                originals.append((copy.deepcopy(op['ret']), r))
            return r
        nest = op.get('nest', 0) if (op is not None and direction == 's2c') else 0
        return nest, finish

    events = {}
    for op in sc['ops']:
        events.setdefault((op['dir'], op['ns']), set()).add(op['event'])
    for (direction, ns), evs in sorted(events.items()):
        reg = lb.on_server if direction == 'c2s' else lb.on_client
        if sc['catchall']:
            reg('*', ns, handler)
        else:
            for ev in sorted(evs):
                reg(ev, ns, handler)
    connected = await lb.connect(sc['namespaces'])
    if set(connected) != set(sc['namespaces']):
        return {'error': 'connect failed: %r' % (connected,)}
    # the CONNECT exchange is not part of the streams
    for d in ('c2s', 's2c'):
        lb.wire[d].clear()
        lb.jtab[d].clear()
        lb.rx[d].clear()
    for k, op in enumerate(sc['ops']):
        d = op['dir']
        lb.batch = op['batch']
        lb.first = op.get('first', 'c2s')
        # late acknowledgements: how many frames of each direction may be delivered during this
        # operation (inside the wait() of its call() and when its API call has returned)
        lb.budget = dict(op.get('budget') or {'c2s': None, 's2c': None})
        rec = {'cb': None, 'api': None}
        results.append(rec)

        def cb(*args, _rec=rec, _k=k, _d=d):
            _rec['cb'] = list(args)
            lb.fired(_d, ('user', _k, list(args)))
        sender = lb.client if d == 'c2s' else lb.sio
        kw = {'namespace': None if (op['ns'] == '/' and k % 2) else op['ns']}
        if d == 's2c':
            kw['to'] = lb.server_sid(op['ns'])
        if 'share' in op:
            if op['share'] not in shared:
                shared[op['share']] = copy.deepcopy(op['data'])
                originals.append((copy.deepcopy(op['data']), shared[op['share']]))
            data = shared[op['share']]          # the very same object every time
        else:
            data = copy.deepcopy(op['data'])
            if has_bytes_py(data):
                originals.append((copy.deepcopy(op['data']), data))
        m = ['emit', op['event'], copy.deepcopy(op['data']), op['ns'], None]
        sent[d].append(m)
        pending[d].append((k, op))
        if op['kind'] == 'call':
            fn, args = sender.call, (op['event'], data)
            kw['timeout'] = 1
        elif op['kind'] == 'send':
            fn, args = sender.send, (data,)
        else:
            fn, args = sender.emit, (op['event'], data)
        if op['ack'] and op['kind'] != 'call':
            kw['callback'] = cb

        # the ack id is drawn inside emit / call; call() pumps the loop while it waits, so the
        # peer's handler runs before call() returns: the id is published the moment it exists
        def hook(i, _op=op, _m=m):
            _op['id'] = i
            _m[4] = i
        lb.id_hook[d] = hook
        lb.issuing = k
        after = None
        if op['kind'] == 'call':
            def after(res, _k=k, _d=d):
                lb.tl[_d].append(['end', _k, res])
        try:
            rec['api'] = await lb.api(fn, *args, _flush=not op.get('hold'), _after=after, **kw)
        finally:
            lb.id_hook[d] = None
            lb.issuing = None
    lb.budget = {'c2s': None, 's2c': None}
    await lb.api(lambda: None)
    # With async_handlers=True the server runs each event handler in a task (thread) of its own,
    # by design concurrently with whatever the receive loop does next: an ACK that FOLLOWS an EVENT on
    # the wire reaches its callback before the EVENT's handler has started.  "Handled in the order
    # sent" is then the order in which the receive loop dispatched the packets: the observations
    # carry that dispatch number and are put in that order (the fact is counted and reported).
    invoked = {d: [e[:-1] for e in lb.rx[d]] for d in lb.rx}
    reordered = False
    if sc['async_handlers']:
        by_dispatch = sorted(lb.rx['c2s'], key=lambda e: (e[-1] is None, e[-1] or 0))
        reordered = by_dispatch != lb.rx['c2s']
        lb.rx['c2s'] = by_dispatch
    lb.rx = {d: [e[:-1] for e in lb.rx[d]] for d in lb.rx}
    out = {'sent': sent, 'wire': lb.wire, 'jtab': lb.jtab, 'rx': lb.rx, 'escaped': lb.escaped,
           'invoked': invoked, 'reordered': reordered, 'originals': originals,
           'nested_deliveries': lb.nested_deliveries, 'tl': lb.tl,
           'results': results, 'unhandled': {d: len(pending[d]) for d in pending}}
    return out


def run_scenario(sc):
    try:
        return asyncio.run(_run(sc))
    except BaseException as e:      # noqa: B902
        import traceback
        return {'error': '%s: %s' % (type(e).__name__, traceback.format_exc()[-1500:])}


# --------------------------------------------------------------------------- Gallina printers
def c_msg(m):
    if m[0] == 'emit':
        return '(MEmit %s %s %s %s)' % (cstr(m[1]), pv(m[2]), cstr(m[3]), copt(m[4], cZ))
    return '(MAck %s %s %s)' % (pv(m[1]), cstr(m[2]), cZ(m[3] if m[3] is not None else -1))


def c_rx(e):
    if e[0] == 'ev':
        cid = e[4]
        if not (cid is None or isinstance(cid, int)):
            cid = -2
        return '(EvCall %s %s %s %s)' % (cstr(e[1]), pv(e[2]), clist([pv(x) for x in e[3]]), copt(cid, cZ))
    return '(AckCall %s %s %s)' % (cstr(e[1]), copt(e[2], cZ), clist([pv(x) for x in e[3]]))


def c_jtab(tbl):
    items = []
    for s, ok, r in tbl:
        try:
            items.append('(%s, %s)' % (cstr(s), cres(ok, pv(r) if ok else r)))
        except TypeError:
            items.append('(%s, (Err OtherError))' % cstr(s))
    return clist(items)


def c_mtab(wire):
    import msgpack
    items = []
    for w in wire:
        if isinstance(w, (bytes, bytearray)):
            try:
                items.append('(%s, %s)' % (pv(msgpack.loads(w)), cstr(w)))
            except Exception:
                pass
    return clist(items)


def stream_case(sc, out, d):
    ser = 'SerDefault' if sc['cfg'][1] == 'default' else 'SerMsgpack'
    direction = 'C2S' if d == 'c2s' else 'S2C'
    mt = c_mtab(out['wire'][d]) if ser == 'SerMsgpack' else '[]'
    return '(Stream %s %s %s %s %s %s %s)' % (
        ser, direction, clist([c_msg(m) for m in out['sent'][d]]), c_jtab(out['jtab'][d]), mt,
        clist([pv(w) for w in out['wire'][d]]), clist([c_rx(e) for e in out['rx'][d]]))


def c_who(sc, k):
    """The callback operation k registers: the closure of its call() or the application's callback."""
    if k is None or not (0 <= k < len(sc['ops'])):
        return '(WUser 999999%N)'
    return '(%s %d%%N)' % ('WCall' if sc['ops'][k]['kind'] == 'call' else 'WUser', k)


def ack_owner(out, d):
    """FIFO correlation: the n-th ACK that reaches the sender of direction d is the n-th ACK its
    peer sent (the Stream case of the opposite direction checks namespace, id and arguments of
    exactly this pairing); -> operation index of each ACK of the timeline, in order."""
    back = 's2c' if d == 'c2s' else 'c2s'
    return [m[4] if len(m) > 4 else None for m in out['sent'][back] if m[0] == 'ack']


def acks_case(sc, out, d):
    """The timeline of the registry of direction d's sender as a Gallina `Acks` case (or None when
    that sender registered no callback and received no ACK)."""
    tl = out.get('tl', {}).get(d) or []
    if not tl:
        return None
    owners = ack_owner(out, d)
    evs, n_ack, rets = [], 0, []
    for k, op in enumerate(sc['ops']):
        if op['dir'] == d and op['ack']:
            rets.append('(%d%%N, %s)' % (k, pv(op['ret'])))
    for e in tl:
        if e[0] == 'reg':
            evs.append('(OReg %s %s %s)' % (cstr(e[2]), c_who(sc, e[1]), cZ(e[3])))
        elif e[0] == 'ack':
            owner = owners[n_ack] if n_ack < len(owners) else None
            n_ack += 1
            fired = []
            for f in e[4]:
                if f[0] == 'user':
                    fired.append('(WUser %d%%N, Some %s)' % (f[1], clist([pv(x) for x in f[2]])))
                else:
                    fired.append('(WCall %d%%N, None)' % f[1])
            cid = e[2] if (e[2] is None or isinstance(e[2], int)) else -2
            evs.append('(OAck %s %s %s %s %s)' % (
                'None' if owner is None else '(Some %s)' % c_who(sc, owner), cstr(e[1]), copt(cid, cZ),
                clist([pv(x) for x in e[3]]), clist(fired)))
        elif e[0] == 'end':
            res = e[2]
            if res[0] == 'ok':
                try:
                    evs.append('(OEnd %d%%N (Ok %s))' % (e[1], pv(res[1])))
                except TypeError:
                    evs.append('(OEnd %d%%N (Ok (PObj 0%%N)))' % e[1])
            else:
                evs.append('(OEnd %d%%N (Err %s))' % (e[1], res[1]))
        else:       # a callback invoked outside any ACK dispatch: no machine produces that
            evs.append('(OAck None [] None [] [(WUser 999999%N, None); (WUser 999999%N, None)])')
    return '(Acks %s %s)' % (clist(rets), clist(evs))


def ideal_py(sc, out, d):
    """Python twin of AckTable.i_run restricted to what the application sees (as bit 2), ONLY to
    name the kind of failure (the verdict is Coq's): -> list of (what, text)."""
    tl = out.get('tl', {}).get(d) or []
    owners = ack_owner(out, d)
    ops = sc['ops']
    live, got, diffs, n_ack = set(), {}, [], 0
    for e in tl:
        if e[0] == 'reg':
            live.add(e[1])
        elif e[0] == 'ack':
            owner = owners[n_ack] if n_ack < len(owners) else None
            n_ack += 1
            known = owner is not None and 0 <= owner < len(ops)
            exp_args = pack_py(ops[owner]['ret']) if known else None
            seen = [(f[1], f[2]) for f in e[4] if f[0] == 'user']
            closures = [f[1] for f in e[4] if f[0] == 'call']
            expect = []
            if owner in live:
                live.discard(owner)
                if ops[owner]['kind'] == 'call':
                    got.setdefault(owner, exp_args)
                else:
                    expect = [(owner, exp_args)]
            if known and e[3] != exp_args:
                diffs.append(('ack-args', 'the ACK replying to operation %d carries %r, its handler returned %r'
                              % (owner, e[3], ops[owner]['ret'])))
            if seen != expect or [k for k in closures if k != owner]:
                if expect and not seen and not closures:
                    diffs.append(('callback-lost', 'the ACK replying to operation %d (emit with callback) invoked no '
                                  'callback' % owner))
                elif [k for k, _ in seen] != [k for k, _ in expect] or closures:
                    diffs.append(('misrouted', 'the ACK replying to operation %r invoked the callback of operation(s) %s'
                                  % (owner, [k for k, _ in seen] + closures)))
                else:
                    diffs.append(('callback-args', 'callback of operation %d received %r for handler return value %r'
                                  % (owner, seen[0][1], ops[owner]['ret'])))
        elif e[0] == 'end':
            k, res = e[1], e[2]
            if k in got:
                a = got[k]
                exp = ('ok', None if not a else a[0] if len(a) == 1 else tuple(a))
            else:
                exp = ('raise', 'TimeoutError')
            if tuple(res[:2]) != exp:
                what = 'call-result' if res[0] == 'ok' else 'call-timeout'
                diffs.append((what, 'call() of operation %d ended with %r; its own handler returned %r and the ACK replying '
                              'to it had %s when the wait ended' % (k, res[:2], ops[k]['ret'],
                                                                    'arrived' if k in got else 'NOT arrived')))
        else:
            diffs.append(('stray-callback', repr(e)))
    for k in sorted(live):
        diffs.append(('callback-lost', 'operation %d: no ACK replying to it reached the sender' % k))
    # name the failure by what the application sees first; a closure invoked by a foreign ACK
    # ("misrouted" without a visible effect yet) ranks last
    visible = [x for x in diffs if x[0] != 'misrouted' or 'callback of operation(s) []' not in x[1]]
    return visible or diffs


def classify(sc, out, d):
    """Structural class of a property failure on one stream (for the signature)."""
    exp = []
    for m in out['sent'][d]:
        if m[0] == 'emit':
            exp.append(('ev', m[3], m[1], pack_py(m[2]), m[4]))
        else:
            exp.append(('ack', m[2], m[3], pack_py(m[1])))
    got = [tuple(e) for e in out['rx'][d]]
    exp = [tuple(e) for e in exp]
    if len(got) != len(exp):
        return 'count'
    if sorted(map(repr, got)) == sorted(map(repr, exp)):
        return 'order'
    for g, e in zip(got, exp):
        if g != e:
            if g[0] != e[0]:
                return 'kind'
            if g[0] == 'ev':
                if g[1] != e[1]:
                    return 'namespace'
                if g[2] != e[2]:
                    return 'event'
                if g[4] != e[4]:
                    return 'ack-id'
                return 'handler-args'
            if g[1] != e[1]:
                return 'ack-namespace'
            if g[2] != e[2]:
                return 'ack-id'
            return 'ack-args'
    return 'value'      # equal under Python ==, different under structural equality (type / key order)


def nontrivial(op):
    def deep(v, n=0):
        if isinstance(v, (list, tuple)):
            return max([n + 1] + [deep(x, n + 1) for x in v])
        if isinstance(v, dict):
            return max([n + 1] + [deep(x, n + 1) for x in v.values()])
        return n

    def hasb(v):
        if isinstance(v, bytes):
            return True
        if isinstance(v, (list, tuple)):
            return any(hasb(x) for x in v)
        if isinstance(v, dict):
            return any(hasb(x) for x in v.values())
        return False
    v = op['data']
    return op['ack'] or v is None or isinstance(v, tuple) or hasb(v) or deep(v) >= 2


def cases_of(sc, out):
    """[(term, kind, info)] for one executed scenario."""
    cs = []
    for d in ('c2s', 's2c'):
        cs.append((stream_case(sc, out, d), 'stream', d))
    timelines = set()
    for d in ('c2s', 's2c'):
        t = acks_case(sc, out, d)
        if t is not None:
            cs.append((t, 'acks', d))
            timelines.add(d)
    for k, (op, rec) in enumerate(zip(sc['ops'], out['results'])):
        api = rec['api']
        if op['kind'] == 'call':
            if api[0] == 'ok':
                cs.append(('(CallRes %s %s)' % (pv(op['ret']), pv(api[1])), 'call', k))
            elif api[1] == 'TimeoutError' and op['dir'] in timelines:
                pass        # whether this call() had to time out is decided by the Acks case of its sender
            else:
                cs.append(('(CallRes %s (PObj 0%%N))' % pv(op['ret']), 'call', k))
        elif op['ack']:
            got = rec['cb']
            obs = clist([pv(x) for x in got]) if got is not None else '[PObj 0%N]'
            cs.append(('(CbArgs %s %s)' % (pv(op['ret']), obs), 'cb', k))
    for k, (orig, after) in enumerate(out['originals']):
        try:
            cs.append(('(Unmodified %s %s)' % (pv(orig), pv(after)), 'unmodified', k))
        except TypeError:
            cs.append(('(Unmodified %s (PObj 0%%N))' % pv(orig), 'unmodified', k))
    return cs


def single_op_scenarios(sc):
    """Candidate reductions: every operation alone; every group of operations that re-send one
    payload object (or return one shared value) alone; for nested-delivery scenarios the
    server->client operations alone and every adjacent pair of them."""
    for op in sc['ops']:
        s = dict(sc)
        s['ops'] = [dict(op, batch=False, hold=False)]
        yield s
        if op.get('budget'):
            s = dict(sc)
            s['ops'] = [dict(op)]
            yield s
    groups = {}
    for op in sc['ops']:
        if 'share' in op:
            groups.setdefault(op['share'], []).append(op)
    for g in groups.values():
        s = dict(sc)
        s['ops'] = [dict(op) for op in g]
        yield s
    if sc.get('late'):
        # late acknowledgements need at least the operation that left something in flight and a
        # later one: every pair in order, then every prefix
        n = len(sc['ops'])
        for i in range(n):
            for j in range(i + 1, n):
                s = dict(sc)
                s['ops'] = [dict(sc['ops'][i]), dict(sc['ops'][j])]
                yield s
        for j in range(3, n):
            s = dict(sc)
            s['ops'] = [dict(op) for op in sc['ops'][:j]]
            yield s
    if sc.get('nested'):
        down = [op for op in sc['ops'] if op['dir'] == 's2c']
        for a, b in zip(down, down[1:]):
            if a.get('nest') and a['kind'] != 'call':
                s = dict(sc)
                s['ops'] = [dict(a, hold=True), dict(b, hold=False)]
                yield s
        s = dict(sc)
        s['ops'] = [dict(op) for op in down]
        yield s


# --------------------------------------------------------------------------- run
def run(chk):
    rng = chk.rng
    n_sc = 150 if chk.thorough else 18
    chk.rule = ('8 configurations {Client+Server, AsyncClient+AsyncServer} x {default, msgpack} x {b64 on, off}; '
                'per scenario 1-2 namespaces and up to N<=6 (quick) / N<=20 (thorough) operations per direction '
                '(emit / send / call, with and without ack, one packet per payload or batched, held back or not, specific or catch-all '
                'handlers, plain or coroutine handlers, async_handlers on/off); payloads and handler return '
                'values: None, (), tuples of 1-4, single values, JSON trees of depth<=4 with bytes leaves, '
                'floats, 64-bit ints, non-BMP text.  Plus 10 (quick) / 60 (thorough) scenarios per configuration '
                'with delivery budgets (2-6 / 2-10 operations, mostly call() and emit-with-callback of one sender on '
                '1-2 namespaces; per operation: timely / ACK held back / event held back / only the first 1-3 frames '
                'travelling back delivered), so that call()s time out and their ACKs arrive late, interleaved with later '
                'operations; every scenario yields the registry timeline of each sender (E2E/AckTable.v).  '
                'A message is non-trivial when its payload has depth>=2 or '
                'bytes or is a tuple/None, or an ack is requested; distinct by (config, direction, kind, '
                'payload skeleton, ack)')
    chk.trusted_base = [
        'Coq 8.16.1 kernel + vm_compute (case evaluation)',
        'hand models E2E/Pipe.v, E2E/AckTable.v, Codec/MsgPack.v on top of Codec/Packet.v (C01) and Server/Server.v helpers',
        'late acknowledgements: the wait() of call() is the loopback\'s PumpEvent (delivers what the budget of the '
        'operation allows, then reports whether the callback was invoked); ACK <-> operation pairing by FIFO position '
        '(the Stream case of the opposite direction checks namespace, id and arguments of that pairing)',
        'json.loads and msgpack.dumps/loads are oracles (premises of the theorems; per-case tables recorded '
        'from the real libraries in the tie)',
        'engine.io (real packet/payload codecs in the loop) assumed FIFO and sequential per connection; '
        'drivers/loopback.py LoopEio fake of the engine.io client API and hand-built server Socket',
        'harness/props/c02.py generators, the Python->Gallina printer (vt/coqio.py)',
        'observation wrappers around _handle_event(_internal), _handle_ack, _generate_ack_id (instance level)']
    chk.assumptions = [
        'C02_*_partial: json.loads inverts json.dumps on the JSON text of each message (pointwise premise, as in '
        'C01_roundtrip_pointwise_partial)',
        'C02_*_msgpack: msgpack.loads(msgpack.dumps(d)) = d for the packet dictionary of each message',
        'fewer than 10^10 byte strings per message (the decoder refuses longer attachment counts)',
        'one sender per connection and direction at a time (concurrent emitters are documented as unsupported)',
        'domain: JSON-compatible trees with bytes leaves, tuples only at top level, namespaces without "," and "?"; '
        'msgpack additionally: 64-bit ints and UTF-8 encodable text']
    chk.prove()

    n_late = 60 if chk.thorough else 10
    cases, meta = [], []
    for cfg in CONFIGS:
        for i in range(n_sc + n_late):
            sc = gen_scenario(rng, cfg, chk.thorough) if i < n_sc else gen_late_scenario(rng, cfg, chk.thorough)
            out = run_scenario(sc)
            label = '%s/%s/%s' % (cfg[0], cfg[1], 'b64' if cfg[2] else 'raw')
            if 'error' in out:
                chk.broken_obligation('loopback scenario failed to run (%s): %s' % (label, out['error']))
                chk.violation('c02-harness-error', 'the loopback could not execute a scenario: ' + out['error'][:300],
                              {'scenario_repr': repr(clean(sc))}, no_input=True)
                continue
            for term, kind, info in cases_of(sc, out):
                cases.append(term)
                meta.append((sc, out, kind, info))
            for op in sc['ops']:
                key = (label, op['dir'], op['kind'], values.skeleton(op['data']), op['ack'])
                chk.count(1, key if nontrivial(op) else None,
                          {'config': label, 'dir': op['dir'], 'kind': op['kind'], 'event': op['event'],
                           'ns': op['ns'], 'data': repr(op['data'])[:100], 'ret': repr(op['ret'])[:60]})
                chk.dist('%s %s' % (op['dir'], op['kind']))
                chk.dist('ack' if op['ack'] else 'no ack')
                chk.dist('config ' + label)
            if sc.get('late'):
                chk.dist('scenario with delivery budgets (late acknowledgements)')
                t, l = late_stats(sc, out)
                chk.dist('call() timed out', t)
                chk.dist('ACK delivered after its call() had timed out', l)
                for d in ('c2s', 's2c'):
                    if any(e[0] == 'end' and e[2][0] == 'raise' for e in out['tl'][d]):
                        chk.count(1, ('late', label, d, tuple((e[0], e[1] if e[0] != 'ack' else len(e[4]))
                                                              for e in out['tl'][d])), None)
            if out['escaped']:
                chk.dist('escaped exception')
            if out.get('nested_deliveries'):
                chk.dist('frames delivered while a client handler was running', out['nested_deliveries'])
            if any('share' in op for op in sc['ops']):
                chk.dist('scenario re-sending one payload object')
            if out['reordered']:
                chk.dist('async_handlers=True: a handler task started after the callback of a later ACK (%s)' % cfg[0])
    codes, errors = coqio.eval_cases('c02', IMPORTS, '', 'c02case', cases, 'c02_eval', shard=40)
    chk.traces_validated = len(cases)
    for e in errors:
        chk.broken_obligation('case evaluation failed: ' + e)
    report(chk, cases, meta, codes)


def label_of(sc):
    cfg = sc['cfg']
    return '%s/%s/%s' % (cfg[0], cfg[1], 'b64' if cfg[2] else 'raw')


def describe(sc, out, kind, info):
    """(signature, text) of a failing case."""
    label = label_of(sc)
    if kind == 'stream':
        what = classify(sc, out, info)
        return ('c02-%s-%s' % (info, what),
                '%s %s stream: what the peer\'s handlers / callbacks received differs from what was sent (%s); '
                'sent=%s received=%s escaped=%r' % (label, info, what, _short(out['sent'][info]), _short(out['rx'][info]),
                                                    out['escaped'][:2]))
    if kind == 'acks':
        diffs = ideal_py(sc, out, info)
        what = diffs[0][0] if diffs else 'ids'
        tl = [e if e[0] != 'ack' else ['ack', e[1], e[2], e[4]] for e in out['tl'][info]]
        return ('c02-%s-late-ack-%s' % (info, what),
                '%s: acknowledgement registry of the %s (timeline of registrations, ACK arrivals and call() endings): %s; '
                'timeline=%s handler return values=%r'
                % (label, 'client' if info == 'c2s' else 'server',
                   '; '.join(t for _, t in diffs[:3]) or 'ack ids / routing differ from the registry model (bit 1 only)',
                   _short(tl), {k: op['ret'] for k, op in enumerate(sc['ops']) if op['dir'] == info and op['ack']}))
    if kind == 'unmodified':
        orig, after = out['originals'][info]
        return ('c02-payload-modified',
                '%s: the library modified the application\'s payload object: before the first send %s, after the '
                'sends %s' % (label, _short(orig), _short(after)))
    op = sc['ops'][info]
    res = out['results'][info]
    if kind == 'call':
        return ('c02-%s-call-result' % op['dir'],
                '%s: %s call() returned %r for handler return value %r' % (label, op['dir'], res['api'], op['ret']))
    return ('c02-%s-callback-args' % op['dir'],
            '%s: callback of a %s emit received %r for handler return value %r' % (label, op['dir'], res['cb'], op['ret']))


def _short(x):
    r = repr(x)
    return r if len(r) < 400 else r[:400] + '...'


def report(chk, cases, meta, codes):
    """One violation per failing scenario, after minimisation to a single operation when one
    operation alone reproduces it (all single-operation re-runs are evaluated in one batch)."""
    failing = {}
    for idx, code in sorted(codes.items()):
        sc = meta[idx][0]
        failing.setdefault(id(sc), [sc, []])[1].append((idx, code))
    todo = list(failing.values())
    # spread the minimisation budget over the configurations
    seen_cfg, first, rest = set(), [], []
    for item in todo:
        key = tuple(item[0]['cfg'])
        (first if key not in seen_cfg else rest).append(item)
        seen_cfg.add(key)
    budget = (first + rest)[:16]
    minimal = minimize_all([item[0] for item in budget])
    for n, (sc, hits) in enumerate(todo):
        bits = 0
        for _, c in hits:
            bits |= c
        small = minimal.get(id(sc))
        if small is not None:
            s1, out1, kind1, info1, code1 = small
            if code1 & 2:
                sig, text = describe(s1, out1, kind1, info1)
                chk.violation(sig, text + ' [minimised to %d operation(s)]' % len(s1['ops']), {'scenario_repr': repr(clean(s1))})
                continue
        idx, code = next(((i, c) for i, c in hits if c & 2), hits[0])
        _, out, kind, info = meta[idx]
        if bits & 2:
            sig, text = describe(sc, out, kind, info)
            chk.violation(sig, text, {'scenario_repr': repr(clean(sc)), 'case': cases[idx]})
        elif kind == 'acks':
            chk.broken_obligation('correspondence: the registry model E2E/AckTable.v and the real %s %s disagree (ack ids '
                                  'drawn, callback an ACK is routed to, or how a call() ended) without an effect the '
                                  'application sees in this scenario or its reductions' % (
                                      label_of(sc), 'client' if info == 'c2s' else 'server'))
            chk.violation('c02-%s-acks-correspondence' % info,
                          'model E2E/AckTable.v and implementation disagree (%s): %s' % (
                              label_of(sc), _short([e if e[0] != 'ack' else ['ack', e[1], e[2], e[4]] for e in out['tl'][info]])),
                          {'scenario_repr': repr(clean(sc)), 'case': cases[idx]}, no_input=True)
        else:
            chk.broken_obligation('correspondence: E2E/Pipe.v and the real %s pair disagree (frames on the wire or '
                                  'reassembly), no property violation found on single operations' % label_of(sc))
            chk.violation('c02-%s-correspondence' % (info if kind == 'stream' else kind),
                          'model E2E/Pipe.v and implementation disagree (%s)' % label_of(sc),
                          {'scenario_repr': repr(clean(sc)), 'case': cases[idx]}, no_input=True)


def minimize_all(scenarios):
    """scenario id -> (single-op scenario, out, kind, info, code) for the smallest single
    operation that still fails (property bit preferred), or nothing."""
    terms, owner = [], []
    for sc in scenarios:
        for s in single_op_scenarios(sc):
            out = run_scenario(s)
            if 'error' in out:
                continue
            for term, kind, info in cases_of(s, out):
                terms.append(term)
                owner.append((id(sc), s, out, kind, info))
    if not terms:
        return {}
    codes, errors = coqio.eval_cases('c02_min', IMPORTS, '', 'c02case', terms, 'c02_eval', shard=40)
    best = {}
    for i, c in sorted(codes.items()):
        sid, s, out, kind, info = owner[i]
        size = sum(len(repr(o['data'])) + len(repr(o['ret'])) + 50 for o in s['ops'])
        rank = (0 if c & 2 else 1, size)
        if sid not in best or rank < best[sid][0]:
            best[sid] = (rank, (s, out, kind, info, c))
    return {k: v[1] for k, v in best.items()}


def clean(sc):
    """Scenario without the ids recorded during execution (they are drawn again on replay)."""
    s = dict(sc)
    s['ops'] = [{k: v for k, v in op.items() if k != 'id'} for op in sc['ops']]
    return s


def replay(chk, data):
    import ast
    sc = ast.literal_eval(data['replay']['scenario_repr'])
    out = run_scenario(sc)
    if 'error' in out:
        print(out['error'])
        return 1
    cs = cases_of(sc, out)
    terms = [t for t, _, _ in cs]
    print('scenario:', sc)
    for d in ('c2s', 's2c'):
        print('--', d)
        print('   sent    :', out['sent'][d])
        print('   wire    :', out['wire'][d])
        print('   received:', out['rx'][d])
    print('escaped:', out['escaped'])
    print('api results:', [r['api'] for r in out['results']], 'callbacks:', [r['cb'] for r in out['results']])
    for d in ('c2s', 's2c'):
        if out['tl'][d]:
            print('-- registry timeline of the %s (ACKs reply to operations %s):' % (
                'client' if d == 'c2s' else 'server', ack_owner(out, d)))
            for e in out['tl'][d]:
                print('   ', e)
            for what, text in ideal_py(sc, out, d):
                print('    !!', what, '-', text)
    codes, errors = coqio.eval_cases('c02_replay', IMPORTS, '', 'c02case', terms, 'c02_eval', shard=40)
    for e in errors:
        print('coq error:', e)
    for i, c in sorted(codes.items()):
        print('case %d (%s %s): code %d%s%s' % (i, cs[i][1], cs[i][2], c, ' [model/implementation disagree]' if c & 1 else '',
                                                ' [PROPERTY VIOLATED]' if c & 2 else ''))
    if any(c & 1 for c in codes.values()):
        i = min(i for i, c in codes.items() if c & 1)
        fn = 'c02_explain_acks' if cs[i][1] == 'acks' else 'c02_explain'
        rc, txt = coqio.eval_print('c02_replay', IMPORTS, '', ['%s %s' % (fn, terms[i])])
        print(txt[-3000:])
    return 1 if (codes or errors) else 0
