"""C02 - end-to-end payload transparency between client and server handlers.

Proof side: Props/C02.v (E2E/Pipe.v, Codec/MsgPack.v, E2E/E2EProofs.v on top of C01).
Tie: REAL socketio.Client <-> socketio.Server and AsyncClient <-> AsyncServer connected in
memory (drivers/loopback.py) through the real engine.io packet / payload codecs, for
{sync, async} x {default, msgpack} x {b64 (polling) on, off (websocket)}.  Per scenario: one or
two namespaces, a sequence of emit / send / call operations in both directions with generated
payloads and handler return values.  For each direction one `Stream` case = everything one
sender sent (emits and ACK replies, in order), the frames it produced, and everything the peer's
handlers / callbacks received, in order.  In Coq (vm_compute):
  bit 1  Pipe.v on the sent values produces exactly those frames (msgpack: the blob whose
         decoded dictionary equals the model's _to_dict) and Pipe.v's reassembly loop on those
         frames delivers what the real receiver delivered;
  bit 2  what was delivered == map msg_call (sent) - `pack data` computed in Coq from the sent
         values only; call() results == call_result (pack r); callback arguments == pack r.
"""
import asyncio
import copy

from vt import coqio
from vt.coqio import pv, cstr, copt, cZ, clist, cres
from gen import values
from drivers import loopback

IMPORTS = 'From VT Require Import Codec.Packet Codec.MsgPack E2E.Pipe Check.C02Check.'

CONFIGS = [(m, s, b) for m in ('sync', 'async') for s in ('default', 'msgpack') for b in (True, False)]
NAMESPACES = ['/', '/chat', '/a/b', '/1-2', '/12-', '/é\U0001f600', '/x y']
EVENTS = ['ev', 'my-event', 'message', '1-2', 'x y', '', 'é\U0001f600', '*ev', 'connect2', '2', '"q"\\']


# --------------------------------------------------------------------------- generation
def _sanitize(v, ser):
    """Keep generated values inside the property's domain: ints within 64 bits; for msgpack also
    text made of Unicode scalar values (UTF-8 encodable)."""
    if isinstance(v, bool) or v is None or isinstance(v, (bytes, float)):
        return v
    if isinstance(v, int):
        if ser == 'msgpack' and not (-2 ** 63 <= v < 2 ** 64):
            return 2 ** 63 - 1 if v > 0 else -2 ** 63
        return v
    if isinstance(v, str):
        if ser == 'msgpack':
            return ''.join('S' if 0xd800 <= ord(c) <= 0xdfff else c for c in v)
        return v
    if isinstance(v, list):
        return [_sanitize(x, ser) for x in v]
    if isinstance(v, tuple):
        return tuple(_sanitize(x, ser) for x in v)
    if isinstance(v, dict):
        return {_sanitize(k, ser): _sanitize(x, ser) for k, x in v.items()}
    return v


def gen_payload(rng, ser):
    """What the application passes to emit / returns from a handler."""
    r = rng.random()
    depth = rng.choice([0, 1, 2, 2, 3, 4])
    if r < 0.12:
        v = None
    elif r < 0.45:
        v = tuple(values.gen_json(rng, depth, bytes_ok=True) for _ in range(rng.choice([0, 1, 2, 2, 3, 4])))
    elif r < 0.55:
        v = values.gen_bytes(rng)
    else:
        v = values.gen_json(rng, depth, bytes_ok=True)
        if v is None:
            v = [None]
    return _sanitize(v, ser)


def has_bytes_py(v):
    if isinstance(v, (bytes, bytearray)):
        return True
    if isinstance(v, (list, tuple)):
        return any(has_bytes_py(x) for x in v)
    if isinstance(v, dict):
        return any(has_bytes_py(x) for x in v.values())
    return False


def gen_nested_bytes(rng, ser):
    """A payload with byte strings BELOW the top level (inside a list / dict of an argument)."""
    inner = rng.choice([
        lambda: [values.gen_bytes(rng), values.gen_json(rng, 1, True)],
        lambda: {'k': values.gen_bytes(rng), 'l': [values.gen_bytes(rng), 1]},
        lambda: {'a': {'b': [values.gen_bytes(rng)]}, 'c': values.gen_json(rng, 2, True)},
        lambda: [[values.gen_bytes(rng)], {'x': values.gen_bytes(rng)}],
    ])()
    r = rng.random()
    if r < 0.4:
        v = inner
    elif r < 0.8:
        v = (values.gen_json(rng, 1, True), inner)
    else:
        v = (inner, values.gen_bytes(rng), values.gen_text(rng))
    return _sanitize(v, ser)


def gen_scenario(rng, cfg, thorough):
    mode, ser, b64 = cfg
    nss = rng.sample(NAMESPACES, rng.choice([1, 2, 2]))
    nmax = 20 if thorough else 6
    ops = []
    async_handlers = rng.random() < 0.5
    for direction in ('c2s', 's2c'):
        for _ in range(rng.randrange(1, nmax + 1)):
            kind = rng.choice(['emit', 'emit', 'emit', 'send', 'call'])
            if kind == 'call' and direction == 's2c' and not async_handlers:
                kind = 'emit'          # Server.call() raises RuntimeError unless async_handlers
            ev = 'message' if kind == 'send' else rng.choice(EVENTS + [values.gen_text(rng, 6)])
            if ev in ('connect', 'disconnect', 'connect_error', '__disconnect_final', '*'):
                ev = 'ev'
            ev = _sanitize(ev, ser)
            ack = kind == 'call' or rng.random() < 0.5
            ops.append({'dir': direction, 'kind': kind, 'event': ev, 'data': gen_payload(rng, ser),
                        'ns': rng.choice(nss), 'ack': ack, 'ret': gen_payload(rng, ser),
                        'batch': rng.random() < 0.4})
            # hold: the frames stay queued after the API call returns and travel together with the
            # following messages of the same direction (several messages back to back in one payload)
            ops[-1]['hold'] = kind != 'call' and rng.random() < 0.3
            ops[-1]['first'] = rng.choice(['c2s', 's2c'])       # which queue the pump serves first
    rng.shuffle(ops)
    # the SAME payload object sent several times in a row (emit in a loop, emit to two recipients
    # = the client's sids in two namespaces, retry), and handlers returning one shared constant
    # for several events: groups of consecutive operations that share `data` / `ret` by identity
    gid = 0
    for _ in range(rng.choice([0, 1, 1, 2])):
        gid += 1
        base = rng.choice(ops)
        n = rng.choice([2, 2, 3])
        data = gen_nested_bytes(rng, ser)
        ret = gen_nested_bytes(rng, ser)
        share_ret = rng.random() < 0.6
        group = []
        for j in range(n):
            o = dict(base, data=data, share=gid, ns=rng.choice(nss))
            if o['kind'] == 'send':
                o['event'] = 'message'
            if share_ret:
                o['ret'] = ret
                o['ret_share'] = gid
                o['ack'] = True if j < 2 else o['ack']
            if o['kind'] == 'call':
                o['hold'] = False
            group.append(o)
        at = rng.randrange(len(ops) + 1)
        ops[at:at] = group
    # nested delivery on the client: a handler of a server->client event has the next frame(s)
    # delivered while it is still running
    nested = rng.random() < 0.35
    coro = rng.random() < 0.5
    if nested:
        if mode == 'async':
            coro = True
        for o in ops:
            if o['dir'] == 's2c':
                if o['kind'] != 'call' and rng.random() < 0.6:
                    o['hold'] = True
                if rng.random() < 0.6:
                    o['nest'] = rng.choice([1, 1, 2, 3])
    return {'cfg': list(cfg), 'namespaces': nss, 'ops': ops, 'async_handlers': async_handlers,
            'coro': coro, 'catchall': rng.random() < 0.25, 'nested': nested}


# --------------------------------------------------------------------------- execution
def pack_py(v):
    """Only used to classify violations (the checker computes `pack` in Coq)."""
    if isinstance(v, tuple):
        return list(v)
    return [] if v is None else [v]


async def _run(sc):
    mode, ser, b64 = sc['cfg']
    lb = loopback.Loopback(mode, ser, b64, async_handlers=sc['async_handlers'], coro_handlers=sc['coro'])
    sent = {'c2s': [], 's2c': []}         # msg records in sending order
    pending = {'c2s': [], 's2c': []}      # emitted ops whose handler has not run yet
    results = []                          # per op: API result, callback args

    shared = {}                           # share group -> THE payload object handed to emit each time
    shared_ret = {}                       # ret_share group -> THE object the handlers return
    originals = []                        # (original deep copy, the object the library was given)

    def handler(direction, ns, ev, args, cid):
        """Called when a handler is entered; the ACK value is produced when it returns."""
        op = pending[direction].pop(0) if pending[direction] else None

        def finish():
            if op is None:
                return None
            if op['ack']:
                back = 's2c' if direction == 'c2s' else 'c2s'
                sent[back].append(('ack', copy.deepcopy(op['ret']), op['ns'], op.get('id')))
            if 'ret_share' in op:
                g = op['ret_share']
                if g not in shared_ret:
                    shared_ret[g] = copy.deepcopy(op['ret'])
                    originals.append((copy.deepcopy(op['ret']), shared_ret[g]))
                return shared_ret[g]
            r = copy.deepcopy(op['ret'])
            if has_bytes_py(r):
                originals.append((copy.deepcopy(op['ret']), r))
            return r
        nest = op.get('nest', 0) if (op is not None and direction == 's2c') else 0
        return nest, finish

    events = {}
    for op in sc['ops']:
        events.setdefault((op['dir'], op['ns']), set()).add(op['event'])
    for (direction, ns), evs in sorted(events.items()):
        reg = lb.on_server if direction == 'c2s' else lb.on_client
        if sc['catchall']:
            reg('*', ns, handler)
        else:
            for ev in sorted(evs):
                reg(ev, ns, handler)
    connected = await lb.connect(sc['namespaces'])
    if set(connected) != set(sc['namespaces']):
        return {'error': 'connect failed: %r' % (connected,)}
    # the CONNECT exchange is not part of the streams
    for d in ('c2s', 's2c'):
        lb.wire[d].clear()
        lb.jtab[d].clear()
        lb.rx[d].clear()
    for k, op in enumerate(sc['ops']):
        d = op['dir']
        lb.batch = op['batch']
        lb.first = op.get('first', 'c2s')
        rec = {'cb': None, 'api': None}
        results.append(rec)

        def cb(*args, _rec=rec):
            _rec['cb'] = list(args)
        sender = lb.client if d == 'c2s' else lb.sio
        kw = {'namespace': None if (op['ns'] == '/' and k % 2) else op['ns']}
        if d == 's2c':
            kw['to'] = lb.server_sid(op['ns'])
        if 'share' in op:
            if op['share'] not in shared:
                shared[op['share']] = copy.deepcopy(op['data'])
                originals.append((copy.deepcopy(op['data']), shared[op['share']]))
            data = shared[op['share']]          # the very same object every time
        else:
            data = copy.deepcopy(op['data'])
            if has_bytes_py(data):
                originals.append((copy.deepcopy(op['data']), data))
        m = ['emit', op['event'], copy.deepcopy(op['data']), op['ns'], None]
        sent[d].append(m)
        pending[d].append(op)
        if op['kind'] == 'call':
            fn, args = sender.call, (op['event'], data)
            kw['timeout'] = 1
        elif op['kind'] == 'send':
            fn, args = sender.send, (data,)
        else:
            fn, args = sender.emit, (op['event'], data)
        if op['ack'] and op['kind'] != 'call':
            kw['callback'] = cb

        # the ack id is drawn inside emit / call; call() pumps the loop while it waits, so the
        # peer's handler runs before call() returns: the id is published the moment it exists
        def hook(i, _op=op, _m=m):
            _op['id'] = i
            _m[4] = i
        lb.id_hook[d] = hook
        try:
            rec['api'] = await lb.api(fn, *args, _flush=not op.get('hold'), **kw)
        finally:
            lb.id_hook[d] = None
    await lb.api(lambda: None)
    # With async_handlers=True the server runs each event handler in a task (thread) of its own,
    # by design concurrently with whatever the receive loop does next: an ACK that FOLLOWS an EVENT on
    # the wire reaches its callback before the EVENT's handler has started.  "Handled in the order
    # sent" is then the order in which the receive loop dispatched the packets: the observations
    # carry that dispatch number and are put in that order (the fact is counted and reported).
    invoked = {d: [e[:-1] for e in lb.rx[d]] for d in lb.rx}
    reordered = False
    if sc['async_handlers']:
        by_dispatch = sorted(lb.rx['c2s'], key=lambda e: (e[-1] is None, e[-1] or 0))
        reordered = by_dispatch != lb.rx['c2s']
        lb.rx['c2s'] = by_dispatch
    lb.rx = {d: [e[:-1] for e in lb.rx[d]] for d in lb.rx}
    out = {'sent': sent, 'wire': lb.wire, 'jtab': lb.jtab, 'rx': lb.rx, 'escaped': lb.escaped,
           'invoked': invoked, 'reordered': reordered, 'originals': originals,
           'nested_deliveries': lb.nested_deliveries,
           'results': results, 'unhandled': {d: len(pending[d]) for d in pending}}
    return out


def run_scenario(sc):
    try:
        return asyncio.run(_run(sc))
    except BaseException as e:      # noqa: B902
        import traceback
        return {'error': '%s: %s' % (type(e).__name__, traceback.format_exc()[-1500:])}


# --------------------------------------------------------------------------- Gallina printers
def c_msg(m):
    if m[0] == 'emit':
        return '(MEmit %s %s %s %s)' % (cstr(m[1]), pv(m[2]), cstr(m[3]), copt(m[4], cZ))
    return '(MAck %s %s %s)' % (pv(m[1]), cstr(m[2]), cZ(m[3] if m[3] is not None else -1))


def c_rx(e):
    if e[0] == 'ev':
        cid = e[4]
        if not (cid is None or isinstance(cid, int)):
            cid = -2
        return '(EvCall %s %s %s %s)' % (cstr(e[1]), pv(e[2]), clist([pv(x) for x in e[3]]), copt(cid, cZ))
    return '(AckCall %s %s %s)' % (cstr(e[1]), copt(e[2], cZ), clist([pv(x) for x in e[3]]))


def c_jtab(tbl):
    items = []
    for s, ok, r in tbl:
        try:
            items.append('(%s, %s)' % (cstr(s), cres(ok, pv(r) if ok else r)))
        except TypeError:
            items.append('(%s, (Err OtherError))' % cstr(s))
    return clist(items)


def c_mtab(wire):
    import msgpack
    items = []
    for w in wire:
        if isinstance(w, (bytes, bytearray)):
            try:
                items.append('(%s, %s)' % (pv(msgpack.loads(w)), cstr(w)))
            except Exception:
                pass
    return clist(items)


def stream_case(sc, out, d):
    ser = 'SerDefault' if sc['cfg'][1] == 'default' else 'SerMsgpack'
    direction = 'C2S' if d == 'c2s' else 'S2C'
    mt = c_mtab(out['wire'][d]) if ser == 'SerMsgpack' else '[]'
    return '(Stream %s %s %s %s %s %s %s)' % (
        ser, direction, clist([c_msg(m) for m in out['sent'][d]]), c_jtab(out['jtab'][d]), mt,
        clist([pv(w) for w in out['wire'][d]]), clist([c_rx(e) for e in out['rx'][d]]))


def classify(sc, out, d):
    """Structural class of a property failure on one stream (for the signature)."""
    exp = []
    for m in out['sent'][d]:
        if m[0] == 'emit':
            exp.append(('ev', m[3], m[1], pack_py(m[2]), m[4]))
        else:
            exp.append(('ack', m[2], m[3], pack_py(m[1])))
    got = [tuple(e) for e in out['rx'][d]]
    exp = [tuple(e) for e in exp]
    if len(got) != len(exp):
        return 'count'
    if sorted(map(repr, got)) == sorted(map(repr, exp)):
        return 'order'
    for g, e in zip(got, exp):
        if g != e:
            if g[0] != e[0]:
                return 'kind'
            if g[0] == 'ev':
                if g[1] != e[1]:
                    return 'namespace'
                if g[2] != e[2]:
                    return 'event'
                if g[4] != e[4]:
                    return 'ack-id'
                return 'handler-args'
            if g[1] != e[1]:
                return 'ack-namespace'
            if g[2] != e[2]:
                return 'ack-id'
            return 'ack-args'
    return 'value'      # equal under Python ==, different under structural equality (type / key order)


def nontrivial(op):
    def deep(v, n=0):
        if isinstance(v, (list, tuple)):
            return max([n + 1] + [deep(x, n + 1) for x in v])
        if isinstance(v, dict):
            return max([n + 1] + [deep(x, n + 1) for x in v.values()])
        return n

    def hasb(v):
        if isinstance(v, bytes):
            return True
        if isinstance(v, (list, tuple)):
            return any(hasb(x) for x in v)
        if isinstance(v, dict):
            return any(hasb(x) for x in v.values())
        return False
    v = op['data']
    return op['ack'] or v is None or isinstance(v, tuple) or hasb(v) or deep(v) >= 2


def cases_of(sc, out):
    """[(term, kind, info)] for one executed scenario."""
    cs = []
    for d in ('c2s', 's2c'):
        cs.append((stream_case(sc, out, d), 'stream', d))
    for k, (op, rec) in enumerate(zip(sc['ops'], out['results'])):
        api = rec['api']
        if op['kind'] == 'call':
            if api[0] == 'ok':
                cs.append(('(CallRes %s %s)' % (pv(op['ret']), pv(api[1])), 'call', k))
            else:
                cs.append(('(CallRes %s (PObj 0%%N))' % pv(op['ret']), 'call', k))
        elif op['ack']:
            got = rec['cb']
            obs = clist([pv(x) for x in got]) if got is not None else '[PObj 0%N]'
            cs.append(('(CbArgs %s %s)' % (pv(op['ret']), obs), 'cb', k))
    for k, (orig, after) in enumerate(out['originals']):
        try:
            cs.append(('(Unmodified %s %s)' % (pv(orig), pv(after)), 'unmodified', k))
        except TypeError:
            cs.append(('(Unmodified %s (PObj 0%%N))' % pv(orig), 'unmodified', k))
    return cs


def single_op_scenarios(sc):
    """Candidate reductions: every operation alone; every group of operations that re-send one
    payload object (or return one shared value) alone; for nested-delivery scenarios the
    server->client operations alone and every adjacent pair of them."""
    for op in sc['ops']:
        s = dict(sc)
        s['ops'] = [dict(op, batch=False, hold=False)]
        yield s
    groups = {}
    for op in sc['ops']:
        if 'share' in op:
            groups.setdefault(op['share'], []).append(op)
    for g in groups.values():
        s = dict(sc)
        s['ops'] = [dict(op) for op in g]
        yield s
    if sc.get('nested'):
        down = [op for op in sc['ops'] if op['dir'] == 's2c']
        for a, b in zip(down, down[1:]):
            if a.get('nest') and a['kind'] != 'call':
                s = dict(sc)
                s['ops'] = [dict(a, hold=True), dict(b, hold=False)]
                yield s
        s = dict(sc)
        s['ops'] = [dict(op) for op in down]
        yield s


# --------------------------------------------------------------------------- run
def run(chk):
    rng = chk.rng
    n_sc = 150 if chk.thorough else 18
    chk.rule = ('8 configurations {Client+Server, AsyncClient+AsyncServer} x {default, msgpack} x {b64 on, off}; '
                'per scenario 1-2 namespaces and up to N<=6 (quick) / N<=20 (thorough) operations per direction '
                '(emit / send / call, with and without ack, one packet per payload or batched, held back or not, specific or catch-all '
                'handlers, plain or coroutine handlers, async_handlers on/off); payloads and handler return '
                'values: None, (), tuples of 1-4, single values, JSON trees of depth<=4 with bytes leaves, '
                'floats, 64-bit ints, non-BMP text.  A message is non-trivial when its payload has depth>=2 or '
                'bytes or is a tuple/None, or an ack is requested; distinct by (config, direction, kind, '
                'payload skeleton, ack)')
    chk.trusted_base = [
        'Coq 8.16.1 kernel + vm_compute (case evaluation)',
        'hand models E2E/Pipe.v, Codec/MsgPack.v on top of Codec/Packet.v (C01) and Server/Server.v helpers',
        'json.loads and msgpack.dumps/loads are oracles (premises of the theorems; per-case tables recorded '
        'from the real libraries in the tie)',
        'engine.io (real packet/payload codecs in the loop) assumed FIFO and sequential per connection; '
        'drivers/loopback.py LoopEio fake of the engine.io client API and hand-built server Socket',
        'harness/props/c02.py generators, the Python->Gallina printer (vt/coqio.py)',
        'observation wrappers around _handle_event(_internal), _handle_ack, _generate_ack_id (instance level)']
    chk.assumptions = [
        'C02_*_partial: json.loads inverts json.dumps on the JSON text of each message (pointwise premise, as in '
        'C01_roundtrip_pointwise_partial)',
        'C02_*_msgpack: msgpack.loads(msgpack.dumps(d)) = d for the packet dictionary of each message',
        'fewer than 10^10 byte strings per message (the decoder refuses longer attachment counts)',
        'one sender per connection and direction at a time (concurrent emitters are documented as unsupported)',
        'domain: JSON-compatible trees with bytes leaves, tuples only at top level, namespaces without "," and "?"; '
        'msgpack additionally: 64-bit ints and UTF-8 encodable text']
    chk.prove()

    cases, meta = [], []
    for cfg in CONFIGS:
        for i in range(n_sc):
            sc = gen_scenario(rng, cfg, chk.thorough)
            out = run_scenario(sc)
            label = '%s/%s/%s' % (cfg[0], cfg[1], 'b64' if cfg[2] else 'raw')
            if 'error' in out:
                chk.broken_obligation('loopback scenario failed to run (%s): %s' % (label, out['error']))
                chk.violation('c02-harness-error', 'the loopback could not execute a scenario: ' + out['error'][:300],
                              {'scenario_repr': repr(clean(sc))}, no_input=True)
                continue
            for term, kind, info in cases_of(sc, out):
                cases.append(term)
                meta.append((sc, out, kind, info))
            for op in sc['ops']:
                key = (label, op['dir'], op['kind'], values.skeleton(op['data']), op['ack'])
                chk.count(1, key if nontrivial(op) else None,
                          {'config': label, 'dir': op['dir'], 'kind': op['kind'], 'event': op['event'],
                           'ns': op['ns'], 'data': repr(op['data'])[:100], 'ret': repr(op['ret'])[:60]})
                chk.dist('%s %s' % (op['dir'], op['kind']))
                chk.dist('ack' if op['ack'] else 'no ack')
                chk.dist('config ' + label)
            if out['escaped']:
                chk.dist('escaped exception')
            if out.get('nested_deliveries'):
                chk.dist('frames delivered while a client handler was running', out['nested_deliveries'])
            if any('share' in op for op in sc['ops']):
                chk.dist('scenario re-sending one payload object')
            if out['reordered']:
                chk.dist('async_handlers=True: a handler task started after the callback of a later ACK (%s)' % cfg[0])
    codes, errors = coqio.eval_cases('c02', IMPORTS, '', 'c02case', cases, 'c02_eval', shard=40)
    chk.traces_validated = len(cases)
    for e in errors:
        chk.broken_obligation('case evaluation failed: ' + e)
    report(chk, cases, meta, codes)


def label_of(sc):
    cfg = sc['cfg']
    return '%s/%s/%s' % (cfg[0], cfg[1], 'b64' if cfg[2] else 'raw')


def describe(sc, out, kind, info):
    """(signature, text) of a failing case."""
    label = label_of(sc)
    if kind == 'stream':
        what = classify(sc, out, info)
        return ('c02-%s-%s' % (info, what),
                '%s %s stream: what the peer\'s handlers / callbacks received differs from what was sent (%s); '
                'sent=%s received=%s escaped=%r' % (label, info, what, _short(out['sent'][info]), _short(out['rx'][info]),
                                                    out['escaped'][:2]))
    if kind == 'unmodified':
        orig, after = out['originals'][info]
        return ('c02-payload-modified',
                '%s: the library modified the application\'s payload object: before the first send %s, after the '
                'sends %s' % (label, _short(orig), _short(after)))
    op = sc['ops'][info]
    res = out['results'][info]
    if kind == 'call':
        return ('c02-%s-call-result' % op['dir'],
                '%s: %s call() returned %r for handler return value %r' % (label, op['dir'], res['api'], op['ret']))
    return ('c02-%s-callback-args' % op['dir'],
            '%s: callback of a %s emit received %r for handler return value %r' % (label, op['dir'], res['cb'], op['ret']))


def _short(x):
    r = repr(x)
    return r if len(r) < 400 else r[:400] + '...'


def report(chk, cases, meta, codes):
    """One violation per failing scenario, after minimisation to a single operation when one
    operation alone reproduces it (all single-operation re-runs are evaluated in one batch)."""
    failing = {}
    for idx, code in sorted(codes.items()):
        sc = meta[idx][0]
        failing.setdefault(id(sc), [sc, []])[1].append((idx, code))
    todo = list(failing.values())
    # spread the minimisation budget over the configurations
    seen_cfg, first, rest = set(), [], []
    for item in todo:
        key = tuple(item[0]['cfg'])
        (first if key not in seen_cfg else rest).append(item)
        seen_cfg.add(key)
    budget = (first + rest)[:16]
    minimal = minimize_all([item[0] for item in budget])
    for n, (sc, hits) in enumerate(todo):
        bits = 0
        for _, c in hits:
            bits |= c
        small = minimal.get(id(sc))
        if small is not None:
            s1, out1, kind1, info1, code1 = small
            if code1 & 2:
                sig, text = describe(s1, out1, kind1, info1)
                chk.violation(sig, text + ' [minimised to %d operation(s)]' % len(s1['ops']), {'scenario_repr': repr(clean(s1))})
                continue
        idx, code = next(((i, c) for i, c in hits if c & 2), hits[0])
        _, out, kind, info = meta[idx]
        if bits & 2:
            sig, text = describe(sc, out, kind, info)
            chk.violation(sig, text, {'scenario_repr': repr(clean(sc)), 'case': cases[idx]})
        else:
            chk.broken_obligation('correspondence: E2E/Pipe.v and the real %s pair disagree (frames on the wire or '
                                  'reassembly), no property violation found on single operations' % label_of(sc))
            chk.violation('c02-%s-correspondence' % (info if kind == 'stream' else kind),
                          'model E2E/Pipe.v and implementation disagree (%s)' % label_of(sc),
                          {'scenario_repr': repr(clean(sc)), 'case': cases[idx]}, no_input=True)


def minimize_all(scenarios):
    """scenario id -> (single-op scenario, out, kind, info, code) for the smallest single
    operation that still fails (property bit preferred), or nothing."""
    terms, owner = [], []
    for sc in scenarios:
        for s in single_op_scenarios(sc):
            out = run_scenario(s)
            if 'error' in out:
                continue
            for term, kind, info in cases_of(s, out):
                terms.append(term)
                owner.append((id(sc), s, out, kind, info))
    if not terms:
        return {}
    codes, errors = coqio.eval_cases('c02_min', IMPORTS, '', 'c02case', terms, 'c02_eval', shard=40)
    best = {}
    for i, c in sorted(codes.items()):
        sid, s, out, kind, info = owner[i]
        size = sum(len(repr(o['data'])) + len(repr(o['ret'])) + 50 for o in s['ops'])
        rank = (0 if c & 2 else 1, size)
        if sid not in best or rank < best[sid][0]:
            best[sid] = (rank, (s, out, kind, info, c))
    return {k: v[1] for k, v in best.items()}


def clean(sc):
    """Scenario without the ids recorded during execution (they are drawn again on replay)."""
    s = dict(sc)
    s['ops'] = [{k: v for k, v in op.items() if k != 'id'} for op in sc['ops']]
    return s


def replay(chk, data):
    import ast
    sc = ast.literal_eval(data['replay']['scenario_repr'])
    out = run_scenario(sc)
    if 'error' in out:
        print(out['error'])
        return 1
    cs = cases_of(sc, out)
    terms = [t for t, _, _ in cs]
    print('scenario:', sc)
    for d in ('c2s', 's2c'):
        print('--', d)
        print('   sent    :', out['sent'][d])
        print('   wire    :', out['wire'][d])
        print('   received:', out['rx'][d])
    print('escaped:', out['escaped'])
    print('api results:', [r['api'] for r in out['results']], 'callbacks:', [r['cb'] for r in out['results']])
    codes, errors = coqio.eval_cases('c02_replay', IMPORTS, '', 'c02case', terms, 'c02_eval', shard=40)
    for e in errors:
        print('coq error:', e)
    for i, c in sorted(codes.items()):
        print('case %d (%s %s): code %d%s%s' % (i, cs[i][1], cs[i][2], c, ' [model/implementation disagree]' if c & 1 else '',
                                                ' [PROPERTY VIOLATED]' if c & 2 else ''))
    if any(c & 1 for c in codes.values()):
        i = min(i for i, c in codes.items() if c & 1)
        rc, txt = coqio.eval_print('c02_replay', IMPORTS, '', ['c02_explain %s' % terms[i]])
        print(txt[-3000:])
    return 1 if (codes or errors) else 0
