"""C13 - handler resolution follows the documented precedence on server and client.

Tie: TRANSLATOR.  coq/Routing/Gen_base_{server,client}.v are regenerated from /repo by
translator/py2coq.py on every run and the theorems of Props/C13.v are re-checked against
the regenerated text.  Then, every run:

  1. full-strength client theorems: Routing/ClientFull.v.pending is compiled as a trial
     (build/c13/ClientFullTrial.v) unless it has already been promoted into the build;
  2. directed search: generated functions versus the specification, evaluated inside Coq
     over the finite abstract domain (2^6 presence patterns x event kinds x unrelated
     handlers); disagreements are replayed on the REAL classes;
  3. exhaustive correspondence: every abstract configuration x {Server, AsyncServer,
     Client, AsyncClient} x {sync, coroutine handlers} is executed through the real
     `_trigger_event`; the observed calls are compared inside Coq with the specification
     (bit 2) and with the generated functions under the hand model of _trigger_event (bit 1);
  4. translator validation: the four generated definitions are evaluated in Coq on the same
     (well-typed and ill-typed) inputs as the real Python functions;
  5. histories: SEQUENCES of registrations and events on one or two servers / clients whose
     class-based namespaces are several INSTANCES of shared Namespace subclasses (the same class
     registered for two or three namespaces including '*', re-registered, used on a second
     host); for every event the observation says which object ran (its id and its own
     `namespace` attribute).  Judged in Coq by the history model of Routing/History.v
     (bit 1: generated lookups; bit 2: specification), theorems C13_*_history_routing.

`python harness/props/c13.py --promote` switches Props/C13.v to the full-strength client
theorems (to be used once the client cascade mirrors the server; see notes/C13.md).
"""
import asyncio
import os
import shutil
import sys

if __name__ == '__main__':
    sys.path.insert(0, os.path.dirname(os.path.dirname(os.path.abspath(__file__))))

from vt import common, coqio  # noqa: E402
from vt.coqio import pv, cstr, clist, cN, exn_name, Obj  # noqa: E402

IMPORTS_SPEC = 'From VT Require Import Check.C13Check.'
IMPORTS_GEN = 'From VT Require Import Check.C13GenCheck.'
SIG_ELIF = 'client-elif-skips-catchall-namespace'

# (label, side, class name, asyncio?, coroutine handlers?)
VARIANTS = [
    ('Server/sync', 'S', 'Server', False, False),
    ('AsyncServer/sync', 'S', 'AsyncServer', True, False),
    ('AsyncServer/coroutine', 'S', 'AsyncServer', True, True),
    ('Client/sync', 'C', 'Client', False, False),
    ('AsyncClient/sync', 'C', 'AsyncClient', True, False),
    ('AsyncClient/coroutine', 'C', 'AsyncClient', True, True),
]
RESERVED = {'S': ['connect', 'disconnect'],
            'C': ['connect', 'connect_error', 'disconnect', '__disconnect_final']}
NS_POOL = ['/', '/foo', '/chat-1', '/a/b', '/é', '/Foo']
EV_POOL = ['msg', 'my event', 'x', 'message', 'ev-✓', 'on_msg', 'Connect']
ARGS_POOL = [[], ['sid1'], ['sid1', {'a': 1}], [1, 'two', [3, None]], ['sid', 'reason'], [None], [[]],
             ['sid1', 'environ', {'token': 't'}], [0, False]]


# --------------------------------------------------------------------------------------
# scenarios: JSON-serialisable description of one routing experiment
# --------------------------------------------------------------------------------------
def make_scenario(variant, mask, ev, ns, args, un_ns=False, un_star=False, noise=False,
                  has_method=True, order=None):
    """mask bit i (1..6) = presence of the i-th target of the documented order."""
    label, side, cls, is_async, coro = variant
    funs, classes = [], []
    if mask & 1:
        funs.append([ns, ev])
    if mask & 2:
        funs.append([ns, '*'])
    if mask & 4:
        funs.append(['*', ev])
    if mask & 8:
        funs.append(['*', '*'])
    if mask & 16:
        classes.append(ns)
    if mask & 32:
        classes.append('*')
    if un_ns:
        funs.append([ns, 'unrelated-event'])
    if un_star:
        funs.append(['*', 'unrelated-event'])
    if noise:
        funs.append(['/zz-other', ev])
        funs.append(['/zz-other', '*'])
        classes.append('/zz-other')
    if order is not None:
        order.shuffle(funs)
        order.shuffle(classes)
    methods = ['on_unrelated'] + (['on_' + ev] if has_method else [])
    return {'variant': label, 'side': side, 'cls': cls, 'async': is_async, 'coroutine': coro,
            'funs': funs, 'classes': classes, 'methods': methods, 'ev': ev, 'ns': ns, 'args': args,
            'mask': mask}


class Recorder:
    def __init__(self):
        self.log = []


def build_instance(sc, rec):
    """Real socketio object with the scenario's registrations made through the real API."""
    import socketio
    cls = getattr(socketio, sc['cls'])
    inst = cls() if sc['side'] == 'S' else cls(handle_sigint=False)
    coro = sc['coroutine']

    def mk_fun(hid):
        if coro:
            async def h(*a):
                rec.log.append(('fun', hid, a))
                return 'ret'
        else:
            def h(*a):
                rec.log.append(('fun', hid, a))
                return 'ret'
        h._vid = hid
        return h
    for i, (ns, ev) in enumerate(sc['funs']):
        inst.on(ev, mk_fun(i + 1), namespace=ns)

    base = {('S', False): 'Namespace', ('S', True): 'AsyncNamespace',
            ('C', False): 'ClientNamespace', ('C', True): 'AsyncClientNamespace'}[(sc['side'], sc['async'])]
    base = getattr(socketio, base)

    def mk_method(name):
        if coro:
            async def m(self, *a):
                rec.log.append(('meth', self._vid, name, a))
        else:
            def m(self, *a):
                rec.log.append(('meth', self._vid, name, a))
        return m
    body = {name: mk_method(name) for name in sc['methods']}
    if sc['async']:
        async def trigger_event(self, event, *a):
            rec.log.append(('trig', self._vid, event, a))
            return await base.trigger_event(self, event, *a)     # the real on_<event> dispatch
    else:
        def trigger_event(self, event, *a):
            rec.log.append(('trig', self._vid, event, a))
            return base.trigger_event(self, event, *a)           # the real on_<event> dispatch
    body['trigger_event'] = trigger_event
    nscls = type('RecNamespace', (base,), body)
    for i, ns in enumerate(sc['classes']):
        obj = nscls(ns)
        obj._vid = 100 + i
        inst.register_namespace(obj)
    return inst


def to_pv(x):
    """pv printer that maps recorded callables / namespace objects to opaque ids."""
    if hasattr(x, '_vid'):
        return Obj(x._vid)
    if isinstance(x, dict):
        return {to_pv(k): to_pv(v) for k, v in x.items()}
    if isinstance(x, list):
        return [to_pv(v) for v in x]
    if isinstance(x, tuple):
        return tuple(to_pv(v) for v in x)
    return x


def reg_terms(inst):
    """The registries as they are on the real instance -> typed Gallina terms."""
    r = clist(['(%s, %s)' % (cstr(ns), clist(['(%s, %s)' % (cstr(ev), cN(h._vid)) for ev, h in d.items()]))
               for ns, d in inst.handlers.items()])
    n = clist(['(%s, %s)' % (cstr(ns), cN(o._vid)) for ns, o in inst.namespace_handlers.items()])
    return r, n


def obs_term(log, exc):
    if exc is not None:
        return '(Err %s)' % exn_name(exc)
    items = []
    for e in log:
        if e[0] == 'fun':
            items.append('FunRan %s %s' % (cN(e[1]), clist([pv(to_pv(a)) for a in e[2]])))
        elif e[0] == 'trig':
            items.append('NsTriggered %s %s %s' % (cN(e[1]), cstr(e[2]), clist([pv(to_pv(a)) for a in e[3]])))
        else:
            items.append('MethodRan %s %s %s' % (cN(e[1]), cstr(e[2]), clist([pv(to_pv(a)) for a in e[3]])))
    return '(Ok %s)' % clist(items)


def case_term(sc, inst, log, exc):
    r, n = reg_terms(inst)
    return '(RCase %s %s %s %s %s %s %s %s)' % (
        'SServer' if sc['side'] == 'S' else 'SClient', r, n, clist([cstr(m) for m in sc['methods']]),
        cstr(sc['ev']), cstr(sc['ns']), clist([pv(a) for a in sc['args']]), obs_term(log, exc))


def run_scenarios(scs):
    """Execute every scenario through the real `_trigger_event`; returns for each
    (case term, summary of what ran)."""
    out = [None] * len(scs)

    def finish(i, sc, inst, rec, exc):
        kind = 'raised' if exc is not None else ('dropped' if not rec.log else
                                                 'function' if rec.log[0][0] == 'fun' else
                                                 'class' if len(rec.log) > 1 else 'class-no-method')
        out[i] = (case_term(sc, inst, rec.log, exc), kind, [list(map(repr, e)) for e in rec.log])

    async def run_async(items):
        for i, sc in items:
            rec = Recorder()
            inst = build_instance(sc, rec)
            exc = None
            try:
                await inst._trigger_event(sc['ev'], sc['ns'], *sc['args'])
            except Exception as e:
                exc = e
            finish(i, sc, inst, rec, exc)

    for i, sc in enumerate(scs):
        if sc['async']:
            continue
        rec = Recorder()
        inst = build_instance(sc, rec)
        exc = None
        try:
            inst._trigger_event(sc['ev'], sc['ns'], *sc['args'])
        except Exception as e:
            exc = e
        finish(i, sc, inst, rec, exc)
    items = [(i, sc) for i, sc in enumerate(scs) if sc['async']]
    if items:
        asyncio.run(run_async(items))
    return out


# --------------------------------------------------------------------------------------
# the abstract domain
# --------------------------------------------------------------------------------------
def abstract_domain(side):
    """(mask, event kind, unrelated handlers in ns, unrelated handlers in '*')"""
    for mask in range(64):
        for ev in [None] + RESERVED[side]:          # None = an ordinary event
            for un_ns in (False, True):
                for un_star in (False, True):
                    yield mask, ev, un_ns, un_star


def typed_terms(sc):
    """Typed registries of a scenario without touching any class (ids as build_instance)."""
    regs = {}
    for i, (ns, ev) in enumerate(sc['funs']):
        regs.setdefault(ns, {})[ev] = i + 1
    r = clist(['(%s, %s)' % (cstr(ns), clist(['(%s, %s)' % (cstr(ev), cN(h)) for ev, h in d.items()]))
               for ns, d in regs.items()])
    nsr = {}
    for i, ns in enumerate(sc['classes']):
        nsr[ns] = 100 + i
    n = clist(['(%s, %s)' % (cstr(ns), cN(c)) for ns, c in nsr.items()])
    return r, n


def directed_search(chk):
    """Generated functions versus specification inside Coq over the abstract domain.
    Returns {(side, kind): [scenario, ...]} for the disagreeing configurations."""
    terms, meta = [], []
    for side in ('S', 'C'):
        variant = [v for v in VARIANTS if v[1] == side][0]
        for mask, rev, un_ns, un_star in abstract_domain(side):
            sc = make_scenario(variant, mask, rev or 'ev', '/foo', [7, 'x'], un_ns, un_star)
            r, n = typed_terms(sc)
            s = 'SServer' if side == 'S' else 'SClient'
            a = clist([pv(x) for x in sc['args']])
            for kind, t in (('event', '(GSEvent %s %s %s %s %s %s)' % (s, r, n, cstr(sc['ev']), cstr(sc['ns']), a)),
                            ('namespace', '(GSNamespace %s %s %s %s %s)' % (s, r, n, cstr(sc['ns']), a)),
                            ('trigger', '(GSTrigger %s %s %s %s %s %s)' % (s, r, n, cstr(sc['ev']), cstr(sc['ns']), a))):
                if kind == 'namespace' and (rev is not None or un_ns or un_star or mask & 15):
                    continue        # the namespace lookup only depends on bits 5 and 6
                terms.append(t)
                meta.append((side, kind, sc))
    codes, errors = coqio.eval_cases('c13gs', IMPORTS_GEN, '', 'gscase', terms, 'eval_gs',
                                     shard=shard_for(len(terms)))
    for e in errors:
        chk.broken_obligation('Gen-vs-Spec search could not be evaluated: ' + e)
    bad = {}
    for idx in sorted(codes):
        side, kind, sc = meta[idx]
        bad.setdefault((side, kind), []).append(sc)
    chk.extra['gen_vs_spec_points'] = len(terms)
    chk.extra['gen_vs_spec_disagreements'] = {'%s/%s' % k: len(v) for k, v in bad.items()}
    return bad, not errors


# --------------------------------------------------------------------------------------
# classification of failing cases (computed in Coq from the case itself)
# --------------------------------------------------------------------------------------
CLASSIFY_DEFS = '''
Definition obs_kind (c : rcase) : nat :=
  match rc_obs c with
  | Err _ => 3 | Ok [] => 0 | Ok (FunRan _ _ :: _) => 1 | Ok _ => 2 end%%nat.
Definition same_target (c : rcase) : bool :=
  match rc_obs c, spec_calls c with
  | Ok (FunRan h _ :: _), FunRan h' _ :: _ => N.eqb h h'
  | Ok (NsTriggered k _ _ :: _), NsTriggered k' _ _ :: _ => N.eqb k k'
  | _, _ => false
  end.
(* failing cases carry their classification: bits 0-1 = verdict of %(fn)s, bit 2 = skips,
   bits 3-5 = level the rules select, bits 6-7 = what was observed, bit 8 = the prescribed
   target did run (so arguments / method dispatch are what is wrong) *)
Definition eval_classified (c : rcase) : nat :=
  match %(fn)s c with
  | O => O
  | k => (k + (if case_skips c then 1 else 0) * 4
            + match case_level c with Some l => l | None => 0 end * 8
            + obs_kind c * 64 + (if same_target c then 256 else 0))%%nat
  end.
'''
OBSERVED = ['nothing ran', 'a function handler ran', 'a class-based namespace ran', 'an exception escaped']


def shard_for(n):
    """one round of coqc processes on the available cores"""
    return max(100, -(-n // common.NCPU))


def eval_rcases(chk, name, terms, imports, evalfn, what):
    """index -> (code, (skips, level, observed)) for the failing cases."""
    codes, errors = coqio.eval_cases(name, imports, CLASSIFY_DEFS % {'fn': evalfn}, 'rcase', terms,
                                     'eval_classified', shard=shard_for(len(terms)))
    for e in errors:
        chk.broken_obligation('%s failed: %s' % (what, e))
    return {i: (c & 3, (bool(c & 4), (c // 8) % 8, OBSERVED[(c // 64) % 4], bool(c & 256))) for i, c in codes.items()}


LEVELS = ['no target', 'handlers[ns][ev]', "handlers[ns]['*']", "handlers['*'][ev]", "handlers['*']['*']",
          'namespace_handlers[ns]', "namespace_handlers['*']"]


def signature(sc, code, cls):
    skips, level, observed, same = cls
    if sc['side'] == 'C' and skips and not same and not (code & 1):
        return SIG_ELIF
    what = 'right-target-wrong-arguments-or-method' if same else 'instead-' + observed.replace(' ', '-')
    return '%s-level%d-%s' % ('client' if sc['side'] == 'C' else 'server', level, what) + \
        ('-model-differs' if code & 1 else '')


def report(chk, scs, results, codes, full_eval):
    """Turn nonzero codes into violations / broken obligations."""
    n_viol = 0
    for i in sorted(codes):
        (code, c), sc = codes[i], scs[i]
        if code & 2:
            n_viol += 1
            sig = signature(sc, code, c)
            what = ('%s: event %r on namespace %r must go to %s, but %s (registered: functions %s, class-based %s)'
                    % (sc['variant'], sc['ev'], sc['ns'], LEVELS[c[1]],
                       'it ran with other arguments / another method' if c[3] else c[2], sc['funs'], sc['classes']))
            chk.violation(sig, what, {'scenario': sc, 'observed': results[i][2], 'expected_level': LEVELS[c[1]]})
        elif code & 1:
            chk.broken_obligation('correspondence: generated lookups under the hand model of _trigger_event '
                                  'disagree with the real %s on %r' % (sc['cls'], sc))
            chk.violation('c13-model-differs-from-%s' % sc['cls'],
                          'model (generated functions + Trigger.v) and implementation disagree; the implementation '
                          'itself follows the specification on this case', {'scenario': sc, 'observed': results[i][2]},
                          no_input=True)
    return n_viol


# --------------------------------------------------------------------------------------
# translator validation
# --------------------------------------------------------------------------------------
def weird_value(rng, ns, ev, depth=0):
    """Registry-like values, well-typed and not."""
    k = rng.randrange(12)
    if k <= 5 and depth < 2:
        keys = rng.sample([ns, '*', '/other', ev, 5, None, True, ('a',), 'unrelated'], rng.randrange(0, 5))
        return {key: weird_value(rng, ns, ev, depth + 1) for key in keys}
    if k == 6:
        return None
    if k == 7:
        return rng.choice([[], [ns, ev, '*'], (ns, '*'), [5, None]])
    if k == 8:
        return rng.choice(['', ns, ev + '*', '*' + ns + ev])
    if k == 9:
        return rng.choice([0, 5, True, False])
    return Obj(rng.randrange(1, 9))


def tv_cases(rng, n_weird, typed_scs):
    """(term, label) for the translator validation: real function versus generated one."""
    import socketio
    insts = {'S': socketio.Server(), 'C': socketio.Client(handle_sigint=False)}
    terms, labels = [], []

    def one(side, handlers, nsh, ev, ns, args, label):
        inst = insts[side]
        inst.handlers, inst.namespace_handlers = handlers, nsh
        selft = '(PDict [(PStr (s2l "handlers"), %s); (PStr (s2l "namespace_handlers"), %s)])' % (
            pv(to_pv(handlers)), pv(to_pv(nsh)))
        s = 'SServer' if side == 'S' else 'SClient'
        for which in ('event', 'namespace'):
            try:
                if which == 'event':
                    res = inst._get_event_handler(ev, ns, args)
                else:
                    res = inst._get_namespace_handler(ns, args)
                exp = '(Ok %s)' % pv(to_pv(res))
            except Exception as e:
                exp = '(Err %s)' % exn_name(e)
            if which == 'event':
                terms.append('(TVEvent %s %s %s %s %s %s)' % (s, selft, pv(to_pv(ev)), pv(to_pv(ns)), pv(to_pv(args)), exp))
            else:
                terms.append('(TVNamespace %s %s %s %s %s)' % (s, selft, pv(to_pv(ns)), pv(to_pv(args)), exp))
            labels.append('%s %s %s' % (label, which, 'ok' if exp.startswith('(Ok') else exp[5:-1]))
        inst.handlers, inst.namespace_handlers = {}, {}

    # well-typed: the registries of the enumerated scenarios, read back from real instances
    for sc in typed_scs:
        rec = Recorder()
        inst = build_instance(sc, rec)
        one(sc['side'], dict(inst.handlers), dict(inst.namespace_handlers), sc['ev'], sc['ns'],
            tuple(sc['args']), 'typed')
    # ill-typed: anything goes, the generated code must raise what Python raises
    for _ in range(n_weird):
        side = rng.choice('SC')
        ns, ev = rng.choice(NS_POOL + ['*']), rng.choice(EV_POOL + ['*', 'connect', 'disconnect', 'connect_error'])
        handlers = weird_value(rng, ns, ev)
        nsh = weird_value(rng, ns, ev, 1)
        evv = rng.choice([ev, ev, ev, 5, None, (ev,), [ev], True])
        nsv = rng.choice([ns, ns, ns, 5, None, (ns,), [ns]])
        args = rng.choice([(), (1,), [1, 2], 'ab', None, 5, {'k': 1}, ('sid', {'a': [1]}), Obj(7)])
        one(side, handlers, nsh, evv, nsv, args, 'ill-typed')
    return terms, labels


# --------------------------------------------------------------------------------------
# translator validation of the generated trigger_event of the namespace base classes
# --------------------------------------------------------------------------------------
NS_KINDS = [('KNamespace', 'Namespace', False), ('KClientNamespace', 'ClientNamespace', False),
            ('KAsyncNamespace', 'AsyncNamespace', True), ('KAsyncClientNamespace', 'AsyncClientNamespace', True)]


def ns_tv_cases(rng, n):
    """(terms, labels): the real `trigger_event` of each namespace base class, run on a real object whose
    on_... attributes are methods of assorted arity (plain / coroutine) or plain values, versus the
    generated definition under the oracle that answers like those methods (Check/C13HistGenCheck.v)."""
    import socketio
    terms, labels = [], []

    def mk_method(name, arity, coro):
        params = ', '.join('a%d' % i for i in range(arity)) if arity is not None else '*a'
        tup = '(%s)' % ''.join('a%d, ' % i for i in range(arity)) if arity is not None else 'a'
        src = '%sdef m(self, %s):\n    return ((Obj(self._vid), %r), %s)\n' % ('async ' if coro else '', params, name, tup)
        env = {'Obj': Obj}
        exec(src, env)
        return env['m']

    async def call_async(base, obj, event, args):
        return await base.trigger_event(obj, event, *args)

    for kname, cname, is_async in NS_KINDS:
        base = getattr(socketio, cname)
        for _ in range(n):
            names = rng.sample(['msg', 'disconnect', 'disconnect', 'connect', 'x y', '', 'data'], rng.randrange(1, 4))
            names = list(dict.fromkeys(names))
            body, attrs, vid = {}, [], rng.randrange(1, 200)
            for nm in names:
                kind = rng.choice(['fixed', 'fixed', 'fixed', 'var', 'value'])
                coro = is_async and rng.random() < 0.5
                if kind == 'value':
                    v = rng.choice([5, None, 'text', 0])
                    body['on_' + nm] = v
                    attrs.append('(%s, NsAttr %s None false)' % (cstr('on_' + nm), pv(v)))
                    continue
                arity = rng.randrange(0, 4) if kind == 'fixed' else None
                body['on_' + nm] = mk_method('on_' + nm, arity, coro)
                attrs.append('(%s, NsAttr (PTuple [PObj %s; PStr %s]) (Some %s) %s)' % (
                    cstr('on_' + nm), cN(vid), cstr('on_' + nm),
                    'None' if arity is None else '(Some %d%%nat)' % arity, 'true' if coro else 'false'))
            obj = type('TvNamespace', (base,), body)(rng.choice(NS_POOL + ['*']))
            obj._vid = vid
            event = rng.choice(names) if rng.random() < 0.7 else \
                rng.choice(['other', '', None, 0, 5, True, ('msg',), ['msg'], 'Disconnect'])
            nargs = rng.randrange(0, 4)
            target = body.get('on_' + event) if isinstance(event, str) else None
            if callable(target) and target.__code__.co_argcount and rng.random() < 0.75:
                # the arity of the method, or one more (the legacy disconnect retry drops the last argument)
                nargs = target.__code__.co_argcount - 1 + (1 if event == 'disconnect' and rng.random() < 0.5 else 0)
            args = tuple(rng.choice([1, 'sid', None, [1, 'a'], {'k': 2}, ('t',)]) for _ in range(nargs))
            try:
                if is_async:
                    res = asyncio.run(call_async(base, obj, event, args))
                else:
                    res = base.trigger_event(obj, event, *args)
                exp = '(Ok %s)' % pv(to_pv(res))
            except Exception as e:
                exp = '(Err %s)' % exn_name(e)
            terms.append('(NsTV %s %s %s %s %s %s)' % (kname, pv(obj.namespace), clist(attrs), pv(to_pv(event)),
                                                    pv(to_pv(args)), exp))
            what = 'no method' if exp == '(Ok PNone)' else 'method ran' if exp.startswith('(Ok') else exp[5:-1]
            if what == 'method ran' and len(res[1]) < len(args):
                what = 'method ran after the legacy disconnect retry'
            labels.append('%s.trigger_event %s' % (cname, what))
    return terms, labels


# --------------------------------------------------------------------------------------
# full-strength client theorems
# --------------------------------------------------------------------------------------
PENDING = os.path.join(common.COQ, 'Routing', 'ClientFull.v.pending')
PROMOTED = os.path.join(common.COQ, 'Routing', 'ClientFull.v')
PINNED = os.path.join(common.COQ, 'Routing', 'ClientPinned.v')


def failed_in_build(chk):
    """Files make reported as failing (from the 'coq build failed in [...]' entry of chk.broken)."""
    import re
    out = []
    for b in chk.broken:
        m = re.match(r"coq build failed in (\[[^\]]*\])", b)
        if m:
            out.extend(re.findall(r"'([^']+)'", m.group(1)))
    return out


def try_client_full(chk):
    """True when the full-strength client theorems compile against the current
    Gen_base_client.v (trial compile of the pending file, or already part of the build)."""
    if os.path.exists(PROMOTED):
        # built against the current translation of the client, and not named among the files that failed
        vo, gen = PROMOTED[:-2] + '.vo', os.path.join(common.COQ, 'Routing', 'Gen_base_client.vo')
        ok = os.path.exists(vo) and os.path.exists(gen) and os.path.getmtime(vo) >= os.path.getmtime(gen) and \
            not any(f in failed_in_build(chk) for f in ('Routing/ClientFull.v', 'Routing/RoutingProofs.v')) and \
            not any('ERROR py2coq' in b for b in chk.broken)
        chk.extra['client_full_theorems'] = 'promoted into Props/C13.v; %s' % ('proved' if ok else 'BROKEN')
        return ok
    d = os.path.join(common.BUILD, 'c13')
    os.makedirs(d, exist_ok=True)
    trial = os.path.join(d, 'ClientFullTrial.v')
    shutil.copyfile(PENDING, trial)
    rc, out = coqio.run(['coqc', '-Q', common.COQ, 'VT', trial], 600, cwd=d)
    chk.checker_cmds.append('coqc -Q coq VT build/c13/ClientFullTrial.v  (trial of Routing/ClientFull.v.pending)')
    chk.extra['client_full_theorems'] = ('trial compile of Routing/ClientFull.v.pending: ' +
                                         ('PROVED (run harness/props/c13.py --promote)' if rc == 0
                                          else 'does not prove: ' + ' '.join(out.split())[-300:]))
    return rc == 0


PROPS_FULL_CLIENT = '''
Theorem C13_client_event_resolution : forall r n ev ns args,
  BaseClient__get_event_handler (mk_self r n) (PStr ev) (PStr ns) (PTuple args)
  = Ok (emb_result (resolve_event client_reserved r ev ns args)).
Proof. exact client_event_resolution. Qed.
Print Assumptions C13_client_event_resolution.

Theorem C13_client_routing : forall r n ev ns args,
  client_trigger (mk_self r n) (PStr ev) (PStr ns) (PTuple args)
  = Ok (emb_action (resolve client_reserved r n ev ns args)).
Proof. exact client_trigger_resolution. Qed.
Print Assumptions C13_client_routing.

Theorem C13_client_function_over_class : forall r n ev ns args h a,
  resolve_event client_reserved r ev ns args = (Some h, a) ->
  client_trigger (mk_self r n) (PStr ev) (PStr ns) (PTuple args) = Ok (ACall (PObj h) (PTuple a)).
Proof. exact client_function_over_class. Qed.
Print Assumptions C13_client_function_over_class.

Theorem C13_client_dropped_when_none : forall r n ev ns args,
  client_trigger (mk_self r n) (PStr ev) (PStr ns) (PTuple args) = Ok ANotHandled <->
  (forall rl, In rl (event_rules client_reserved r ev ns args ++ namespace_rules n ns args) -> fst rl = None).
Proof. exact client_dropped_when_none. Qed.
Print Assumptions C13_client_dropped_when_none.

Theorem C13_client_server_same_rules : forall r n ev ns args,
  memb ev client_reserved = memb ev server_reserved ->
  client_trigger (mk_self r n) (PStr ev) (PStr ns) (PTuple args)
  = server_trigger (mk_self r n) (PStr ev) (PStr ns) (PTuple args).
Proof. exact client_server_same_rules. Qed.
Print Assumptions C13_client_server_same_rules.
'''


def promote():
    """Install the full-strength client theorems: Routing/ClientFull.v.pending becomes
    Routing/ClientFull.v, Routing/ClientPinned.v is retired, and the pinned-client
    theorems of Props/C13.v (refuted / except / characterised) are replaced by the full
    statements.  Run by hand after the client cascade has been fixed in /repo."""
    props = os.path.join(common.COQ, 'Props', 'C13.v')
    src = open(props).read()
    if 'Routing.ClientFull' in src:
        print('already promoted')
        return 0
    import re
    blocks = re.split(r'(?=^Theorem )', src, flags=re.M)
    head, thms = blocks[0], blocks[1:]
    keep = [b for b in thms if not re.match(r'Theorem C13_client_(?!namespace_resolution)', b)]
    checker = [b for b in keep if b.startswith('Theorem C13_checker_sound')]
    keep = [b for b in keep if b not in checker]
    head = head.replace('Routing.ClientPinned', 'Routing.ClientFull')
    head = re.sub(r'\(\* C13 - .*?\*\)\n', '(* C13 - property theorems only; proofs live in Routing/RoutingProofs.v and\n'
                  '   Routing/ClientFull.v.  FULL-STRENGTH FORM (client mirrors the server). *)\n', head, flags=re.S)
    new = head + ''.join(keep) + PROPS_FULL_CLIENT.lstrip('\n') + '\n' + ''.join(checker)
    shutil.copyfile(PENDING, PROMOTED)
    if os.path.exists(PINNED):
        os.rename(PINNED, PINNED + '.retired')
        for ext in ('.vo', '.vos', '.vok', '.glob'):
            p = PINNED[:-2] + ext
            if os.path.exists(p):
                os.remove(p)
    open(props, 'w').write(new)
    print('promoted: Routing/ClientFull.v installed, Routing/ClientPinned.v retired, Props/C13.v rewritten')
    return 0


def gen_is_current():
    """The Gen_*.v files (and their .vo) in the build are the translation of the tree under
    test: guards against a stale build and against a concurrent run of another check
    regenerating them from a different VERIF_REPO."""
    from translator import py2coq
    for src, out, cls, attrs, methods in py2coq.TARGETS:
        opath = os.path.join(common.COQ, out)
        try:
            text = py2coq.translate_class(open(os.path.join(common.REPO, src)).read(), cls, attrs, methods, origin=src)
        except Exception:
            if os.path.exists(opath):
                return False
            continue
        vo = opath[:-2] + '.vo'
        if not os.path.exists(opath) or open(opath).read() != text:
            return False
        if not os.path.exists(vo) or os.path.getmtime(vo) < os.path.getmtime(opath):
            return False
    from translator import ns2coq
    return ns2coq.is_current()


def prove_current(chk, targets):
    """chk.prove(), repeated when the generated files were changed under it."""
    saved = list(chk.broken)
    for attempt in range(3):
        chk.broken[:] = saved
        proved = chk.prove(targets=targets)
        if gen_is_current():
            return proved
    chk.broken_obligation('the generated Routing/Gen_*.v files do not match the translation of %s after three '
                          'builds (another check running concurrently with a different VERIF_REPO?)' % common.REPO)
    return False


# --------------------------------------------------------------------------------------
# histories: sequences of registrations and events, several instances of shared classes
# --------------------------------------------------------------------------------------
IMPORTS_HSPEC = 'From VT Require Import Check.C13HistCheck.'
IMPORTS_HGEN = 'From VT Require Import Check.C13HistGenCheck.'


def hist_scenario(variant, classes, objects, ops, hosts, key):
    """classes: list of method-name lists; objects: list of {'id', 'cls', 'ns'} (every namespace
    object the history ever creates); ops: ['on', host, ns, ev, hid] | ['reg', host, objid] |
    ['ev', host, ev, ns, args]."""
    label, side, cls, is_async, coro = variant
    return {'kind': 'hist', 'variant': label, 'side': side, 'cls': cls, 'async': is_async, 'coroutine': coro,
            'classes': classes, 'objects': objects, 'ops': ops, 'hosts': hosts, 'key': key}


def hist_directed(chk, variant):
    """One Namespace subclass instantiated for two or three namespaces (including '*') of one
    host; every sequence of two (and, sampled in the quick tier, three) deliveries of the SAME
    event name over the namespaces a, b and an unregistered one."""
    rng = chk.rng
    side = variant[1]
    out = []
    for shape in (('a', 'b'), ('a', '*'), ('a', 'b', '*'), ('*', 'b'), ('*', 'b', 'a')):
        seqs = [(x, y) for x in 'abc' for y in 'abc']
        triples = [(x, y, z) for x in 'abc' for y in 'abc' for z in 'abc']
        seqs += triples if chk.thorough else rng.sample(triples, 6)
        for seq in seqs:
            a, b, c = rng.sample(NS_POOL, 3)
            names = {'a': a, 'b': b, 'c': c, '*': '*'}
            ev = rng.choice(EV_POOL + RESERVED[side][:1]) if rng.random() < 0.8 else rng.choice(RESERVED[side])
            objects = [{'id': 100 + i, 'cls': 0, 'ns': names[k]} for i, k in enumerate(shape)]
            ops = [['reg', 0, o['id']] for o in objects]
            if rng.random() < 0.25:      # an unrelated function handler somewhere: precedence still applies
                ops.insert(rng.randrange(len(ops) + 1), ['on', 0, rng.choice([a, b, '*']), 'unrelated-event', 1])
            for k in seq:
                ops.append(['ev', 0, ev, names[k], rng.choice(ARGS_POOL)])
            out.append(hist_scenario(variant, [['on_' + ev, 'on_unrelated']], objects, ops, 1,
                                     (variant[0], 'hist-directed', shape, seq)))
    return out


def hist_random(chk, variant, n):
    """Random histories: one or two hosts, one or two namespace classes shared by all hosts, two
    to four namespace objects per host (mostly of the same class), function handlers, late
    registrations, re-registration of a namespace with a NEW instance, two to seven events."""
    rng = chk.rng
    side = variant[1]
    out = []
    for k in range(n):
        hosts = 1 if rng.random() < 0.6 else 2
        a, b, c = rng.sample(NS_POOL, 3)
        evs = rng.sample(EV_POOL, 3)
        if rng.random() < 0.3:
            evs[0] = rng.choice(RESERVED[side])
        classes = [['on_' + evs[0], 'on_' + evs[1]]]
        if rng.random() < 0.5:
            classes.append(rng.choice([['on_' + evs[0]], ['on_' + evs[1]], ['on_' + evs[0], 'on_' + evs[2]]]))
        objects, ops, hid = [], [], [0]

        def new_obj(ns):
            o = {'id': 100 + len(objects), 'cls': 0 if rng.random() < 0.75 else rng.randrange(len(classes)), 'ns': ns}
            objects.append(o)
            return o['id']

        def new_fun(h):
            hid[0] += 1
            return ['on', h, rng.choice([a, b, '*']), rng.choice(evs + ['*']), hid[0]]
        for h in range(hosts):
            keys = rng.choice([[a, b], [a, '*'], [a, b, '*'], ['*', b], [a, b, c, '*'], ['*']])
            for ns in keys:
                ops.append(['reg', h, new_obj(ns)])
            for _ in range(rng.choice([0, 0, 1, 2])):
                ops.append(new_fun(h))
        rng.shuffle(ops)
        for _ in range(rng.randrange(2, 8)):
            h = rng.randrange(hosts)
            r = rng.random()
            if r < 0.12:
                ops.append(['reg', h, new_obj(rng.choice([a, b, '*']))])      # new instance, maybe over an old one
            elif r < 0.2:
                ops.append(new_fun(h))
            ops.append(['ev', h, rng.choice([evs[0]] * 4 + [evs[1], evs[1], evs[2]]), rng.choice([a, b, c]),
                        rng.choice(ARGS_POOL)])
        out.append(hist_scenario(variant, classes, objects, ops, hosts, (variant[0], 'hist-random', k)))
    return out


def hist_build(sc, rec):
    """The real hosts and the (not yet registered) real namespace objects of a history."""
    import socketio
    cls = getattr(socketio, sc['cls'])
    hosts = [cls() if sc['side'] == 'S' else cls(handle_sigint=False) for _ in range(sc['hosts'])]
    coro = sc['coroutine']
    base = {('S', False): 'Namespace', ('S', True): 'AsyncNamespace',
            ('C', False): 'ClientNamespace', ('C', True): 'AsyncClientNamespace'}[(sc['side'], sc['async'])]
    base = getattr(socketio, base)

    def mk_method(name):
        # the method reports the object it runs on: its tag and its own `namespace` attribute
        if coro:
            async def m(self, *a):
                rec.log.append(('meth', self._vid, self.namespace, name, a))
        else:
            def m(self, *a):
                rec.log.append(('meth', self._vid, self.namespace, name, a))
        return m
    if sc['async']:
        async def trigger_event(self, event, *a):
            rec.log.append(('trig', self._vid, self.namespace, event, a))
            return await base.trigger_event(self, event, *a)     # the real on_<event> dispatch
    else:
        def trigger_event(self, event, *a):
            rec.log.append(('trig', self._vid, self.namespace, event, a))
            return base.trigger_event(self, event, *a)           # the real on_<event> dispatch
    nsclasses = []
    for i, methods in enumerate(sc['classes']):
        body = {name: mk_method(name) for name in methods}
        body['trigger_event'] = trigger_event
        nsclasses.append(type('RecNamespace%d' % i, (base,), body))
    objs = {}
    for o in sc['objects']:
        obj = nsclasses[o['cls']](o['ns'])
        obj._vid = o['id']
        objs[o['id']] = obj
    return hosts, objs


def hist_fun(rec, hid, coro):
    if coro:
        async def h(*a):
            rec.log.append(('fun', hid, a))
            return 'ret'
    else:
        def h(*a):
            rec.log.append(('fun', hid, a))
            return 'ret'
    h._vid = hid
    return h


def kobs_term(log, exc):
    if exc is not None:
        return '(Some (Err %s))' % exn_name(exc)
    items = []
    for e in log:
        if e[0] == 'fun':
            items.append('(FunRan %s %s, None)' % (cN(e[1]), clist([pv(to_pv(a)) for a in e[2]])))
        else:
            ctor = 'NsTriggered' if e[0] == 'trig' else 'MethodRan'
            items.append('(%s %s %s %s, Some %s)' % (ctor, cN(e[1]), cstr(e[3]), clist([pv(to_pv(a)) for a in e[4]]),
                                                     cstr(e[2])))
    return '(Some (Ok %s))' % clist(items)


def hist_case_term(sc, hosts, per_op):
    ot = clist(['(%s, NsObj %s %s)' % (cN(o['id']), cstr(o['ns'] or '/'),
                                       clist([cstr(m) for m in sc['classes'][o['cls']]])) for o in sc['objects']])
    ops = []
    for op, obs in zip(sc['ops'], per_op):
        if op[0] == 'on':
            t = 'HOn %d%%nat %s %s %s' % (op[1], cstr(op[2]), cstr(op[3]), cN(op[4]))
        elif op[0] == 'reg':
            t = 'HRegister %d%%nat %s' % (op[1], cN(op[2]))
        else:
            t = 'HEvent %d%%nat %s %s %s' % (op[1], cstr(op[2]), cstr(op[3]), clist([pv(a) for a in op[4]]))
        ops.append('(%s, %s)' % (t, obs))
    final = clist(['(%s, %s)' % reg_terms(h) for h in hosts])
    return '(HCase %s %s %s %s %s)' % ('SServer' if sc['side'] == 'S' else 'SClient',
                                       'true' if sc['async'] else 'false', ot, clist(ops), final)


def run_histories(scs):
    """Execute every history on real hosts; returns for each (case term, summary, per-event logs)."""
    out = [None] * len(scs)

    def start(sc):
        rec = Recorder()
        hosts, objs = hist_build(sc, rec)
        return rec, hosts, objs, [], []

    def registration(sc, op, rec, hosts, objs):
        if op[0] == 'on':
            hosts[op[1]].on(op[3], hist_fun(rec, op[4], sc['coroutine']), namespace=op[2])
        else:
            hosts[op[1]].register_namespace(objs[op[2]])

    def finish(i, sc, hosts, per_op, logs):
        ran = set()
        for lg in logs:
            ran.add('raised' if lg[1] else 'dropped' if not lg[0] else 'function' if lg[0][0][0] == 'fun' else 'class')
        out[i] = (hist_case_term(sc, hosts, per_op), '+'.join(sorted(ran)),
                  [[list(map(repr, e)) for e in lg[0]] + ([repr(lg[1])] if lg[1] else []) for lg in logs])

    async def run_async(items):
        for i, sc in items:
            rec, hosts, objs, per_op, logs = start(sc)
            for op in sc['ops']:
                if op[0] != 'ev':
                    registration(sc, op, rec, hosts, objs)
                    per_op.append('None')
                    continue
                rec.log, exc = [], None
                try:
                    await hosts[op[1]]._trigger_event(op[2], op[3], *op[4])
                except Exception as e:
                    exc = e
                per_op.append(kobs_term(rec.log, exc))
                logs.append((rec.log, exc))
            finish(i, sc, hosts, per_op, logs)

    for i, sc in enumerate(scs):
        if sc['async']:
            continue
        rec, hosts, objs, per_op, logs = start(sc)
        for op in sc['ops']:
            if op[0] != 'ev':
                registration(sc, op, rec, hosts, objs)
                per_op.append('None')
                continue
            rec.log, exc = [], None
            try:
                hosts[op[1]]._trigger_event(op[2], op[3], *op[4])
            except Exception as e:
                exc = e
            per_op.append(kobs_term(rec.log, exc))
            logs.append((rec.log, exc))
        finish(i, sc, hosts, per_op, logs)
    items = [(i, sc) for i, sc in enumerate(scs) if sc['async']]
    if items:
        asyncio.run(run_async(items))
    return out


def hist_decode(c):
    """code of eval_h*_classified -> (verdict bits, classification)."""
    return c & 3, {'other_instance': bool(c & 4), 'level': (c // 8) % 8, 'observed': OBSERVED[(c // 64) % 4],
                   'same_target': bool(c & 256), 'after_earlier_events': bool(c & 512), 'op_index': c // 1024}


def eval_hcases(chk, name, terms, gen_ok, what):
    imports, fn = (IMPORTS_HGEN, 'eval_hfull_classified') if gen_ok else (IMPORTS_HSPEC, 'eval_hspec_classified')
    codes, errors = coqio.eval_cases(name, imports, '', 'hcase', terms, fn, shard=shard_for(len(terms)))
    for e in errors:
        chk.broken_obligation('%s failed: %s' % (what, e))
    return {i: hist_decode(c) for i, c in codes.items()}


def hist_isolated(sc, op_index):
    """The failing event alone: same registrations (fresh hosts, fresh classes), no earlier event."""
    ops = [op for op in sc['ops'][:op_index] if op[0] != 'ev'] + [sc['ops'][op_index]]
    iso = dict(sc)
    iso['ops'] = ops
    return iso


def hist_signature(sc, code, c, history_dependent):
    side = 'client' if sc['side'] == 'C' else 'server'
    if c['other_instance']:
        what = 'method-ran-on-another-instance-of-the-namespace-class'
    elif c['same_target']:
        what = 'right-target-wrong-arguments-or-method'
    else:
        what = 'instead-' + c['observed'].replace(' ', '-')
    return '%s-history-level%d-%s' % (side, c['level'], what) + \
        ('-only-after-earlier-events' if history_dependent else '') + ('-model-differs' if code & 1 else '')


def report_histories(chk, scs, results, codes, gen_ok):
    """Nonzero codes -> violations / broken obligations.  For a violating event the same event is
    delivered alone (same registrations, nothing before it) and judged in Coq again: when that
    passes, the violation depends on the events delivered earlier (state outside the registries)."""
    bad = [i for i in sorted(codes) if codes[i][0] & 2]
    iso_ok = {}
    if bad:
        isos = [hist_isolated(scs[i], codes[i][1]['op_index']) for i in bad]
        res = run_histories(isos)
        iso_codes = eval_hcases(chk, 'c13hiso', [r[0] for r in res], gen_ok, 'evaluation of isolated events')
        iso_ok = {i: not (iso_codes.get(j, (0, None))[0] & 2) for j, i in enumerate(bad)}
    n_viol = 0
    for i in sorted(codes):
        (code, c), sc = codes[i], scs[i]
        if code & 2:
            n_viol += 1
            op = sc['ops'][c['op_index']]
            sig = hist_signature(sc, code, c, c['after_earlier_events'] and iso_ok.get(i, False))
            nev = len([o for o in sc['ops'][:c['op_index']] if o[0] == 'ev'])
            what = ('%s: history of %d operations on %d host(s), namespace objects %s: event %r on namespace %r '
                    '(operation %d, after %d earlier event(s)) must go to %s, but %s; observed for the events: %s'
                    % (sc['variant'], len(sc['ops']), sc['hosts'],
                       [(o['id'], 'class%d' % o['cls'], o['ns']) for o in sc['objects']], op[2], op[3],
                       c['op_index'], nev, LEVELS[c['level']],
                       'the on_<event> method of ANOTHER instance of the namespace class ran' if c['other_instance']
                       else 'it ran with other arguments / another method' if c['same_target'] else c['observed'],
                       results[i][2]))
            chk.violation(sig, what[:1500], {'scenario': sc, 'observed': results[i][2], 'failing_op': c['op_index'],
                                             'expected_level': LEVELS[c['level']],
                                             'same_event_alone_passes': iso_ok.get(i)})
        elif code & 1:
            chk.broken_obligation('correspondence (histories): the history model over the generated lookups disagrees '
                                  'with the real %s (observations or final registries) on %r' % (sc['cls'], sc))
            chk.violation('c13-history-model-differs-from-%s' % sc['cls'],
                          'history model and implementation disagree; the implementation itself follows the '
                          'specification on this history', {'scenario': sc, 'observed': results[i][2]}, no_input=True)
    return n_viol


def enumerate_histories(chk):
    scs = []
    for variant in VARIANTS:
        scs.extend(hist_directed(chk, variant))
        scs.extend(hist_random(chk, variant, 400 if chk.thorough else 120))
    return scs


# --------------------------------------------------------------------------------------
def enumerate_scenarios(chk):
    """All abstract configurations x the six class/handler-kind variants."""
    rng = chk.rng
    scs = []
    for variant in VARIANTS:
        side = variant[1]
        for mask, rev, un_ns, un_star in abstract_domain(side):
            ns = rng.choice(NS_POOL)
            ev = rev or rng.choice(EV_POOL)
            args = rng.choice(ARGS_POOL)
            noise = rng.random() < 0.5
            flavours = (True, False) if (mask & 48 and (chk.thorough or rng.random() < 0.5)) else (True,)
            for has_method in flavours:
                scs.append(make_scenario(variant, mask, ev, ns, args, un_ns, un_star, noise, has_method, rng))
                scs[-1]['key'] = (variant[0], mask, rev, un_ns, un_star, has_method)
    # incoming names that coincide with the catch-all marker: first match still decides
    for variant in VARIANTS:
        if variant[3] and not chk.thorough:
            continue
        for mask in range(64):
            for ev, ns in (('*', '/foo'), ('msg', '*'), ('*', '*')):
                scs.append(make_scenario(variant, mask, ev, ns, rng.choice(ARGS_POOL), rng.random() < 0.5,
                                         rng.random() < 0.5, False, True, rng))
                scs[-1]['key'] = (variant[0], mask, 'edge', ev, ns)
    return scs


def run(chk):
    chk.rule = ('enumerated: every one of the 2^6 presence patterns of the six documented targets x {ordinary '
                'event, each reserved event} x {namespace has unrelated handlers or not} x {catch-all namespace '
                'has unrelated handlers or not} x {Server, AsyncServer, Client, AsyncClient} x {sync, coroutine '
                'handlers (asyncio classes)} x {namespace class defines on_<event> or not}, with namespace / event '
                'names and argument lists drawn from pools; every configuration is a distinct case; only the '
                'empty registry counts as trivial.  Histories: per class variant, one Namespace subclass '
                'instantiated for {a,b}, {a,*}, {a,b,*}, {*,b}, {*,b,a} x every sequence of two (sampled: three) '
                'deliveries of one event name over a, b and an unregistered namespace, plus random histories '
                '(one or two hosts sharing one or two namespace classes, re-registration with a new instance, '
                'function handlers, two to seven events); every event observation names the object that ran')
    chk.trusted_base = [
        'Coq 8.16.1 kernel + vm_compute (case evaluation, refutation witness)',
        'harness/translator/py2coq.py (fail-closed ast->Gallina translator, validated every run against the '
        'real functions on well-typed and ill-typed inputs) and coq/Routing/PyRuntime.v (dynamic semantics of '
        'in / [] / is None / and / or / not / tuple display)',
        'coq/Routing/ResolveSpec.v: the documented six-level order transcribed from docs/server.rst, docs/client.rst',
        'coq/Routing/Trigger.v: hand model of _trigger_event (tied by the exhaustive run); coq/Routing/History.v: hand '
        'model of on() / register_namespace() as dictionary assignments (tied by the final registries of every history)',
        'harness/translator/ns2coq.py (fail-closed translation of the trigger_event methods of the four namespace base '
        'classes; calls of application code go through an oracle parameter, await is transparent; validated every run '
        'against the real methods) and coq/Routing/PyRuntimeNs.v (+, hasattr / getattr, slices, try / except)',
        'coq/Routing/NsDispatch.v: model of a namespace object (its namespace attribute and bound methods)',
        'harness/props/c13.py (scenario enumeration, recording handlers) and the Python->Gallina printer vt/coqio.py']
    chk.assumptions = [
        'registries are well-formed: handlers maps namespaces to dicts of event -> callable, namespace_handlers maps '
        'namespaces to namespace objects; callables and namespace objects are truthy (theorems quantify over all such '
        'registries, all event / namespace strings, all argument lists)',
        'the TypeError retry for legacy one-argument disconnect handlers and the value returned by _trigger_event '
        'are outside the model']
    proved = prove_current(chk, ['Check/C13GenCheck.v', 'Check/C13Check.v', 'Check/C13HistGenCheck.v',
                                 'Check/C13HistCheck.v'])
    gen_ok = all(os.path.exists(os.path.join(common.COQ, 'Check', f)) for f in ('C13GenCheck.vo',)) and \
        all(os.path.exists(os.path.join(common.COQ, 'Routing', f)) for f in ('Gen_base_server.vo', 'Gen_base_client.vo'))
    imports, evalfn = (IMPORTS_GEN, 'eval_full') if gen_ok else (IMPORTS_SPEC, 'eval_spec')
    if not gen_ok:
        chk.broken_obligation('generated functions unavailable: cases are evaluated against the specification only')
    hgen_ok = gen_ok and os.path.exists(os.path.join(common.COQ, 'Check', 'C13HistGenCheck.vo')) and \
        all(os.path.exists(os.path.join(common.COQ, 'Routing', f))
            for f in ('Gen_namespace.vo', 'Gen_async_namespace.vo'))
    if gen_ok and not hgen_ok:
        chk.broken_obligation('generated trigger_event of the namespace classes unavailable (translation or build '
                              'failed): history cases are evaluated against the specification only')

    # 1. full-strength client theorems
    client_full = try_client_full(chk) if gen_ok else False
    promoted = os.path.exists(PROMOTED)
    if client_full and not promoted:
        chk.broken_obligation('the full-strength client theorems now PROVE while Props/C13.v still carries the '
                              'pinned-client form (refuted/except): run `harness/props/c13.py --promote`')

    # 2. directed search over the abstract domain + replay of the witnesses on the real classes
    if gen_ok:
        bad, searched = directed_search(chk)
        witnesses = []
        for (side, kind), lst in sorted(bad.items()):
            lst = sorted(lst, key=lambda s: (len(s['funs']) + len(s['classes']), s['ev'] != 'ev', s['mask'], s['ev']))
            for variant in [v for v in VARIANTS if v[1] == side and not v[4]]:
                w = dict(lst[0])
                w.update(variant=variant[0], cls=variant[2], coroutine=variant[4])
                w['async'] = variant[3]
                w['found_by'] = 'Gen-vs-Spec search (%s lookup)' % kind
                witnesses.append(w)
        if witnesses:
            res = run_scenarios(witnesses)
            codes = eval_rcases(chk, 'c13wit', [r[0] for r in res], imports, evalfn, 'witness evaluation')
            n = report(chk, witnesses, res, codes, gen_ok)
            chk.extra['witnesses_replayed_on_real_classes'] = len(witnesses)
            chk.extra['witnesses_confirmed_on_real_classes'] = n
            for i, w in enumerate(witnesses):
                if not codes.get(i, (0, None))[0] & 2:
                    chk.broken_obligation('generated %s lookup differs from the specification on %r but the real %s '
                                          'follows the specification there (translator or model suspect)'
                                          % (w['side'], w, w['cls']))
        ns_failed = 'Routing/NsDispatchProofs.v' in failed_in_build(chk) or any('ERROR ns2coq' in b for b in chk.broken)
        if ns_failed:
            chk.broken_obligation('the trigger_event of a namespace base class is outside the translator whitelist or '
                                  'its translation no longer satisfies dispatch_spec (Routing/NsDispatchProofs.v): '
                                  '"the on_<event> method of THE object that received the event is called with the '
                                  'arguments it received" is not proved of this tree')
        elif not proved and not bad and searched and not (client_full and not promoted):
            chk.broken_obligation('a C13 theorem no longer proves although generated functions and specification '
                                  'agree on the whole abstract domain (proof script needs attention)')
        if not client_full and not bad.get(('C', 'event')) and not bad.get(('C', 'trigger')) and searched:
            chk.broken_obligation('full-strength client theorem does not prove, yet no counter-example exists in the '
                                  'abstract domain')

    # 3. exhaustive correspondence on the real classes
    scs = enumerate_scenarios(chk)
    results = run_scenarios(scs)
    codes = eval_rcases(chk, 'c13', [r[0] for r in results], imports, evalfn, 'case evaluation')
    chk.traces_validated = len(scs)
    for i, sc in enumerate(scs):
        trivial = not sc['funs'] and not sc['classes']
        chk.count(1, None if trivial else sc['key'],
                  {'variant': sc['variant'], 'funs': sc['funs'], 'classes': sc['classes'], 'event': sc['ev'],
                   'namespace': sc['ns'], 'args': sc['args'], 'ran': results[i][2]} if i % 997 == 5 else None)
        chk.dist('%s: %s' % (sc['variant'], results[i][1]))
    n_bad = report(chk, scs, results, codes, gen_ok)
    chk.extra['configurations_violating_C13_on_real_classes'] = n_bad

    # 5. histories: sequences of events over several instances of shared namespace classes
    hscs = enumerate_histories(chk)
    hres = run_histories(hscs)
    hcodes = eval_hcases(chk, 'c13h', [r[0] for r in hres], hgen_ok, 'evaluation of history cases')
    n_events = 0
    for i, sc in enumerate(hscs):
        nev = len([o for o in sc['ops'] if o[0] == 'ev'])
        n_events += nev
        chk.count(nev, sc['key'], {'variant': sc['variant'], 'classes': sc['classes'], 'objects': sc['objects'],
                                   'ops': sc['ops'], 'ran': hres[i][2]} if i % 499 == 7 else None)
        chk.dist('%s history (%s, %d host): %s' % (sc['variant'], sc['key'][1], sc['hosts'], hres[i][1]))
    chk.traces_validated += len(hscs)
    chk.extra['history_cases'] = len(hscs)
    chk.extra['history_events'] = n_events
    chk.extra['histories_violating_C13_on_real_classes'] = report_histories(chk, hscs, hres, hcodes, hgen_ok)

    # 4. translator validation
    if gen_ok:
        typed = [s for i, s in enumerate(scs) if not s['async'] and (chk.thorough or i % 3 == 0)]
        terms, labels = tv_cases(chk.rng, 3000 if chk.thorough else 700, typed)
        codes, errors = coqio.eval_cases('c13tv', IMPORTS_GEN, '', 'tvcase', terms, 'eval_tv',
                                         shard=shard_for(len(terms)))
        for e in errors:
            chk.broken_obligation('translator validation could not be evaluated: ' + e)
        for lab in labels:
            chk.dist('translator validation: ' + lab)
        chk.evaluations += len(terms)
        chk.traces_validated += len(terms)
        chk.extra['translator_validation_cases'] = len(terms)
        for i in sorted(codes)[:5]:
            chk.broken_obligation('translator validation: generated definition and real Python function disagree '
                                  'on %s: %s' % (labels[i], terms[i][:600]))
        if hgen_ok:
            terms, labels = ns_tv_cases(chk.rng, 400 if chk.thorough else 120)
            codes, errors = coqio.eval_cases('c13nstv', IMPORTS_HGEN, '', 'nstv', terms, 'eval_nstv',
                                             shard=shard_for(len(terms)))
            for e in errors:
                chk.broken_obligation('translator validation (namespace trigger_event) could not be evaluated: ' + e)
            for lab in labels:
                chk.dist('translator validation: ' + lab)
            chk.evaluations += len(terms)
            chk.traces_validated += len(terms)
            chk.extra['translator_validation_cases_trigger_event'] = len(terms)
            for i in sorted(codes)[:5]:
                chk.broken_obligation('translator validation: generated trigger_event and the real method disagree '
                                      'on %s: %s' % (labels[i], terms[i][:600]))
        if not gen_is_current():
            chk.broken_obligation('the generated Routing/Gen_*.v files were changed while the check was running '
                                  '(concurrent run with a different VERIF_REPO?): results are not consistent, re-run')


def replay_history(sc, gen_ok):
    res = run_histories([sc])[0]
    print('history: %r' % sc)
    print('observed for the events on the real %s: %r' % (sc['cls'], res[2]))
    imports, fn = (IMPORTS_HGEN, 'eval_hfull') if gen_ok else (IMPORTS_HSPEC, 'eval_hspec')
    names = [fn, 'spec_hobs  (what the documented rules prescribe, per operation)',
             'what the real class did, per operation']
    terms = ['%s %s' % (fn, res[0]), 'spec_hobs %s' % res[0], 'map snd (hc_ops %s)' % res[0]]
    if gen_ok:
        names.append('model (generated lookups under the hand model of _trigger_event): observations, final registries')
        terms.append('model_hrun %s' % res[0])
    rc, out = coqio.eval_print('c13_replay', imports, '', terms)
    print('values printed below, in order: ' + '; '.join(names))
    print(out)
    first = out.split('\n')[0] if out else ''
    bad = rc != 0 or '= 0' not in first
    print('C13 clause "every event of the sequence ran exactly the prescribed target (function, or the namespace '
          'object registered under the prescribed key and its own on_<event>) with the prescribed arguments": %s'
          % ('VIOLATED' if bad else 'holds'))
    return 1 if bad else 0


def replay(chk, data):
    sc = data['replay'].get('scenario')
    if not sc:
        print('nothing to replay (no scenario stored): %r' % data.get('what'))
        return 1
    from translator import py2coq, ns2coq
    for m in py2coq.regenerate() + ns2coq.regenerate():
        print(m)
    ok, out = coqio.build(['Check/C13GenCheck.v', 'Check/C13Check.v', 'Check/C13HistGenCheck.v',
                           'Check/C13HistCheck.v'])
    if sc.get('kind') == 'hist':
        return replay_history(sc, ok and os.path.exists(os.path.join(common.COQ, 'Check', 'C13HistGenCheck.vo')))
    res = run_scenarios([sc])[0]
    print('scenario: %r' % sc)
    print('observed on the real %s: %r' % (sc['cls'], res[2]))
    imports, fn = (IMPORTS_GEN, 'eval_full') if ok else (IMPORTS_SPEC, 'eval_spec')
    names = [fn, 'spec_calls   (what the documented rules prescribe)', 'rc_obs       (what the real class did)']
    terms = ['%s %s' % (fn, res[0]), 'spec_calls %s' % res[0], 'rc_obs %s' % res[0]]
    if ok:
        names.append('model_calls  (generated lookups under the hand model of _trigger_event)')
        terms.append('model_calls %s' % res[0])
    rc, out = coqio.eval_print('c13_replay', imports, '', terms)
    print('values printed below, in order: ' + '; '.join(names))
    print(out)
    first = out.split('\n')[0] if out else ''
    bad = rc != 0 or '= 0' not in first
    print('C13 clause "exactly the prescribed target ran with the prescribed arguments": %s'
          % ('VIOLATED (observed calls differ from spec_calls)' if bad else 'holds'))
    return 1 if bad else 0


if __name__ == '__main__':
    if '--promote' in sys.argv:
        sys.exit(promote())
    print(__doc__)
