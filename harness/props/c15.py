"""C15 - the pub/sub listener survives anything that arrives on the channel.

Tie: hand model Listener/Listener.v (+ RedisRetry.v), correspondence by differential
execution against the REAL PubSubManager / AsyncPubSubManager (drivers/pubsub_listener.py)
and the real RedisManager / AsyncRedisManager retry loops over a scripted fake `redis`
package (drivers/fake_redis.py).  Every listener scenario is run twice on the real class:
on the full channel sequence and on the sequence without the messages tagged ineffective;
Coq compares each run with the model and evaluates the property on the two observations."""
import asyncio
import base64
import collections
import logging
import os
import pickle
import re

from vt import coqio, common
from vt.coqio import pv, cstr, clist, cbool, exn_name

from drivers import fake_redis
RM, ARM = fake_redis.install()          # before anything else touches socketio.redis_manager

from drivers import pubsub_listener as D      # noqa: E402
from engineio import json as ejson            # noqa: E402

IMPORTS = 'From VT Require Import Listener.Listener Listener.RedisRetry Check.C15Check.'
OWN = D.OWN
KEEP_NS = '/s'
REMOTE_SIDS = ['x1', 'x2']        # clients connected to ANOTHER server: their acknowledgements come back on the channel
# A PLAIN-function callback that raises asyncio.CancelledError under the asyncio manager ends the listener on the
# unchanged tree (C15_total_refuted; notes/C15.md "CancelledError").  The class is generated only on request:
# C15_PLAIN_CANCEL=1 -> signature async-listener-ended-by-cancellederror-from-plain-callback
PLAIN_CANCEL = os.environ.get('C15_PLAIN_CANCEL') == '1'


LIT = re.compile(r'\(s2l "[^"]*"\)')


class Unprintable(Exception):
    pass


def term_or_none(f, m):
    try:
        v = f(m)
    except BaseException:
        return None
    try:
        return pv(v)
    except (TypeError, RecursionError):
        raise Unprintable()


def with_oracle(it):
    """Attach what pickle.loads / json.loads return for this raw message (the model's oracle)."""
    m = it['m']
    if isinstance(m, dict):
        return it
    it['pk'] = term_or_none(pickle.loads, m) if isinstance(m, bytes) else None
    it['js'] = term_or_none(ejson.loads, m)
    return it


# --------------------------------------------------------------------------- generator
SIDS_BAD = ['nosuch', 5, None, ['c1'], {'a': 1}, ('c1',), b'c1', True, 1.5, '']
NS_POOL = ['/', '/', '/chat', '/nope', None, '', 0]
NS_WRONG = [['/'], {}, 5, ('/',), {'/': 1}, b'/']
ROOM_POOL = [None, None, 'r1', 'r2', 5, 1, True, ('t', 1), b'rb', ['r1', 'r2'], ('r1', 5), [], (), [['x']],
             b'', {'a': 1}, {0: 'r1'}, {0: ['x']}, 1.5, 'nosuchroom', ['r1', ['x']], [None, 'r1']]
EVENTS = ['ev', 'msg', 'my event', 5, None, ['x'], '']
DATAS = [None, 'x', 1, [1, 2], (1, 2), {'k': 'v'}, b'bin', (), ('a', None), 0, '', [[1], {'z': None}], 2.5, True]
ARGS = [[], [1, 'a'], (1,), 'ab', 5, {'k': 1}, None, [[1, 2]], (), b'\x01\x02', [None]]
HOSTS_OTHER = ['hostB', 'hostB', 'hostC', None, 5, 'HOSTA', '', ['hostA']]
ENCODINGS = ['dict', 'dict', 'pickle', 'pickle', 'json-str', 'json-bytes']
RAW_BAD = [b'', b'\x80', b'\x80\x04', b'garbage', b'\xff\xfe\x00', 'not json', '{', '', '[1,', 5, None, 1.5,
           ['method'], True, ('a',), b'{"method": "emit"', '{"method": emit}', b'\x80\x04\x95\x00', 0]
NONDICT = [5, 0, 'method', 'xmethody', 'abc', ['method'], ['a'], ('method',), None, 1.5, True, False,
           b'method', [], '', {}, ['method', 1], 'meth', 7.25, [['method']], ('a', 'method'), -1, b'']


def encode(rng, msg, enc=None):
    enc = enc or rng.choice(ENCODINGS)
    if enc == 'dict':
        return msg, 'dict'
    if enc.startswith('json'):
        try:
            s = ejson.dumps(msg)
            return (s if enc == 'json-str' else s.encode()), enc
        except (TypeError, ValueError):
            enc = 'pickle'
    return pickle.dumps(msg), 'pickle'


class Gen:
    def __init__(self, rng, thorough):
        self.rng = rng
        self.thorough = thorough
        self.echo_pool = []          # messages really published by API calls with host_id = OWN
        self.foreign_cb_pool = []    # callback messages really published by _return_callback

    def plan(self):
        rng = self.rng
        plan, clients = [], []
        n = rng.randrange(1, 5)
        k = 0
        for i in range(n):
            eio = 'e%d' % (i + 1)
            for ns in ['/', '/chat']:
                if ns == '/' or rng.random() < 0.4:
                    k += 1
                    plan.append(('connect', eio, ns))
                    clients.append(('c%d' % k, ns, eio))
        k += 1
        plan.append(('connect', 'eK', KEEP_NS))
        keep = ('c%d' % k, KEEP_NS, 'eK')
        for sid, ns, _ in clients:
            for _ in range(rng.randrange(0, 3)):
                plan.append(('enter', sid, ns, rng.choice(['r1', 'r2', 5, 1, True, ('t', 1), b'rb', 1.5, 't'])))
        ncb = 0
        nxt = collections.defaultdict(lambda: 1)     # next ack id of callbacks[sid]
        out = self.outstanding = []                  # application callbacks waiting for their acknowledgement:
        #                                              (sid, namespace, id of the callback, callback number,
        #                                               id of the local return path that leads to it or None)
        for sid, ns, _ in clients:
            if rng.random() < 0.5:
                ncb += 1
                plan.append(('emitcb', 'ev0', ns, sid, ncb))
                # emit() registers the application callback, then _handle_emit registers the return path
                # partial(_return_callback, own, sid, ns, id) for the local client
                out.append((sid, ns, nxt[sid], ncb, nxt[sid] + 1))
                nxt[sid] += 2
        if rng.random() < 0.3:
            ncb += 1
            plan.append(('emitcb', 'ev0', KEEP_NS, keep[0], ncb))
            nxt[keep[0]] += 2
        # emits with callback to clients of another server: only the application callback is registered here
        for _ in range(rng.choice([0, 1, 1, 2, 2, 3, 4])):
            ncb += 1
            sid, ns = rng.choice(REMOTE_SIDS), rng.choice(['/', '/chat', KEEP_NS])
            plan.append(('emitcb', 'ev0', ns, sid, ncb))
            out.append((sid, ns, nxt[sid], ncb, None))
            nxt[sid] += 1
        return plan, clients, keep

    def app_callback_item(self, is_async):
        """A `callback` message for an outstanding emit-with-callback: the listener runs the application's
        callback, which returns, raises an Exception subclass, or (asyncio) raises CancelledError because it
        awaits / asks a job that the application cancelled.  Directly, or through the local return path."""
        rng = self.rng
        sid, ns, cid, n, via = self.outstanding.pop(rng.randrange(len(self.outstanding)))
        coro = bool(is_async and n % 2)
        through = via is not None and rng.random() < 0.4
        beh = rng.choice(['returns', 'raises', 'raises', 'cancelled', 'cancelled'])
        if beh == 'cancelled' and not (is_async and (coro or through or PLAIN_CANCEL)):
            # threaded manager: a BaseException is out of the property's domain (and of the parity traces)
            beh = 'raises'
        f = {'returns': None, 'raises': rng.choice(D.FAULT_NAMES), 'cancelled': D.CANCEL}[beh]
        m = {'method': 'callback', 'host_id': OWN, 'sid': sid, 'namespace': ns, 'id': via if through else cid,
             'args': rng.choice([[], [1, 'a'], (1,), [[1, 2]], [None], 'ab', [{'k': 1}]])}
        raw, enc = encode(rng, m)
        kind = 'coro' if coro else 'plain'
        return with_oracle({'kind': 'msg', 'm': raw, 'fs': [None, None, f] if through else [None, f], 'tag': None,
                            'label': 'cb-app/%s-%s%s/%s' % (beh, kind, '-via-return-path' if through else '', enc)})

    # ---- field pools depending on the scenario's clients
    def sid(self, clients, good=0.7):
        rng = self.rng
        if clients and rng.random() < good:
            return rng.choice(clients)[0]
        return rng.choice(SIDS_BAD)

    def ns(self, good=0.85):
        rng = self.rng
        return rng.choice(NS_POOL) if rng.random() < good else rng.choice(NS_WRONG)

    def room(self, clients):
        rng = self.rng
        if clients and rng.random() < 0.35:
            return rng.choice(clients)[0]
        return rng.choice(ROOM_POOL)

    def host(self):
        return self.rng.choice(HOSTS_OTHER)

    def cbfield(self, clients):
        rng = self.rng
        r = rng.random()
        if r < 0.45:
            return None
        if r < 0.75:
            t = (self.sid(clients, 0.9), rng.choice(['/', '/chat']), rng.randrange(1, 9))
            return t if rng.random() < 0.7 else list(t)
        return rng.choice(['abc', b'abc', {'a': 1, 'b': 2, 'c': 3}, 5, [1, 2], 1.5, True, (1, 2, 3, 4), '', [], 'ab'])

    def valid(self, clients, method=None):
        rng = self.rng
        method = method or rng.choice(['emit', 'emit', 'emit', 'disconnect', 'enter_room', 'leave_room',
                                       'close_room', 'callback', 'callback'])
        # coherent variant: a client that exists, in the namespace it is connected to
        c = rng.choice(clients) if clients and rng.random() < 0.6 else None
        if method == 'emit':
            m = {'method': 'emit', 'event': rng.choice(EVENTS), 'data': rng.choice(DATAS), 'namespace': self.ns(),
                 'room': self.room(clients), 'skip_sid': rng.choice([None, None, self.sid(clients), [self.sid(clients)],
                                                                    [self.sid(clients), self.sid(clients)], 5]),
                 'callback': self.cbfield(clients), 'host_id': self.host()}
            if c:
                m['namespace'] = c[1]
                m['room'] = rng.choice([c[0], c[0], None, 'r1', 5, ['r1', c[0]]])
                if rng.random() < 0.5:
                    m['callback'] = (c[0], c[1], rng.randrange(1, 6))
                    m['host_id'] = rng.choice(['hostB', 'hostC'])
        elif method == 'disconnect':
            m = {'method': 'disconnect', 'sid': self.sid(clients), 'namespace': self.ns(), 'host_id': self.host()}
            if c and rng.random() < 0.4:
                m['sid'], m['namespace'] = c[0], c[1]
        elif method in ('enter_room', 'leave_room'):
            m = {'method': method, 'sid': self.sid(clients), 'room': self.room(clients), 'namespace': self.ns(),
                 'host_id': self.host()}
            if c:
                m['sid'], m['namespace'] = c[0], c[1]
                if rng.random() < 0.6:
                    m['room'] = rng.choice(['r1', 'r2', 5, 1, ('t', 1), b'rb', 'new', ['x'], c[0]])
        elif method == 'close_room':
            m = {'method': 'close_room', 'room': self.room(clients), 'namespace': self.ns(), 'host_id': self.host()}
            if c:
                m['namespace'] = c[1]
        else:
            m = {'method': 'callback', 'host_id': OWN, 'sid': self.sid(clients, 0.85),
                 'namespace': rng.choice(['/', '/chat']), 'id': rng.choice([1, 1, 2, 2, 3, 4, 5, True, '1', [1], 1.5, None]),
                 'args': rng.choice(ARGS)}
            if c:
                m['sid'] = c[0]
                m['id'] = rng.choice([1, 2, 3, 4])
        # field-level damage: surplus / missing / renamed fields
        r = rng.random()
        if r < 0.12:
            m['extra'] = rng.choice([1, 'x', None, [1]])
        elif r < 0.27 and len(m) > 1:
            k = rng.choice([k for k in m if k != 'method'])
            del m[k]
        elif r < 0.32:
            k = rng.choice([k for k in m if k != 'method'])
            m[k + '_'] = m.pop(k)
        return m

    def bad(self, clients, keep):
        """(label, message-or-raw, already_raw) for a message of one of the ineffective classes."""
        rng = self.rng
        kind = rng.choice(['undecodable', 'nondict', 'nomethod', 'unknownmethod', 'ownecho', 'ownecho-api',
                           'foreigncb', 'foreigncb-real', 'cbmissing', 'cbunknown', 'emitmalformed',
                           'roomopmalformed', 'nothere'])
        if kind == 'undecodable':
            if rng.random() < 0.5:
                return kind, rng.choice(RAW_BAD), True
            return kind, bytes(rng.randrange(256) for _ in range(rng.randrange(1, 12))), True
        if kind == 'nondict':
            v = rng.choice(NONDICT)
            enc = rng.choice(['pickle', 'json-str', 'json-bytes'])
            return kind, encode(rng, v, enc)[0], True
        if kind == 'nomethod':
            m = self.valid(clients)
            m.pop('method', None)
            if rng.random() < 0.3:
                m['Method'] = 'emit'
            return kind, m, False
        if kind == 'unknownmethod':
            m = self.valid(clients)
            m['method'] = rng.choice(['foo', 'EMIT', '', 5, None, ['emit'], 'emit ', 'callbacks', True, 1.5, {'a': 1}])
            return kind, m, False
        if kind == 'ownecho':
            m = self.valid(clients, rng.choice(['emit', 'disconnect', 'enter_room', 'leave_room', 'close_room']))
            m['host_id'] = OWN
            return kind, m, False
        if kind == 'ownecho-api':
            if not self.echo_pool:
                return self.bad(clients, keep)
            return kind, dict(rng.choice(self.echo_pool)), False
        if kind == 'foreigncb':
            m = self.valid(clients, 'callback')
            m['host_id'] = rng.choice(['hostB', 'hostC', None, 5, 'HOSTA', ['hostA']])
            if rng.random() < 0.3:
                m.pop('host_id')
            return kind, m, False
        if kind == 'foreigncb-real':
            if not self.foreign_cb_pool:
                return self.bad(clients, keep)
            return kind, dict(rng.choice(self.foreign_cb_pool)), False
        if kind == 'cbmissing':
            m = {'method': 'callback', 'host_id': OWN, 'sid': self.sid(clients), 'id': 1, 'args': []}
            del m[rng.choice(['sid', 'id', 'args'])]
            return kind, m, False
        if kind == 'cbunknown':
            m = {'method': 'callback', 'host_id': OWN, 'namespace': '/', 'args': rng.choice(ARGS)}
            if rng.random() < 0.5:
                m['sid'] = rng.choice(['nosuch', 5, None, ['c1'], {'a': 1}, ''])
                m['id'] = rng.choice([1, 2, 0, [1]])
            else:
                m['sid'] = self.sid(clients, 1.0)
                m['id'] = rng.choice([999, 'x', None, [1], {'a': 1}, -1, '1', 2.5, (1,)])
            return kind, m, False
        if kind == 'emitmalformed':
            m = self.valid(clients, 'emit')
            m['host_id'] = rng.choice(['hostB', None, 5])
            m['method'] = 'emit'
            r = rng.random()
            if r < 0.4:
                m.pop('event', None)
            elif r < 0.7:
                m.pop('data', None)
                m.setdefault('event', 'ev')
            else:
                m['callback'] = rng.choice([5, 1.5, True])
            return kind, m, False
        if kind == 'roomopmalformed':
            m = {'method': rng.choice(['enter_room', 'leave_room']), 'sid': self.sid(clients), 'room': self.room(clients),
                 'namespace': rng.choice([['/'], {}, {'/': 1}, [['/']]]), 'host_id': 'hostB'}
            return kind, m, False
        m = {'method': rng.choice(['enter_room', 'leave_room']), 'sid': rng.choice(['nosuch', 5, None, ('c1',), b'c1', '']),
             'room': self.room(clients), 'namespace': rng.choice(['/', '/chat', '/nope', None]), 'host_id': 'hostB'}
        return 'nothere', m, False

    def faults(self, p=0.25):
        rng = self.rng
        if rng.random() >= p:
            return []
        return [rng.choice(D.FAULT_NAMES) if rng.random() < 0.55 else None for _ in range(rng.randrange(1, 5))]

    def sentinel(self, k, keep):
        rng = self.rng
        withcb = rng.random() < 0.4
        ev = 'sent-%d' % k
        m = {'method': 'emit', 'event': ev, 'data': rng.choice([k, None, (k, 'x'), {'k': k}]), 'namespace': KEEP_NS,
             'room': rng.choice([None, keep[0]]), 'skip_sid': None,
             'callback': (keep[0], KEEP_NS, 50 + k) if withcb else None, 'host_id': 'hostB'}
        if rng.random() < 0.2:
            del m['skip_sid']
        raw, enc = encode(rng, m)
        return {'kind': 'msg', 'm': raw, 'fs': [], 'tag': ('sent', keep[2], ev, withcb), 'label': 'sentinel/' + enc}

    def scenario(self, probe_id0=False, is_async=None):
        """is_async: the manager class the scenario is for (None: for both - no CancelledError)."""
        rng = self.rng
        plan, clients, keep = self.plan()
        n = rng.randrange(3, 14 if not self.thorough else 30)
        items, k = [], 0
        while len(items) < n:
            r = rng.random()
            try:
                if self.outstanding and rng.random() < 0.22:
                    items.append(self.app_callback_item(is_async))
                    k += 1
                    items.append(with_oracle(self.sentinel(k, keep)))
                elif r < 0.40:
                    label, m, raw = self.bad(clients, keep)
                    enc = 'raw'
                    if not raw:
                        m, enc = encode(rng, m)
                    it = with_oracle({'kind': 'msg', 'm': m, 'fs': self.faults(0.2), 'tag': 'bad',
                                      'label': 'bad/%s/%s' % (label, enc)})
                    items.append(it)
                    k += 1
                    items.append(with_oracle(self.sentinel(k, keep)))
                elif r < 0.80:
                    m = self.valid(clients)
                    raw, enc = encode(rng, m)
                    items.append(with_oracle({'kind': 'msg', 'm': raw, 'fs': self.faults(), 'tag': None,
                                              'label': 'msg/%s/%s' % (m.get('method'), enc)}))
                    cbf = m.get('callback')
                    if m.get('method') == 'emit' and isinstance(cbf, tuple) and len(cbf) == 3 and rng.random() < 0.6:
                        # the client acknowledges: the wiring (room, namespace, id) goes back to the origin host
                        items.append({'kind': 'ack', 'sid': cbf[0], 'id': rng.choice([1, 2, 3, 3, 4]),
                                      'args': rng.choice(ARGS), 'fs': self.faults(0.15), 'tag': None,
                                      'label': 'local-ack'})
                elif r < 0.86:
                    items.append({'kind': 'raise', 'e': rng.choice(D.FAULT_NAMES), 'tag': None, 'label': 'listen-raises'})
                    k += 1
                    items.append(with_oracle(self.sentinel(k, keep)))
                elif r < 0.95:
                    items.append({'kind': 'ack', 'sid': self.sid(clients, 0.95), 'id': rng.choice([1, 1, 2, 2, 3, 3, 4, 5, '1']),
                                  'args': rng.choice(ARGS), 'fs': self.faults(), 'tag': None, 'label': 'local-ack'})
                else:
                    v = rng.choice(NONDICT + RAW_BAD)
                    items.append(with_oracle({'kind': 'msg', 'm': v if isinstance(v, (bytes, str, dict)) else
                                              encode(rng, v, 'pickle')[0], 'fs': [], 'tag': None, 'label': 'raw'}))
            except Unprintable:
                continue
        if probe_id0:
            # the id counter slot: {'method': 'callback', 'id': 0} for a sid that has callbacks
            k += 1
            m1 = {'method': 'emit', 'event': 'sent-%d' % k, 'data': k, 'namespace': KEEP_NS, 'room': None,
                  'skip_sid': None, 'callback': (keep[0], KEEP_NS, 50 + k), 'host_id': 'hostB'}
            items.append({'kind': 'msg', 'm': m1, 'fs': [], 'tag': ('sent', keep[2], 'sent-%d' % k, True),
                          'label': 'sentinel/dict'})
            items.append({'kind': 'msg', 'm': {'method': 'callback', 'host_id': OWN, 'sid': keep[0],
                                               'id': rng.choice([0, 0, False]), 'args': []},
                          'fs': [], 'tag': 'bad', 'label': 'bad/cbunknown-id0/dict'})
            k += 1
            m2 = dict(m1, event='sent-%d' % k, callback=(keep[0], KEEP_NS, 50 + k))
            items.append({'kind': 'msg', 'm': m2, 'fs': [], 'tag': ('sent', keep[2], 'sent-%d' % k, True),
                          'label': 'sentinel/dict'})
        return plan, items


def share_strings(cases):
    """Name the string literals that occur more than once (elaborating `s2l "..."` is what costs)."""
    lits = collections.Counter(m for c in cases for m in LIT.findall(c))
    names = {l: 'sx%d' % i for i, (l, n) in enumerate(lits.most_common()) if n >= 2}
    defs = '\n'.join('Definition %s := %s.' % (v, k[1:-1]) for k, v in names.items())
    return defs, [LIT.sub(lambda m: names.get(m.group(0), m.group(0)), c) for c in cases]


def minimal_id0_probe():
    """Smallest history for the counter-slot class: emit with callback, callback id 0, emit with callback."""
    plan = [('connect', 'eK', KEEP_NS)]
    sid = 'c1'

    def emit(k):
        return {'kind': 'msg', 'fs': [], 'tag': ('sent', 'eK', 'sent-%d' % k, True), 'label': 'sentinel/dict',
                'm': {'method': 'emit', 'event': 'sent-%d' % k, 'data': k, 'namespace': KEEP_NS, 'room': sid,
                      'callback': (sid, KEEP_NS, 50 + k), 'host_id': 'hostB'}}
    bad = {'kind': 'msg', 'fs': [], 'tag': 'bad', 'label': 'bad/cbunknown-id0/dict',
           'm': {'method': 'callback', 'host_id': OWN, 'sid': sid, 'id': 0, 'args': []}}
    return plan, [emit(1), bad, emit(2)]


def tag_term(t):
    if t is None:
        return 'TNone'
    if t == 'bad':
        return 'TBad'
    return '(TSent %s %s %s)' % (pv(t[1]), pv(t[2]), cbool(t[3]))


def lst_case(is_async, plan, items, loop):
    initA, segsA, finA, pubA, _ = D.run_listener(is_async, plan, items, loop)
    itemsB = [i for i in items if i['tag'] != 'bad']
    initB, segsB, finB, _, _ = D.run_listener(is_async, plan, itemsB, loop)
    if initA != initB:
        raise RuntimeError('set-up is not deterministic')
    tA = [[D.eff_term(e) for e in seg] for seg in segsA]
    tB = [[D.eff_term(e) for e in seg] for seg in segsB]
    # run B is normally run A minus the segments of the tagged items: then it is not printed again
    # (Coq rebuilds it from run A: C15Check.without_bad); any difference is printed in full
    expectB = None
    if len(tA) == len(items) + 2:
        expectB = [tA[0]] + [seg for it, seg in zip(items, tA[1:-1]) if it['tag'] != 'bad'] + [tA[-1]]
    obsB = 'None' if tB == expectB else '(Some %s)' % clist([clist(seg) for seg in tB])
    term = '(Lst %s %s %s %s %s %s %s %s)' % (
        cbool(is_async), cstr(OWN), initA,
        clist(['(%s, %s)' % (tag_term(i['tag']), D.item_term(i)) for i in items]),
        clist([clist(seg) for seg in tA]), finA, obsB, 'None' if finB == finA else '(Some %s)' % finB)
    return term, pubA, len(tA)


# --------------------------------------------------------------------------- API messages
def api_cases(rng, is_async, loop, n):
    """Messages built by the public methods (what this host publishes) vs. the transcribed literals."""
    cases, msgs = [], []
    rec, srv, mgr = D.build(is_async, [])

    def call(f, *a, **k):
        r = f(*a, **k)
        if is_async:
            r = loop.run_until_complete(r)
        return r
    sid = call(mgr.connect, 'e1', '/')
    for _ in range(n):
        kind = rng.choice(['emit', 'emit', 'disconnect', 'enter_room', 'leave_room', 'close_room'])
        mgr._published.clear()
        ns = rng.choice([None, '/', '/chat', '/x'])
        nsf = ns or '/'
        room = rng.choice([None, 'r1', sid, 'other', 5])
        if kind == 'emit':
            ev, da = rng.choice(['ev', 'msg']), rng.choice(DATAS)
            skip = rng.choice([None, 'c9', ['c9', 'c8']])
            use_to = rng.random() < 0.3
            withcb = room is not None and rng.random() < 0.5
            cb = D.AppCb(1, rec) if withcb else None
            kw = {'to': room} if use_to else {'room': room}
            call(mgr.emit, ev, da, namespace=ns, skip_sid=skip, callback=cb, **kw)
            obs = mgr._published[-1]
            cbt = obs['callback']
            if withcb and not (isinstance(cbt, tuple) and len(cbt) == 3 and isinstance(cbt[2], int)):
                cbt = ('<missing>',)
            model = '(msg_emit (PStr %s) %s %s %s %s %s %s)' % (
                cstr(OWN), pv(ev), pv(da), pv(nsf), pv(room), pv(skip),
                pv((room, nsf, cbt[2]) if withcb else None))
        elif kind == 'disconnect':
            s = rng.choice(['zz', 'other', 5])
            call(mgr.disconnect, s, ns)
            obs = mgr._published[-1]
            model = '(msg_disconnect (PStr %s) %s %s)' % (cstr(OWN), pv(s), pv(nsf))
        elif kind in ('enter_room', 'leave_room'):
            s = rng.choice(['zz', 'other'])      # not connected here: the request goes to the queue
            call(getattr(mgr, kind), s, ns, room)
            obs = mgr._published[-1]
            model = '(msg_%s (PStr %s) %s %s %s)' % (kind, cstr(OWN), pv(s), pv(room), pv(nsf))
        else:
            call(mgr.close_room, room, ns)
            obs = mgr._published[-1]
            model = '(msg_close_room (PStr %s) %s %s)' % (cstr(OWN), pv(room), pv(nsf))
        cases.append('(ApiMsg %s %s)' % (model, pv(obs)))
        msgs.append(dict(obs))
    return cases, msgs


# --------------------------------------------------------------------------- Redis loops
def gen_script(rng, maxlen):
    script = []
    n = rng.randrange(0, maxlen)
    while len(script) < n:
        r = rng.random()
        if r < 0.35:
            ch = rng.choice([b'socketio', b'socketio', b'socketio', b'other', 'socketio'])
            ty = rng.choice(['message', 'message', 'message', 'subscribe', 'pmessage', b'message'])
            m = {'type': ty, 'pattern': None, 'channel': ch, 'data': rng.choice([b'x', b'', 'y', 5, pickle.dumps({'a': 1})])}
            q = rng.random()
            if q < 0.08:
                del m['data']
            elif q < 0.11:
                del m[rng.choice(['type', 'channel'])]
            elif q < 0.13:
                m = rng.choice([5, None, 'str', [1]])
            script.append(('yield', m))
        elif r < 0.55:
            script.append(('redis',))
        elif r < 0.70:
            script.extend([('redis',)] * rng.randrange(2, 11))
        elif r < 0.82:
            script.append(('ok',))
        elif r < 0.93:
            script.append(('stop',))
        else:
            script.append(('other', rng.choice(sorted(fake_redis.OTHER))))
    return script


def outcome_term(o):
    if o[0] == 'ok':
        return 'LOk'
    if o[0] == 'stop':
        return 'LStop'
    if o[0] == 'redis':
        return 'LRedisError'
    if o[0] == 'other':
        return '(LOther %s)' % o[1]
    return '(LYield %s)' % pv(o[1])


def run_redis_listen(is_async, script, loop):
    ctl = fake_redis.CTL
    ctl.end()
    cls = ARM.AsyncRedisManager if is_async else RM.RedisManager
    mgr = cls('redis://', channel='socketio', logger=logging.getLogger('c15-null'))
    ctl.begin(script)
    tr = ctl.trace
    try:
        if is_async:
            async def go():
                async for d in mgr._listen():
                    tr.append(('yield', d))
            loop.run_until_complete(go())
        else:
            for d in mgr._listen():
                tr.append(('yield', d))
        tr.append(('returned',))
    except fake_redis.ScriptEnd:
        tr.append(('end',))
    except Exception as e:
        tr.append(('raised', exn_name(e)))
    finally:
        ctl.end()
    return list(tr)


def run_redis_publish(is_async, script, loop):
    ctl = fake_redis.CTL
    ctl.end()
    cls = ARM.AsyncRedisManager if is_async else RM.RedisManager
    mgr = cls('redis://', channel='socketio', logger=logging.getLogger('c15-null'))
    ctl.begin(script)
    tr = ctl.trace
    try:
        r = mgr._publish({'method': 'emit', 'x': 1})
        if is_async:
            r = loop.run_until_complete(r)
        if r is None:
            tr.append(('giveup',))
    except fake_redis.ScriptEnd:
        tr.append(('end',))
    except Exception as e:
        tr.append(('raised', exn_name(e)))
    finally:
        ctl.end()
    return list(tr)


def revent_term(e):
    k = e[0]
    if k == 'yield':
        return '(RYield %s)' % pv(e[1])
    if k == 'sleep':
        if not isinstance(e[1], int) or isinstance(e[1], bool):
            return '(RRaised OracleMiss)'
        return '(RSleep (%d)%%Z)' % e[1]
    if k == 'raised':
        return '(RRaised %s)' % e[1]
    return {'connect': 'RConnect', 'subscribe': 'RSubscribe', 'listen': 'RListen', 'end': 'REnd',
            'returned': '(RRaised OracleMiss)', 'publish': '(RRaised OracleMiss)'}[k]


def pevent_term(e):
    k = e[0]
    if k == 'raised':
        return '(PRaised %s)' % e[1]
    return {'connect': 'PConnect', 'publish': 'PPublish', 'giveup': 'PGiveUp', 'end': 'PEnd'}.get(k, '(PRaised OracleMiss)')


# --------------------------------------------------------------------------- parity traces for C14
def _plain_cb(cb):
    v = D.cb_value(cb)
    return ('app', v.n) if isinstance(v, coqio.Obj) else v


def _plain_eff(e):
    if e[0] == 'op' and e[1] == 'OEmit':
        args = list(e[2])
        args[5] = _plain_cb(args[5])
        return ('op', 'OEmit', args)
    return tuple(list(x) if isinstance(x, list) else x for x in e)


def _plain_state(mgr):
    rooms = [(ns, [(room, list(bd._fwdm.items())) for room, bd in nsr.items()]) for ns, nsr in mgr.rooms.items()]
    cbs = [(sid, [(i, _plain_cb(c)) for i, c in d.items()]) for sid, d in mgr.callbacks.items()]
    return ('state', rooms, cbs)


def parity_traces(rng, n):
    """For C14: n generated channel scenarios, each run on the real PubSubManager and on the real
    AsyncPubSubManager; returns [('pubsub-listener', scenario_repr, trace_sync, trace_async)] where a trace is
    the flat list of canonicalised effect segments (one per item, plus the loop's prefix and suffix) followed by
    the final rooms / callbacks dump, as plain Python values.  Fault scripts are cut to their first entry: the
    first fault point of every item is an operation entry, never a send (the one place where the two classes
    differ by design: Manager.emit stops at a raising send, AsyncManager.emit runs the sends as tasks)."""
    gen = Gen(rng, False)
    loop = asyncio.new_event_loop()
    loop.set_exception_handler(lambda l, c: None)
    logging.getLogger('asyncio').setLevel(logging.CRITICAL)
    out = []
    try:
        for _ in range(n):
            plan, items = gen.scenario()
            for it in items:
                if it.get('fs'):
                    it['fs'] = it['fs'][:1]
            traces = []
            for is_async in (False, True):
                _, segs, _, _, mgr = D.run_listener(is_async, plan, items, loop)
                traces.append([[_plain_eff(e) for e in seg] for seg in segs] + [_plain_state(mgr)])
            rep = '%d clients; %s' % (sum(1 for o in plan if o[0] == 'connect'),
                                      ', '.join(i['label'] for i in items))
            out.append(('pubsub-listener', rep[:300], traces[0], traces[1]))
    finally:
        loop.close()
    return out


# --------------------------------------------------------------------------- _thread over the fake broker
_RT_CLASSES = {}


def rt_class(is_async):
    """The REAL RedisManager / AsyncRedisManager with the recording Spy layer underneath PubSubManager."""
    if is_async not in _RT_CLASSES:
        if is_async:
            class AsyncRedisUnderTest(ARM.AsyncRedisManager, D.AsyncSpy):
                pass
            _RT_CLASSES[True] = AsyncRedisUnderTest
        else:
            class RedisUnderTest(RM.RedisManager, D.Spy):
                pass
            _RT_CLASSES[False] = RedisUnderTest
    return _RT_CLASSES[is_async]


def gen_rt_items(rng):
    """Channel sequence for the Redis listener: bad messages (non-dict values, undecodable bytes, dicts without
    method, handler faults, own echoes) each followed by a valid sentinel, plus connection drops."""
    items, k = [], 0
    n = rng.randrange(2, 7)

    def sentinel():
        nonlocal k
        k += 1
        m = {'method': 'emit', 'event': 'sent-%d' % k, 'data': k, 'namespace': KEEP_NS, 'room': None,
             'skip_sid': None, 'callback': None, 'host_id': 'hostB'}
        raw = pickle.dumps(m) if rng.random() < 0.6 else ejson.dumps(m).encode()
        return with_oracle({'kind': 'msg', 'm': raw, 'fs': [], 'sentinel': 'sent-%d' % k, 'label': 'sentinel'})
    for _ in range(n):
        r = rng.random()
        if r < 0.45:
            v = rng.choice([5, 'xmethody', ['method'], ('method',), 1.5, True, b'method', 'method', [1, 'method'], 7, -1])
            raw = pickle.dumps(v) if rng.random() < 0.5 or isinstance(v, (tuple, bytes)) else ejson.dumps(v).encode()
            items.append(with_oracle({'kind': 'msg', 'm': raw, 'fs': [], 'label': 'nondict-raises'}))
        elif r < 0.6:
            v = rng.choice([0, None, 'abc', [], {}, {'a': 1}, ['a'], False])
            raw = pickle.dumps(v) if rng.random() < 0.5 else ejson.dumps(v).encode()
            items.append(with_oracle({'kind': 'msg', 'm': raw, 'fs': [], 'label': 'nondict-quiet'}))
        elif r < 0.7:
            items.append(with_oracle({'kind': 'msg', 'm': rng.choice([b'', b'\x80\x04', b'garbage', b'{', b'\xff\xfe']),
                                      'fs': [], 'label': 'undecodable'}))
        elif r < 0.85:
            m = {'method': rng.choice(['emit', 'close_room', 'disconnect']), 'event': 'ev', 'data': 1, 'namespace': '/',
                 'room': 'r1', 'sid': 'c9', 'host_id': rng.choice(['hostB', OWN])}
            items.append(with_oracle({'kind': 'msg', 'm': pickle.dumps(m), 'fs': [rng.choice(D.FAULT_NAMES)],
                                      'label': 'handler-fault'}))
        else:
            items.append({'kind': 'err', 'label': 'connection-drop'})
        items.append(sentinel())
    return items


def run_redis_thread(is_async, items, loop):
    """Run the real _thread() of the Redis manager over the fake broker; returns (broker events, sentinel flags)."""
    fake_redis.CTL.end()
    fake_redis.set_broker(None)
    rec = D.Rec()
    srv = D.AsyncStubServer(rec) if is_async else D.StubServer(rec)
    mgr = rt_class(is_async)('redis://', channel='socketio', logger=logging.getLogger('c15-null'))
    mgr._rec = rec
    mgr.host_id = OWN
    mgr.set_server(srv)
    srv.manager = mgr
    mgr.initialize()
    queue = []
    for it in items:
        if it['kind'] == 'err':
            queue.append(('err',))
        else:
            queue.append(('msg', it['m'], (lambda fs=it.get('fs', ()): rec.new_segment(fs))))
    broker = fake_redis.Broker(queue)
    try:
        if is_async:
            async def go():
                await mgr.connect('eK', KEEP_NS)
                fake_redis.set_broker(broker)
                rec.active = True
                try:
                    await mgr._thread()
                except fake_redis.ScriptEnd:
                    pass
                except Exception as e:
                    broker.events.append(('lost', -1))
                for _ in range(3):
                    await asyncio.sleep(0)
            loop.run_until_complete(go())
        else:
            mgr.connect('eK', KEEP_NS)
            fake_redis.set_broker(broker)
            rec.active = True
            try:
                mgr._thread()
            except fake_redis.ScriptEnd:
                pass
            except Exception as e:
                broker.events.append(('lost', -1))
    finally:
        rec.active = False
        fake_redis.set_broker(None)
        D.FakePacket.registry.clear()
    sent = set()
    for seg in rec.segs:
        for e in seg:
            if e[0] == 'send' and e[1] == 'eK' and isinstance(e[2][1], list) and e[2][1]:
                sent.add(e[2][1][0])
    flags = [it['sentinel'] in sent for it in items if it.get('sentinel')]
    return broker.events, flags


def bevent_term(e):
    if e[0] in ('deliver', 'lost'):
        return '(%s %d%%nat)' % ('BDeliver' if e[0] == 'deliver' else 'BLost', max(e[1], 0))
    return {'sub': 'BSub', 'unsub': 'BUnsub', 'connect': 'BConnect'}[e[0]]


def rt_case(is_async, items, loop):
    events, flags = run_redis_thread(is_async, items, loop)
    term = '(RT %s %s %s %s %s)' % (
        cbool(is_async), cstr(OWN),
        clist(['RE' if it['kind'] == 'err' else '(RM %s)' % D.item_term(it) for it in items]),
        clist([bevent_term(e) for e in events]), clist([cbool(f) for f in flags]))
    return term, events, flags


# --------------------------------------------------------------------------- run
def lst_batch(chk, gen, is_async, n, loop, cases, meta, probes):
    """n generated listener scenarios on one manager class, appended to cases / meta."""
    for i in range(n):
        plan, items = gen.scenario(probe_id0=probes and i % 50 == 7, is_async=is_async)
        term, published, nsegs = lst_case(is_async, plan, items, loop)
        for p in published:
            if isinstance(p, dict) and p.get('method') == 'callback' and len(gen.foreign_cb_pool) < 200:
                try:
                    pv(p)
                    gen.foreign_cb_pool.append(p)
                except TypeError:
                    pass
        cases.append(term)
        meta.append(('lst', is_async, {'plan': plan, 'items': items, 'segments': nsegs}))
        labels = sorted(set(i['label'] for i in items if i['tag'] == 'bad' or i['kind'] == 'raise' or
                            i['label'].startswith('cb-app/')))
        fk = sorted(set(f for i in items for f in i.get('fs', ()) if f))
        nontriv = bool(labels or fk)
        chk.count(1, (is_async, tuple(labels), tuple(fk)) if nontriv else None,
                  {'manager': 'AsyncPubSubManager' if is_async else 'PubSubManager',
                   'items': [i['label'] for i in items][:12]} if i < 2 else None)
        for it in items:
            parts = it['label'].split('/')
            chk.dist(parts[0] + ('/' + parts[1] if parts[0] in ('bad', 'cb-app') else ''))
            if any(it.get('fs', ())):
                chk.dist('item with faults')


def evaluate(chk, cases, meta, name='c15'):
    """Evaluate the cases in Coq; returns [(code, kind, is_async, replay)] for the non-zero ones."""
    order = sorted(range(len(cases)), key=lambda i: (i % common.NCPU, i))   # spread the big cases over the shards
    cases = [cases[i] for i in order]
    meta = [meta[i] for i in order]
    defs, cases = share_strings(cases)
    shard = max(1, -(-len(cases) // (2 * common.NCPU if chk.thorough else common.NCPU)))
    codes, errors = coqio.eval_cases(name, IMPORTS, defs, 'c15case', cases, 'c15_eval', shard=shard)
    chk.traces_validated += len(cases)
    for e in errors:
        chk.broken_obligation('case evaluation failed: ' + e)
    out = []
    for idx, code in sorted(codes.items()):
        kind, is_async, info = meta[idx]
        replay = {'case': cases[idx], 'kind': kind, 'manager': 'async' if is_async else 'sync', 'scenario': info}
        if kind == 'lst':
            replay['scenario_pickle'] = base64.b64encode(pickle.dumps((is_async, info['plan'], info['items']))).decode()
        out.append((code, kind, is_async, replay))
    return out


def report_property(chk, code, kind, is_async, replay):
    cls = 'async' if is_async else 'sync'
    if kind == 'redis-thread':
        chk.violation('redis-listener-unsubscribed-after-restart',
                      'over the Redis backend a message was delivered to / lost by a listener that is not subscribed, or a '
                      'sentinel placed after a bad message had no effect (%s manager): after _listen() was restarted the '
                      'channel is not subscribed exactly once' % cls, replay)
    elif code & 16 and kind == 'lst':
        # the listener did not read the channel to its end; the item it was handling when it ended
        info = replay['scenario']
        k = info.get('segments', 0) - 2
        last = info['items'][k]['label'] if 0 <= k < len(info['items']) else '?'
        replay['listener_ended_while_handling'] = (k, last)
        if last.startswith('cb-app/cancelled-'):
            what = 'coroutine' if last.startswith('cb-app/cancelled-coro') else 'plain'
            via = 'via-return-path' in last
            chk.violation('%s-listener-ended-by-cancellederror-from-%s-callback%s'
                          % (cls, what, '-via-return-path' if via else ''),
                          "a `callback` message for an outstanding emit(..., callback=cb) made the listener run the "
                          "application's %s callback%s, which raised asyncio.CancelledError (it awaits / asks a job "
                          "the application cancelled; the listener task itself was not cancelled): the %s listener "
                          "ended silently and the messages that follow (sentinels) were never processed"
                          % (what, ' (through the local return path _return_callback)' if via else '', cls), replay)
        else:
            chk.violation('c15-listener-stopped-before-end-of-channel',
                          'the %s listener ended while handling item %d (%s): the rest of the channel was never '
                          'processed' % (cls, k, last), replay)
    elif code & 8:
        chk.violation('c15-callback-id0-pops-counter',
                      "a channel message {'method': 'callback', 'host_id': <own>, 'sid': <sid with callbacks>, "
                      "'id': 0} pops the id counter of callbacks[sid]; every later emit with a callback to that "
                      "sid raises KeyError(0) in _generate_ack_id and is lost (first seen on the %s manager)" % cls, replay)
    else:
        chk.violation('c15-%s-property' % kind,
                      'the implementation\'s observation violates the Coq-checked C15 checker (%s, %s)' % (kind, cls),
                      replay)


def run(chk):
    rng = chk.rng
    logging.getLogger('c15-null').addHandler(logging.NullHandler())
    logging.getLogger('c15-null').propagate = False
    logging.getLogger('socketio').addHandler(logging.NullHandler())
    logging.getLogger('socketio').propagate = False
    n_lst = 9000 if chk.thorough else 650          # per manager class
    n_api = 400 if chk.thorough else 60
    n_redis = 3000 if chk.thorough else 250
    n_rt = 2000 if chk.thorough else 150
    chk.rule = ('channel sequences (3..13 items quick, 3..29 thorough, plus one sentinel after every bad item) mixing '
                'valid messages from other hosts with the thirteen ineffective classes, each as dict / pickle / JSON '
                'str / JSON bytes, local ACK deliveries, raising _listen iterators and per-item fault scripts, and callback '
                'messages for outstanding emit(..., callback=) calls (clients of another server, or through the local '
                'return path) whose real application callback - plain function or coroutine, callable instance or function '
                'object - returns, raises an Exception subclass or, asyncio, raises CancelledError by awaiting a job the '
                'application cancelled, each followed by a sentinel; a scenario '
                'is non-trivial when it contains a tagged-ineffective message, a fault or an iterator failure; distinct '
                'by (manager class, set of item labels = rejection class x encoding, fault kinds); Redis: fault scripts '
                'of <= 40 library-call outcomes, distinct by the sequence of outcome kinds')
    chk.trusted_base = [
        'Coq 8.16.1 kernel + vm_compute (case evaluation)',
        'hand model Listener/Listener.v, Listener/RedisRetry.v',
        'pickle.loads / json.loads are oracles: per-message results computed by the harness with the real libraries',
        'harness/drivers/pubsub_listener.py: Spy layer between PubSubManager and Manager in the MRO, stub server '
        '(its disconnect() reproduces Server.disconnect on the manager: is_connected, basic_disconnect), FakePacket',
        'harness/drivers/fake_redis.py: scripted fake of redis / redis.asyncio / redis.exceptions; time.sleep and '
        'asyncio.sleep replaced inside the two manager modules',
        'broker mode of the fake: a pubsub object receives a channel message only while the channel is in its '
        'subscription set (subscribe twice + unsubscribe once = unsubscribed); abandoned async generators are finalised '
        'by the event loop (gc.collect + loop turns after every (re)start of listen())',
        'harness/props/c15.py generators and printers, vt/coqio.py']
    chk.assumptions = [
        'a restarted _listen() continues with the messages that follow (assumption about the broker)',
        'logger methods do not raise; the random fault scripts raise Exception subclasses; asyncio.CancelledError is raised '
        'only by application callbacks of the asyncio manager where the source absorbs it (coroutine callbacks, anything '
        'behind the coroutine _return_callback); a CancelledError raised by a PLAIN-function callback ends the asyncio '
        'listener on the unchanged tree (Coq: C15_total_refuted; generated only with C15_PLAIN_CANCEL=1, signature '
        'async-listener-ended-by-cancellederror-from-plain-callback); any BaseException outside Exception ends the '
        'threaded listener (out of the domain); a cancellation of the listener task itself (shutdown) is not a fault',
        'host ids of distinct servers are distinct (uuid4)',
        'class BCallbackCounter (callback message whose id hits slot 0 of callbacks[sid], the id generator) is '
        'ineffective since /repo commit 2f7b83f; should the defect return, the check reports signature '
        'c15-callback-id0-pops-counter (a callbacks[sid] without key 0 in the observed final state)']
    chk.prove()

    loop = asyncio.new_event_loop()
    loop.set_exception_handler(lambda l, c: None)
    logging.getLogger('asyncio').setLevel(logging.CRITICAL)
    cases, meta = [], []
    try:
        gen = Gen(rng, chk.thorough)
        # the smallest history of the counter-slot class first (regression probe for signature
        # c15-callback-id0-pops-counter; its replay is the minimal reproduction)
        for is_async in (False, True):
            plan, items = minimal_id0_probe()
            term, _, nsegs = lst_case(is_async, plan, items, loop)
            cases.append(term)
            meta.append(('lst', is_async, {'plan': plan, 'items': items, 'segments': nsegs}))
            chk.count(1, (is_async, 'id0-probe'))
        # what this host publishes
        for is_async in (False, True):
            cs, msgs = api_cases(rng, is_async, loop, n_api)
            gen.echo_pool.extend(msgs)
            for c in cs:
                cases.append(c)
                meta.append(('api', is_async, None))
                chk.count(1, None)
                chk.dist('api message')
        for is_async in (False, True):
            lst_batch(chk, gen, is_async, n_lst, loop, cases, meta, probes=True)
        for is_async in (False, True):
            for i in range(n_redis):
                script = gen_script(rng, 40)
                if i % 2 == 0:
                    tr = run_redis_listen(is_async, script, loop)
                    cases.append('(RL %s %s %s)' % (cstr('socketio'), clist([outcome_term(o) for o in script]),
                                                    clist([revent_term(e) for e in tr])))
                    meta.append(('redis-listen', is_async, {'script': script, 'trace': tr}))
                else:
                    script = script[:6]
                    tr = run_redis_publish(is_async, script, loop)
                    cases.append('(RP %s %s)' % (clist([outcome_term(o) for o in script]),
                                                 clist([pevent_term(e) for e in tr])))
                    meta.append(('redis-publish', is_async, {'script': script, 'trace': tr}))
                kinds = tuple(o[0] for o in script)
                chk.count(1, (is_async, i % 2, kinds) if 'redis' in kinds else None)
                chk.dist('redis script')
        # the real RedisManager._thread() / AsyncRedisManager._thread() over a broker that delivers only to subscribers.
        # The fake's listen() calls gc.collect() at every (re)start (abandoned async generators must be finalised as
        # in a real program); everything allocated so far (cases, meta) is moved out of the collector's sight first,
        # or each of those collections walks the whole heap (thorough tier: 45 minutes instead of a few)
        import gc
        gc.collect()
        gc.freeze()
        for is_async in (False, True):
            for i in range(n_rt):
                items = gen_rt_items(rng)
                term, events, flags = rt_case(is_async, items, loop)
                cases.append(term)
                meta.append(('redis-thread', is_async, {'items': [(it['label'], it.get('m')) for it in items],
                                                        'broker': events, 'sentinels': flags}))
                labels = tuple(it['label'] for it in items if it['label'] != 'sentinel')
                chk.count(1, (is_async, 'rt', labels) if ('nondict-raises' in labels or 'connection-drop' in labels) else None)
                chk.dist('redis thread scenario')
    finally:
        loop.close()
        import gc
        gc.unfreeze()

    results = evaluate(chk, cases, meta)
    corr_only = []
    new_property_violation = False
    for code, kind, is_async, replay in results:
        if code & 26:
            report_property(chk, code, kind, is_async, replay)
            new_property_violation |= not (code & 8)
        elif code & 4:
            chk.broken_obligation('generator tagged a message ineffective that the specification does not classify so '
                                  '(harness error), %s case' % kind)
        elif code & 1:
            corr_only.append((kind, is_async, replay))
    if corr_only:
        # model and implementation disagree somewhere, but the property held on every sampled observation:
        # look harder for an input on which the property itself fails (three times the listener sample)
        if not new_property_violation and any(k == 'lst' for k, _, _ in corr_only):
            loop = asyncio.new_event_loop()
            loop.set_exception_handler(lambda l, c: None)
            cases2, meta2 = [], []
            try:
                for is_async in sorted(set(a for k, a, _ in corr_only if k == 'lst')):
                    lst_batch(chk, gen, is_async, 3 * n_lst if not chk.thorough else n_lst, loop, cases2, meta2,
                              probes=False)
            finally:
                loop.close()
            for code, kind, is_async, replay in evaluate(chk, cases2, meta2, 'c15s'):
                if code & 26:
                    report_property(chk, code, kind, is_async, replay)
                    new_property_violation = True
        for kind, is_async, replay in corr_only:
            cls = 'async' if is_async else 'sync'
            chk.broken_obligation('correspondence: model and implementation disagree on %s case (%s)' % (kind, cls))
            if not new_property_violation:
                chk.violation('c15-%s-correspondence' % kind,
                              'model Listener/*.v and the %s manager disagree (%s)' % (cls, kind), replay, no_input=True)


def replay(chk, data):
    """Re-run the stored scenario on the real classes (listener cases) and evaluate it in Coq clause by clause."""
    rp = data['replay']
    case = rp.get('case')
    if rp.get('scenario_pickle'):
        is_async, plan, items = pickle.loads(base64.b64decode(rp['scenario_pickle']))
        loop = asyncio.new_event_loop()
        loop.set_exception_handler(lambda l, c: None)
        try:
            case, _, _ = lst_case(is_async, plan, items, loop)
        finally:
            loop.close()
        print('re-executed on %s: %d items' % ('AsyncPubSubManager' if is_async else 'PubSubManager', len(items)))
        for i in items:
            print('  %-28s %r' % (i['label'], i.get('m', i.get('e', (i.get('sid'), i.get('id'), i.get('args'))))))
    rc, out = coqio.eval_print('c15_replay', IMPORTS, '', ['c15_eval %s' % case, 'c15_clauses %s' % case,
                                                           'c15_explain %s' % case])
    print('c15_eval (0 = fine, 1 = model/implementation differ, 2 = property violated on the observation, '
          '4 = tag not justified, 8 = a callbacks[sid] lost its id generator, 16 = the listener ended before the '
          'end of the channel);')
    print('c15_clauses = [model=runA; model=runB; segment per item; sentinels delivered; foreign acks / own echoes '
          'ignored; tagged messages ineffective; tags justified; no id generator lost; no counter-class message in the '
          'scenario; the listener read the channel to its end]')
    print(out)
    return 1 if '= 0' not in out.split('\n')[0] else 0
