"""C06 - server-initiated acks: callback at most once, only for the right client and id."""
from gen import server_hist
from props import srvprop


def nontrivial(cfg, ops, results):
    cbs = sum(1 for o in ops if o[0] == 'emit' and o[7] is not None)
    acks = sum(1 for o in ops if o[0] in ('msg', 'msg_nested') and isinstance(o[2], str) and o[2][:1] in '36')
    return cbs >= 1 and acks >= 1


def prop_sig(cfg, ops, mode):
    # structural class of the failing history: an ACK carrying id 0 while a callback slot exists
    for o in ops:
        if o[0] in ('msg', 'msg_nested') and isinstance(o[2], str) and o[2][:1] == '3':
            body = o[2][1:]
            if body.startswith('/'):
                body = body[body.find(',') + 1:] if ',' in body else ''
            digits = ''
            for ch in body:
                if ch.isdigit():
                    digits += ch
                else:
                    break
            if digits and int(digits) == 0:
                return 'ack-id-zero-pops-counter'
    return 'c06-%s-property' % mode


def single_recipient(rng, cfg, ops):
    """Keep the stated domain: a callback only on an emit that reaches ONE client.  The generator addresses callback
    emits to a session id, but a room named like a (future) session id can have been entered by somebody else; the
    history is run once and the callback is dropped from every emit that was sent to two or more transports."""
    from drivers import srv
    try:
        results, _ = srv.run_history(cfg, ops, 'sync')
    except Exception:
        return cfg, ops
    out, j = [], 0
    for o in ops:
        width = {'msg_nested': 2, 'session_nested': 2, 'session_span': 3}.get(o[0], 1)
        effs = [e for r in results[j:j + width] for e in r[0]]
        j += width
        if o[0] == 'emit' and o[7] is not None and len(set(e[1] for e in effs if e[0] == 'Out')) >= 2:
            o = o[:7] + (None,)
        out.append(o)
    return cfg, out


def run(chk):
    k = server_hist.Knobs(n_ops=34, refuse=0.05, actions=0.0, nested_ack=0.3)
    k.w.update({'emit_cb': 7, 'ack': 8, 'binary': 1.0, 'connect': 4, 'emit': 0.5, 'enter': 0.3, 'leave': 0.1,
                'close_room': 0.1, 'rooms': 0.1, 'session': 0.1, 'junk': 0.2, 'event': 0.5, 'client_disconnect': 1.5,
                'disconnect': 1.2, 'close': 1.0})
    chk.assumptions = ['callbacks on emits addressed to more than one client are excluded (documented as unsupported)',
                       'call() is emit-with-callback plus an event wait; its result shaping is covered by C06_call_result']
    srvprop.run(chk, 'c06', k, 120, 1500,
                'histories of emits with callbacks to individual clients on several namespaces interleaved with ACK / '
                'BINARY_ACK packets from any client with ids 0,1,2,3,5,None (correct, duplicate, never issued, issued to '
                'another client / namespace), with disconnects and reconnects; non-trivial = at least one callback emit and '
                'one ACK; distinct by per-operation effect signature', nontrivial, prop_sig, tweak=single_recipient)


    if not chk.broken:
        call_cases(chk)
    if not chk.broken:
        overlap_cases(chk)


def call_cases(chk):
    """Server.call() / AsyncServer.call(): emit with an internal callback, wait, shape the result.
    The wait primitive is replaced by a fake event whose wait() delivers the scripted ACK (or nothing)."""
    import asyncio
    import json
    from vt import coqio
    from vt.coqio import pv, clist
    from drivers import srv
    cfg = {'handlers': {'/': {'connect': 1}, '/chat': {'connect': 2}}, 'ns_handlers': {},
           'behav': {1: {'arity': 2, 'actions': [], 'outcome': ('ret', None)},
                     2: {'arity': 2, 'actions': [], 'outcome': ('ret', None)}},
           'namespaces': ['/', '/chat'], 'always_connect': False, 'serializer': 'default'}
    acks = [[], [0], [False], [''], [[]], [{}], [None], [0.0], [1], ['x'], [[1, 2]], [{'a': 1}], [0, 0], [1, 'b'], [None, None],
            [b'\x01'], ['a', b'b', 3], None, None]
    rng = chk.rng
    cases, meta = [], []

    async def one(mode, ns, args):
        d = srv.ServerDriver(cfg, mode)
        sio = d.sio
        sio.async_handlers = True          # call() refuses to run otherwise; only ACK packets arrive meanwhile
        await d.op(('eio_connect', 'e0', {}))
        await d.op(('msg', 'e0', '0' if ns == '/' else '0' + ns + ','))
        sid = 'S0'

        def ack_payloads():
            ids = [k for k in sio.manager.callbacks.get(sid, {}) if k != 0]
            if args is None or not ids:
                return []
            data, atts = [], []
            for a in args:
                if isinstance(a, bytes):
                    data.append({'_placeholder': True, 'num': len(atts)})
                    atts.append(a)
                else:
                    data.append(a)
            head = ('6%d-' % len(atts) if atts else '3') + ('' if ns == '/' else ns + ',') + str(max(ids)) + \
                json.dumps(data, separators=(',', ':'))
            return [head] + atts

        if mode == 'sync':
            class Ev:
                flag = False

                def set(self):
                    self.flag = True

                def wait(self, timeout=None):
                    for p in ack_payloads():
                        d.sockets['e0'].receive(d.eio_packet.Packet(d.eio_packet.MESSAGE, p))
                    return self.flag
            sio.eio.create_event = lambda *a, **k: Ev()
            try:
                return True, sio.call('q', 'data', to=sid, namespace=ns, timeout=rng.choice([0, 1, 60]))
            except BaseException as e:
                return False, coqio.exn_name(e)
        else:
            class AEv:
                flag = False

                def set(self):
                    self.flag = True

                async def wait(self):
                    for p in ack_payloads():
                        await d.sockets['e0'].receive(d.eio_packet.Packet(d.eio_packet.MESSAGE, p))
                    if not self.flag:
                        raise asyncio.TimeoutError()
                    return True
            sio.eio.create_event = lambda *a, **k: AEv()
            try:
                return True, await sio.call('q', 'data', to=sid, namespace=ns, timeout=rng.choice([1, 60]))
            except BaseException as e:
                return False, coqio.exn_name(e)

    for mode in ('sync', 'async'):
        for ns in ('/', '/chat'):
            for args in acks:
                ok, res = asyncio.run(one(mode, ns, args))
                try:
                    obs = '(Ok %s)' % pv(res) if ok else '(Err %s)' % res
                except TypeError:
                    obs = '(Err OtherError)'
                cases.append('(%s, %s)' % ('None' if args is None else '(Some %s)' % clist([pv(a) for a in args]), obs))
                meta.append((mode, ns, args, res))
                chk.count(1, ('call', mode, ns, repr(args)), None)
                chk.dist('call() ack arity %s' % ('none' if args is None else len(args)))
    codes, errors = coqio.eval_cases('c06_call', 'From VT Require Import Check.C06CallCheck.', '', 'call_case', cases,
                                     'c06_call_eval', shard=200)
    for e in errors:
        chk.broken_obligation('case evaluation failed: ' + e)
    for idx in sorted(codes):
        mode, ns, args, res = meta[idx]
        chk.violation('call-result-shaping-%s' % mode,
                      '%s server: call() acknowledged with %r returned / raised %r' % (mode, args, res),
                      {'mode': mode, 'namespace': ns, 'ack_args': repr(args), 'observed': repr(res)})
        break


# ---------------------------------------------------------------------------------------------------
# overlapping call()s / emits with a callback (coq/Manager/AckOverlap.v, drivers/ackoverlap.py)
# ---------------------------------------------------------------------------------------------------
OV_CLIENTS = [('e0', '/'), ('e0', '/chat'), ('e1', '/')]
OV_ARGS = [[], [0], [None], ['pong'], [[1, 2]], [{'a': 1}], [1, 'b'], [None, None], ['a', 2, False]]


class _Mirror:
    """Bookkeeping the generator needs to propose ENABLED events (which operations are sending /
    waiting, which ids were issued).  It decides nothing: the Coq model re-derives all of it."""

    def __init__(self, n_clients):
        self.tasks = {}
        self.next = [1] * n_clients
        self.live = [True] * n_clients
        self.table = {}

    def apply(self, e):
        k = e[0]
        if k == 'start':
            _, t, kind, c = e
            self.tasks[t] = {'kind': kind, 'c': c, 'id': self.next[c], 'phase': 'sending', 'got': False}
            self.table[(c, self.next[c])] = t
            self.next[c] += 1
        elif k == 'sent':
            t = self.tasks[e[1]]
            t['phase'] = 'done' if (t['kind'] == 'emit' or t['got']) else 'waiting'
        elif k == 'timeout':
            self.tasks[e[1]]['phase'] = 'done'
        elif k == 'ack':
            _, c, i, _a = e
            t = self.table.pop((c, i), None) if self.live[c] else None
            if t is not None:
                t = self.tasks[t]
                t['got'] = True
                if t['kind'] == 'call' and t['phase'] == 'waiting':
                    t['phase'] = 'done'
        elif k == 'disc':
            c = e[1]
            self.live[c] = False
            for key in [x for x in self.table if x[0] == c]:
                del self.table[key]

    def close(self, rng, events):
        """Let every operation finish: complete the sends, then acknowledge or time out the waits."""
        for t in sorted(self.tasks):
            if self.tasks[t]['phase'] == 'sending':
                e = ('sent', t)
                events.append(e)
                self.apply(e)
        for t in sorted(self.tasks, key=lambda x: (rng.random(), x)):
            d = self.tasks[t]
            if d['phase'] == 'waiting':
                if self.live[d['c']] and (d['c'], d['id']) in self.table and rng.random() < 0.6:
                    e = ('ack', d['c'], d['id'], rng.choice(OV_ARGS))
                else:
                    e = ('timeout', t)
                events.append(e)
                self.apply(e)


def ov_random(rng, thorough):
    n_clients = rng.choice([1, 1, 1, 2, 3])
    clients = OV_CLIENTS[:n_clients]
    m = _Mirror(n_clients)
    events = []
    max_tasks = rng.choice([2, 2, 3, 3, 4] + ([5] if thorough else []))
    n = rng.randint(5, 16 if thorough else 12)
    for _ in range(n):
        sending = [t for t, d in m.tasks.items() if d['phase'] == 'sending']
        waiting = [t for t, d in m.tasks.items() if d['phase'] == 'waiting']
        live = [c for c in range(n_clients) if m.live[c]]
        cands = []
        if len(m.tasks) < max_tasks and live:
            cands += ['start'] * 4
        if sending:
            cands += ['sent'] * 3
        if waiting:
            cands += ['timeout'] * 2
        if m.tasks:
            cands += ['ack'] * 4
        if live and m.tasks and rng.random() < 0.15:
            cands += ['disc']
        if not cands:
            break
        k = rng.choice(cands)
        if k == 'start':
            c = live[0] if rng.random() < 0.7 else rng.choice(live)
            e = ('start', len(m.tasks), 'call' if rng.random() < 0.7 else 'emit', c)
        elif k == 'sent':
            e = ('sent', rng.choice(sending))
        elif k == 'timeout':
            e = ('timeout', rng.choice(waiting))
        elif k == 'disc':
            e = ('disc', rng.choice(live))
        else:
            r = rng.random()
            d = m.tasks[rng.choice(sorted(m.tasks))]
            if r < 0.75:
                c, i = d['c'], d['id']                          # the id of an operation (possibly used already)
            elif r < 0.87:
                c, i = rng.randrange(n_clients), d['id']        # that id, from some client
            else:
                c, i = d['c'], rng.choice([0, m.next[d['c']], m.next[d['c']] + 2])      # zero / never issued
            e = ('ack', c, i, rng.choice(OV_ARGS))
        events.append(e)
        m.apply(e)
    m.close(rng, events)
    return {'clients': clients, 'events': events}


def ov_directed():
    """Two operations A (a call() that times out) and B (call() or emit, acknowledged) to the same
    client: every interleaving of A = start, sent, timeout with B = start, sent, ack (the ACK before
    or after B's send completes)."""
    def merges(a, b):
        if not a:
            yield list(b)
        elif not b:
            yield list(a)
        else:
            for r in merges(a[1:], b):
                yield [a[0]] + r
            for r in merges(a, b[1:]):
                yield [b[0]] + r
    out = []
    for kind_b in ('call', 'emit'):
        for ack_first in (False, True):
            for ia in (0, 1):
                ib = 1 - ia
                for mg in merges(['sA', 'tA', 'xA'], ['sB', 'aB', 'tB'] if ack_first else ['sB', 'tB', 'aB']):
                    ids, nxt, ev = {}, 1, []
                    for x in mg:
                        if x == 'sA':
                            ids['A'] = nxt
                            nxt += 1
                            ev.append(('start', ia, 'call', 0))
                        elif x == 'sB':
                            ids['B'] = nxt
                            nxt += 1
                            ev.append(('start', ib, kind_b, 0))
                        elif x == 'tA':
                            ev.append(('sent', ia))
                        elif x == 'tB':
                            ev.append(('sent', ib))
                        elif x == 'xA':
                            ev.append(('timeout', ia))
                        else:
                            ev.append(('ack', 0, ids['B'], ['pong']))
                    out.append({'clients': OV_CLIENTS[:1], 'events': ev})
    # three at once: the middle one times out, the others are acknowledged afterwards, in both orders
    for order in ((1, 3), (3, 1)):
        out.append({'clients': OV_CLIENTS[:1],
                    'events': [('start', 0, 'call', 0), ('start', 1, 'call', 0), ('start', 2, 'call', 0),
                               ('sent', 0), ('sent', 1), ('sent', 2), ('timeout', 1),
                               ('ack', 0, order[0], ['a']), ('ack', 0, order[1], ['b', 2])]})
    return out


def ov_terms(scn, res):
    from vt import coqio
    from vt.coqio import pv, clist, cstr, cN
    sid = lambda c: cstr('S%d' % c) if c is not None else cstr('?')  # noqa: E731

    def ev(e):
        k = e[0]
        if k == 'start':
            return '(EStart %s %s %s)' % (cN(e[1]), 'KCall' if e[2] == 'call' else 'KEmit', sid(e[3]))
        if k == 'sent':
            return '(ESent %s)' % cN(e[1])
        if k == 'timeout':
            return '(ETimeout %s)' % cN(e[1])
        if k == 'disc':
            return '(EDisc %s)' % sid(e[1])
        return '(EAck %s %s %s)' % (sid(e[1]), cN(e[2]), clist([pv(a) for a in e[3]]))

    def eff(x):
        if x[0] == 'Out':
            return '(XOut %s (frame_id %s))' % (sid(x[1]), pv(x[2]))
        if x[0] == 'Cb':
            return '(XCb %s %s)' % (cN(x[1]), clist([pv(a) for a in x[2]]))
        if x[0] == 'Done':
            try:
                return '(XDone %s %s)' % (cN(x[1]), coqio.cres(x[2], pv(x[3]) if x[2] else x[3]))
            except TypeError:
                return '(XDone %s (Err OtherError))' % cN(x[1])
        return 'XBad'

    def dump(d):
        return clist(['(%s, %s, %s)' % (cstr(s), coqio.copt(nxt, cN), clist([cN(i) for i in ids])) for s, nxt, ids in d])
    return '(mkOv %s %s %s %s)' % (
        clist([sid(c) for c in range(len(scn['clients']))]), clist([ev(tuple(e)) for e in scn['events']]),
        clist(['(%s, %s)' % (clist([eff(x) for x in fx]), dump(d)) for fx, d in res['obs']]),
        clist([cN(k) for k in res['left']]))


def ov_signature(scn, mode, idx, fx=()):
    """Structural class of the first event whose observation violates the specification."""
    if idx is None or idx >= len(scn['events']):
        return 'overlap-%s-model-mismatch' % mode
    events = [tuple(e) for e in scn['events']]
    e = events[idx]
    m = _Mirror(len(scn['clients']))
    timed_out = set()           # clients for which some call() has timed out so far
    for x in events[:idx]:
        if x[0] == 'timeout' and x[1] in m.tasks:
            timed_out.add(m.tasks[x[1]]['c'])
        if x[0] in ('sent', 'timeout') and x[1] not in m.tasks:
            continue
        m.apply(x)
    # nothing happened (the acknowledgement was dropped) / something else than its own values was delivered
    what = 'wrong-delivery' if any(x[0] in ('Done', 'Cb') for x in fx) else 'lost'
    if e[0] == 'ack':
        t = m.table.get((e[1], e[2])) if m.live[e[1]] else None
        if t is not None:
            return 'overlap-%s-%s-ack-in-time-%s%s' % (mode, m.tasks[t]['kind'], what,
                                                       '-after-other-timeout' if e[1] in timed_out else '')
        return 'overlap-%s-stray-ack-has-effect' % mode
    if e[0] == 'sent' and e[1] in m.tasks and m.tasks[e[1]]['got'] and m.tasks[e[1]]['kind'] == 'call':
        # the ACK arrived while the send was still in progress; the call() must return it now
        return 'overlap-%s-call-ack-in-time-%s%s' % (mode, what, '-after-other-timeout' if m.tasks[e[1]]['c'] in timed_out else '')
    return 'overlap-%s-%s' % (mode, e[0])


def overlap_cases(chk, only=None):
    """Overlapping call()s / emits with a callback on both servers; judged by c06_overlap_eval."""
    from vt import coqio
    from drivers import ackoverlap
    rng = chk.rng
    if only is None:
        chk.rule += ('; overlapping call()s / emits with a callback (2-5 operations, 1-3 clients, events start / send '
                     'completes / ACK arrives / wait times out / client disconnects in any order, threaded and asyncio '
                     'servers): model AckOverlap.ostep vs implementation (effects + callback table after every event) and '
                     'specification AckOverlap.sstep on the observation; non-trivial = at least two operations, a timeout '
                     'and an ACK')
        chk.trusted_base.append('harness/drivers/ackoverlap.py: baton threads / gated asyncio tasks; eio.create_event and '
                                'Socket.send replaced on the instance (the only scheduling points of call() and emit())')
        chk.assumptions.append('overlap scenarios: a send completes and a wait times out exactly when the schedule says '
                               '(real timeouts are 60 s and never fire); ACK packets are processed atomically between events')
    scns = ov_directed()
    n = 1500 if chk.thorough else 260
    scns += [ov_random(rng, chk.thorough) for _ in range(n)]
    if only is not None:
        scns = [only]
    cases, meta = [], []
    for scn in scns:
        for mode in ('sync', 'async'):
            if only is not None and only.get('mode') not in (None, mode):
                continue
            res = ackoverlap.run_scenario(scn, mode)
            if res['error']:
                chk.broken_obligation('overlap driver (%s): %s on %r' % (mode, res['error'], scn['events']))
                continue
            cases.append(ov_terms(scn, res))
            meta.append((scn, mode, res))
            kinds = [e[0] for e in scn['events']]
            overl = sum(1 for e in scn['events'] if e[0] == 'start') >= 2
            key = None
            if overl and 'timeout' in kinds and 'ack' in kinds:
                key = ('overlap', mode, tuple(tuple(e[:3]) if e[0] != 'ack' else e[:3] for e in map(tuple, scn['events'])))
            chk.count(1, key, None)
            chk.dist('overlap: %d operations, %d clients' % (kinds.count('start'), len(scn['clients'])))
    chk.traces_validated += len(cases)
    codes, errors = coqio.eval_cases('c06_overlap', 'From VT Require Import Check.C06Check Check.C06CallCheck.', '', 'ov_case', cases,
                                     'c06_overlap_eval', shard=150)
    for e in errors:
        chk.broken_obligation('case evaluation failed: ' + e)
    bad = sorted(codes, key=lambda i: (0 if codes[i] & 2 else 1, len(meta[i][0]['events']), i))
    for idx in bad:
        scn, mode, res = meta[idx]
        code = codes[idx]
        first = (code // 4 - 1) if code & 2 else None
        replay = {'overlap': True, 'mode': mode, 'clients': [list(c) for c in scn['clients']],
                  'events': [list(e) for e in scn['events']], 'code': code, 'first_violating_event': first,
                  'observed': repr(res['obs'])}
        if code & 2:
            e = scn['events'][first] if first < len(scn['events']) else None
            chk.violation(ov_signature(scn, mode, first, res['obs'][first][0] if first < len(res['obs']) else ()),
                          '%s server, overlapping acknowledged operations %r: event #%d %r observed %r, which violates the '
                          'specification (AckOverlap.sstep)' % (mode, scn['events'], first, e,
                                                               res['obs'][first][0] if first < len(res['obs']) else None),
                          replay)
        elif not any(codes[i] & 2 for i in bad):
            chk.broken_obligation('overlap model (AckOverlap.ostep) and %s server disagree on %r: observed %r' % (
                mode, scn['events'], res['obs']))
            chk.violation('overlap-%s-model-mismatch' % mode, 'model and implementation disagree, no property failure found',
                          replay, no_input=True)
            break
    return codes


def replay(chk, data):
    if data.get('replay', {}).get('overlap'):
        r = data['replay']
        scn = {'clients': [tuple(c) for c in r['clients']], 'events': [tuple(e) for e in r['events']], 'mode': r['mode']}
        codes = overlap_cases(chk, only=scn)
        print('overlap replay: code', codes)
        for v in chk.violations:
            print('  signature=%s: %s' % (v[0], v[1]))
        for b in chk.broken:
            print('  BROKEN: ' + b[:1500])
        return 1 if codes or chk.broken else 0
    if 'ack_args' in data.get('replay', {}):
        print(data['replay'])
        return 1
    return srvprop.replay(chk, data, 'c06')
